/-
  TT.Lemmas.RecvCut — a quiescent `persist keep` cut is invisible (support for C02_cut_invisible).

  * `Good σ`: the arena has no duplicate descriptions, every interning index held by the receiver
    is inside the arena, metadata keys are unique. Preserved by every event.
  * `core σ`: the state with `uncommitted` forgotten. `tryReceive` never reads `uncommitted`.
  * at a quiescent cut on a good state, persist/restore yields `core σ`.
-/
import TT.Model.History

namespace TT

/-! ### AMap -/
namespace AMap
variable {κ α : Type} [DecidableEq κ]

theorem insert_fresh (m : AMap κ α) (k : κ) (v : α) (h : ∀ kv ∈ m, kv.1 ≠ k) :
    m.insert k v = m ++ [(k, v)] := by
  induction m with
  | nil => rfl
  | cons x xs ih =>
    obtain ⟨k', v'⟩ := x
    have h1 : k' ≠ k := h (k', v') (List.mem_cons_self ..)
    simp only [insert, if_neg h1, List.cons_append]
    rw [ih (fun kv hkv => h kv (List.mem_cons_of_mem _ hkv))]

theorem keys_insert (m : AMap κ α) (k : κ) (v : α) :
    (m.insert k v).map (·.1) = if k ∈ m.map (·.1) then m.map (·.1) else m.map (·.1) ++ [k] := by
  induction m with
  | nil => simp [insert]
  | cons x xs ih =>
    obtain ⟨k', v'⟩ := x
    by_cases h1 : k' = k
    · simp [insert, h1]
    · have h2 : ¬ k = k' := fun h => h1 h.symm
      simp only [insert, if_neg h1, List.map_cons, ih, List.mem_cons, h2, false_or]
      split <;> simp

theorem keys_insert_nodup (m : AMap κ α) (k : κ) (v : α) (h : (m.map (·.1)).Nodup) :
    ((m.insert k v).map (·.1)).Nodup := by
  rw [keys_insert]
  split
  · exact h
  · rename_i hk
    rw [List.nodup_append]
    refine ⟨h, by simp, ?_⟩
    intro a ha b hb
    simp at hb
    subst hb
    intro hab
    subst hab
    exact hk ha

theorem mem_insert (m : AMap κ α) (k : κ) (v : α) (kv : κ × α) (h : kv ∈ m.insert k v) :
    kv ∈ m ∨ kv = (k, v) := by
  induction m with
  | nil => simp [insert] at h; exact Or.inr h
  | cons x xs ih =>
    obtain ⟨k', v'⟩ := x
    by_cases h1 : k' = k
    · simp only [insert, if_pos h1, List.mem_cons] at h
      rcases h with h | h
      · subst h1; exact Or.inr h
      · exact Or.inl (List.mem_cons_of_mem _ h)
    · simp only [insert, if_neg h1, List.mem_cons] at h
      rcases h with h | h
      · exact Or.inl (h ▸ List.mem_cons_self ..)
      · rcases ih h with h | h
        · exact Or.inl (List.mem_cons_of_mem _ h)
        · exact Or.inr h

end AMap

/-! ### Arena -/

theorem indexOf?_none {d : CallSite} : ∀ {xs : List CallSite}, indexOf? d xs = none → d ∉ xs
  | [], _ => by simp
  | x :: xs, h => by
    unfold indexOf? at h
    split at h
    · cases h
    · rename_i hx
      simp only [Option.map_eq_none_iff] at h
      have := indexOf?_none h
      simp only [List.mem_cons, not_or]
      exact ⟨fun e => hx e.symm, this⟩

theorem indexOf?_lt {d : CallSite} : ∀ {xs : List CallSite} {i : Nat}, indexOf? d xs = some i → i < xs.length
  | [], _, h => by cases h
  | x :: xs, i, h => by
    unfold indexOf? at h
    split at h
    · cases h; simp
    · simp only [Option.map_eq_some_iff] at h
      obtain ⟨j, hj, rfl⟩ := h
      have := indexOf?_lt hj
      simp only [List.length_cons]; omega

theorem indexOf?_getD : ∀ (xs : List CallSite) (i : Nat), xs.Nodup → i < xs.length →
    indexOf? (xs.getD i default) xs = some i
  | [], _, _, h => by simp at h
  | x :: xs, 0, _, _ => by simp [indexOf?]
  | x :: xs, j + 1, hnd, h => by
    have hj : j < xs.length := by simpa using h
    rw [List.nodup_cons] at hnd
    have hmem : xs.getD j default ∈ xs := by
      simp [List.getD, hj]
    have hne : ¬ x = xs.getD j default := fun e => hnd.1 (e ▸ hmem)
    simp only [List.getD_cons_succ, indexOf?, if_neg hne, indexOf?_getD xs j hnd.2 hj, Option.map_some]

/-! ### The invariant -/

structure Good (σ : Sigma) : Prop where
  nodup : σ.w.arena.Nodup
  lt : ∀ kv ∈ σ.r.mt, kv.2 < σ.w.arena.length
  keys : (σ.r.mt.map (·.1)).Nodup

theorem Good.of_eq {σ σ' : Sigma} (h : Good σ) (hmt : σ'.r.mt = σ.r.mt) (ha : σ'.w.arena = σ.w.arena) :
    Good σ' :=
  ⟨ha ▸ h.nodup, by rw [hmt, ha]; exact h.lt, by rw [hmt]; exact h.keys⟩

theorem Good.onNewCallSite {σ : Sigma} (h : Good σ) (id : Nat) (d : CallSite) :
    Good (onNewCallSite σ id d) := by
  unfold TT.onNewCallSite arenaAlloc
  cases hi : indexOf? d σ.w.arena with
  | some i =>
    refine ⟨h.nodup, ?_, AMap.keys_insert_nodup _ _ _ h.keys⟩
    intro kv hkv
    rcases AMap.mem_insert _ _ _ _ hkv with hkv | hkv
    · exact h.lt kv hkv
    · subst hkv; exact indexOf?_lt hi
  | none =>
    refine ⟨?_, ?_, AMap.keys_insert_nodup _ _ _ h.keys⟩
    · show (σ.w.arena ++ [d]).Nodup
      rw [List.nodup_append]
      refine ⟨h.nodup, by simp, ?_⟩
      intro a ha b hb
      simp at hb
      subst hb
      intro hab
      subst hab
      exact indexOf?_none hi ha
    · intro kv hkv
      show kv.2 < (σ.w.arena ++ [d]).length
      rcases AMap.mem_insert _ _ _ _ hkv with hkv | hkv
      · have := h.lt kv hkv
        simp only [List.length_append, List.length_cons, List.length_nil]; omega
      · subst hkv; simp

/-! ### Restoring what was just persisted -/

theorem cut_restore_fold (arena : List CallSite) (hnd : arena.Nodup) (host : Host) :
    ∀ (rest : AMap Nat Nat) (acc : RState),
      (∀ kv ∈ rest, kv.2 < arena.length) → (rest.map (·.1)).Nodup →
      (∀ kv ∈ rest, ∀ kv' ∈ acc.mt, kv'.1 ≠ kv.1) →
      (rest.map fun kv => (kv.1, arena.getD kv.2 default)).foldl
          (fun σ kv => onNewCallSite σ kv.1 kv.2) { r := acc, w := { arena, host } }
        = { r := { acc with mt := acc.mt ++ rest }, w := { arena, host } }
  | [], acc, _, _, _ => by simp
  | (k, i) :: rest, acc, hlt, hk, hdis => by
    have hi : i < arena.length := hlt (k, i) (List.mem_cons_self ..)
    have hstep : onNewCallSite { r := acc, w := { arena, host } } k (arena.getD i default)
        = { r := { acc with mt := acc.mt ++ [(k, i)] }, w := { arena, host } } := by
      simp only [onNewCallSite, arenaAlloc, indexOf?_getD arena i hnd hi]
      rw [AMap.insert_fresh _ _ _ (fun kv' hkv' => hdis (k, i) (List.mem_cons_self ..) kv' hkv')]
      rfl
    simp only [List.map_cons, List.foldl_cons, hstep]
    rw [List.map_cons, List.nodup_cons] at hk
    rw [cut_restore_fold arena hnd host rest _ (fun kv hkv => hlt kv (List.mem_cons_of_mem _ hkv)) hk.2]
    · simp
    · intro kv hkv kv' hkv'
      simp only [List.mem_append, List.mem_cons, List.not_mem_nil, or_false] at hkv'
      rcases hkv' with hkv' | hkv'
      · exact hdis kv (List.mem_cons_of_mem _ hkv) kv' hkv'
      · subst hkv'
        intro e
        exact hk.1 (List.mem_map.2 ⟨kv, hkv, e.symm⟩)

/-- The state with `uncommitted` forgotten. -/
def core (σ : Sigma) : Sigma := { σ with r := { σ.r with uncommitted := [] } }

theorem restore_persistMeta {σ : Sigma} (h : Good σ) (w' : World) (hw : w'.arena = σ.w.arena) :
    restore (persistMeta σ) σ.r.spans σ.r.loc w'
      = { r := { mt := σ.r.mt, spans := σ.r.spans, loc := σ.r.loc, uncommitted := [], entered := [] },
          w := w' } := by
  obtain ⟨arena', host'⟩ := w'
  simp only at hw
  subst hw
  unfold restore persistMeta siteOf
  have := cut_restore_fold σ.w.arena h.nodup host' σ.r.mt { spans := σ.r.spans, loc := σ.r.loc }
    h.lt h.keys (by intro _ _ kv' hkv'; cases hkv')
  rw [this]
  simp

theorem finalize_nil (loc : AMap Nat Nat) (host : Host) : finalize [] [] loc host = host := rfl

theorem persist_keep_quiescent {s : Sys} (h : Good s.σ) (hq : s.σ.r.entered = []) :
    (s.step (.persist .keep)).σ = core s.σ := by
  simp only [Sys.step, persist, hq, finalize_nil]
  rw [restore_persistMeta h _ rfl]
  obtain ⟨σ, pm, ps⟩ := s
  obtain ⟨r, w⟩ := σ
  obtain ⟨mt, spans, loc, u, ent⟩ := r
  simp only at hq
  subst hq
  rfl

/-! ### `tryReceive` never reads `uncommitted` -/

def Res.map (f : Sigma → Sigma) : Res → Res
  | .ok σ => .ok (f σ)
  | .err e σ => .err e (f σ)
  | .panic s σ => .panic s (f σ)

def mapSpanId' (loc : AMap Nat Nat) (spans : AMap Nat SpanData) (id : Nat) : Except RErr (Option Nat) :=
  mapSpanId { loc, spans } id

def cls' (mt loc : AMap Nat Nat) (w : World) (d : SpanData) : CLS :=
  createLocalSpan { mt, loc } w d

theorem cut_mapSpanId_eq (r : RState) (id : Nat) : mapSpanId r id = mapSpanId' r.loc r.spans id := rfl
theorem createLocalSpan_eq (r : RState) (w : World) (d : SpanData) :
    createLocalSpan r w d = cls' r.mt r.loc w d := rfl

theorem tryReceive_core (σ : Sigma) (e : Event) :
    (tryReceive (core σ) e).map core = (tryReceive σ e).map core := by
  obtain ⟨r, w⟩ := σ
  obtain ⟨mt, spans, loc, u, ent⟩ := r
  cases e with
  | newSpan id parent mt' values =>
    simp only [tryReceive, core, cut_mapSpanId_eq, createLocalSpan_eq]
    by_cases hv : values.length > maxValues
    · simp only [hv, ↓reduceIte]; rfl
    simp only [hv, ↓reduceIte]
    by_cases hc : loc.contains id = true
    · simp only [hc, ↓reduceIte]; rfl
    simp only [hc, Bool.false_eq_true, ↓reduceIte]
    have fin : ∀ p : Option Nat,
        Res.map core (match cls' mt loc w { mt := mt', parent := p, refCount := 1, values := values } with
          | CLS.err e => Res.err e { r := { mt := mt, spans := spans, loc := loc, entered := ent }, w := w }
          | CLS.panic s => Res.panic s { r := { mt := mt, spans := spans, loc := loc, entered := ent }, w := w }
          | CLS.ok w h =>
            Res.ok { r := { mt := mt, spans := spans.insert id { mt := mt', parent := p, refCount := 1, values := values },
                            loc := loc.insert id h, uncommitted := ASet.insert [] id, entered := ent }, w := w })
        = Res.map core (match cls' mt loc w { mt := mt', parent := p, refCount := 1, values := values } with
          | CLS.err e => Res.err e { r := { mt := mt, spans := spans, loc := loc, uncommitted := u, entered := ent }, w := w }
          | CLS.panic s => Res.panic s { r := { mt := mt, spans := spans, loc := loc, uncommitted := u, entered := ent }, w := w }
          | CLS.ok w h =>
            Res.ok { r := { mt := mt, spans := spans.insert id { mt := mt', parent := p, refCount := 1, values := values },
                            loc := loc.insert id h, uncommitted := ASet.insert u id, entered := ent }, w := w }) := by
      intro p
      cases cls' mt loc w { mt := mt', parent := p, refCount := 1, values := values } <;> rfl
    cases parent with
    | none => exact fin none
    | some p =>
      simp only
      cases mt.get mt' with
      | none => rfl
      | some idx =>
        simp only
        cases mapSpanId' loc spans p with
        | error e => rfl
        | ok l => exact fin (some p)
  | valuesRecorded id values =>
    simp only [tryReceive, core, cut_mapSpanId_eq]
    by_cases hv : values.length > maxValues
    · simp only [hv, ↓reduceIte]; rfl
    simp only [hv, ↓reduceIte]
    cases mapSpanId' loc spans id with
    | error e => rfl
    | ok l =>
      cases l with
      | none => simp only; cases spans.get id <;> rfl
      | some h =>
        simp only
        cases hs : spans.get id with
        | none => rfl
        | some d =>
          simp only
          cases mt.get d.mt with
          | none => rfl
          | some idx =>
            simp only
            cases createValues (generateFields (siteOf w idx) values) with
            | none => rfl
            | some v => simp only [hs]; rfl
  | _ =>
    simp only [tryReceive, core, cut_mapSpanId_eq, createLocalSpan_eq]
    repeat' split
    all_goals (try rfl)
    all_goals simp_all [Res.map, core]

/-! ### Events other than `newCallSite` leave metadata and arena alone -/

theorem createLocalSpan_arena {r : RState} {w w' : World} {d : SpanData} {h : Nat}
    (hc : createLocalSpan r w d = .ok w' h) : w'.arena = w.arena := by
  simp only [createLocalSpan] at hc
  repeat' split at hc
  all_goals (try cases hc)
  all_goals rfl

theorem tryReceive_frame (σ : Sigma) (e : Event) (hne : ∀ id d, e ≠ .newCallSite id d) :
    (tryReceive σ e).state.r.mt = σ.r.mt ∧ (tryReceive σ e).state.w.arena = σ.w.arena := by
  cases e with
  | newCallSite id d => exact absurd rfl (hne id d)
  | valuesRecorded id values =>
    simp only [tryReceive]
    split
    · exact ⟨rfl, rfl⟩
    cases mapSpanId σ.r id with
    | error e => exact ⟨rfl, rfl⟩
    | ok l =>
      cases l with
      | none => simp only; cases σ.r.spans.get id <;> exact ⟨rfl, rfl⟩
      | some h =>
        simp only
        cases hs : σ.r.spans.get id with
        | none => exact ⟨rfl, rfl⟩
        | some d =>
          simp only
          cases σ.r.mt.get d.mt with
          | none => exact ⟨rfl, rfl⟩
          | some idx =>
            simp only
            cases createValues (generateFields (siteOf σ.w idx) values) with
            | none => exact ⟨rfl, rfl⟩
            | some v => simp only [hs]; exact ⟨rfl, rfl⟩
  | _ =>
    simp only [tryReceive]
    repeat' split
    all_goals (try (exact ⟨rfl, rfl⟩))
    all_goals (refine ⟨rfl, ?_⟩; rename_i hc; have := createLocalSpan_arena hc; exact this)

theorem Good.tryReceive {σ : Sigma} (h : Good σ) (e : Event) : Good (tryReceive σ e).state := by
  by_cases hne : ∀ id d, e ≠ .newCallSite id d
  · exact h.of_eq (tryReceive_frame σ e hne).1 (tryReceive_frame σ e hne).2
  · cases e with
    | newCallSite id d => exact h.onNewCallSite id d
    | _ => exact absurd (fun _ _ h => by cases h) hne

theorem Good.of_core_eq {σ₁ σ₂ : Sigma} (h : Good σ₂) (hc : core σ₁ = core σ₂) : Good σ₁ :=
  h.of_eq (congrArg (fun σ => σ.r.mt) hc) (congrArg (fun σ => σ.w.arena) hc)

/-! ### Results -/

def Res.kind : Res → Option RErr
  | .ok _ => none
  | .err r _ => some r
  | .panic _ _ => some (.tooMany 0)

theorem Res.kind_map (f : Sigma → Sigma) (r : Res) : (r.map f).kind = r.kind := by cases r <;> rfl
theorem Res.state_map (f : Sigma → Sigma) (r : Res) : (r.map f).state = f r.state := by cases r <;> rfl

theorem results_ev (s : Sys) (e : Event) (ops : List HOp) :
    results s (.ev e :: ops) = (tryReceive s.σ e).kind :: results (s.step (.ev e)) ops := by
  simp only [results]
  cases tryReceive s.σ e <;> rfl

theorem results_persist (s : Sys) (m : PMode) (ops : List HOp) :
    results s (.persist m :: ops) = results (s.step (.persist m)) ops := by
  simp only [results]

theorem step_sim {σ₁ σ₂ : Sigma} (e : Event) (hc : core σ₁ = core σ₂) :
    core (tryReceive σ₁ e).state = core (tryReceive σ₂ e).state ∧
    (tryReceive σ₁ e).kind = (tryReceive σ₂ e).kind := by
  have h : (tryReceive σ₁ e).map core = (tryReceive σ₂ e).map core := by
    rw [← tryReceive_core σ₁, ← tryReceive_core σ₂, hc]
  refine ⟨?_, ?_⟩
  · have := congrArg Res.state h
    rwa [Res.state_map, Res.state_map] at this
  · have := congrArg Res.kind h
    rwa [Res.kind_map, Res.kind_map] at this

/-! ### The cut run against the uncut run -/

/-- Events numbered from `k`; `persist keep` after event number `i` (1-based) when `i ∈ cuts`. -/
def cutOps (cuts : List Nat) : Nat → List Event → List HOp
  | _, [] => []
  | k, e :: es =>
    if (k + 1) ∈ cuts then .ev e :: .persist .keep :: cutOps cuts (k + 1) es
    else .ev e :: cutOps cuts (k + 1) es

theorem cut_main (cuts : List Nat) : ∀ (evs : List Event) (k : Nat) (s₁ s₂ : Sys),
    core s₁.σ = core s₂.σ → Good s₂.σ →
    (∀ n, 0 < n → (k + n) ∈ cuts →
      (runHistory s₂ ((evs.take n).map .ev)).σ.r.entered = []) →
    core (runHistory s₁ (cutOps cuts k evs)).σ = core (runHistory s₂ (evs.map .ev)).σ ∧
    results s₁ (cutOps cuts k evs) = results s₂ (evs.map .ev)
  | [], _, _, _, hc, _, _ => ⟨hc, rfl⟩
  | e :: es, k, s₁, s₂, hc, hg, hq => by
    have hstep : core (s₁.step (.ev e)).σ = core (s₂.step (.ev e)).σ ∧ _ := step_sim e hc
    have hg' : Good (s₂.step (.ev e)).σ := hg.tryReceive e
    have hq' : ∀ n, 0 < n → (k + 1 + n) ∈ cuts →
        (runHistory (s₂.step (.ev e)) ((es.take n).map .ev)).σ.r.entered = [] := by
      intro n _ hmem
      have := hq (n + 1) (by omega) (by rwa [Nat.add_assoc, Nat.add_comm 1 n] at hmem)
      simpa [runHistory] using this
    by_cases hk : (k + 1) ∈ cuts
    · have hent : (s₂.step (.ev e)).σ.r.entered = [] := by
        simpa [runHistory] using hq 1 (by omega) hk
      have hent1 : (s₁.step (.ev e)).σ.r.entered = [] := by
        have := congrArg (fun σ => σ.r.entered) hstep.1
        exact this.trans hent
      have hg1 : Good (s₁.step (.ev e)).σ := hg'.of_core_eq hstep.1
      have hp := persist_keep_quiescent hg1 hent1
      have hc' : core ((s₁.step (.ev e)).step (.persist .keep)).σ = core (s₂.step (.ev e)).σ := by
        rw [hp]; exact hstep.1
      have ih := cut_main cuts es (k + 1) _ _ hc' hg' hq'
      simp only [cutOps, if_pos hk, List.map_cons, runHistory, List.foldl_cons, results_ev,
        results_persist] at ih ⊢
      exact ⟨ih.1, by rw [ih.2, hstep.2]⟩
    · have ih := cut_main cuts es (k + 1) _ _ hstep.1 hg' hq'
      simp only [cutOps, if_neg hk, List.map_cons, runHistory, List.foldl_cons, results_ev] at ih ⊢
      exact ⟨ih.1, by rw [ih.2, hstep.2]⟩

end TT
