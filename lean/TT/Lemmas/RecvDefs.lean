/-
  TT.Lemmas.RecvDefs — small shared definitions for the receiver theorems.
-/
import TT.Model.History

namespace TT

def Sys.init (w₀ : World) : Sys := { σ := { r := {}, w := w₀ } }

def lookupEq {α : Type} (a b : AMap Nat α) : Prop := ∀ k, a.get k = b.get k

/-- What the receiver reports for an event, as a function of the bookkeeping alone. -/
def Spec.verdict (sp : Spec) (e : Event) : Option RErr := (sp.invalid e).head?

def Res.verdict : Res → Option (Option RErr)
  | .ok _ => some none
  | .err r _ => some (some r)
  | .panic _ _ => none

end TT
