/-
  The concurrent reference ingredients as functions of the tagged call log: behaviour under
  appending one call, well-formed tagged logs (`cc_CallsOK`), and stability of the parent
  computation. Thread-independent facts come from `CapSpecCalls` via `cc_untag`.
-/
import TT.Lemmas.CapConcDefs

namespace TT

/-! ### Appending one call -/

theorem cc_untag_snoc (tcs : List (Nat × SubCall)) (tc : Nat × SubCall) :
    cc_untag (tcs ++ [tc]) = cc_untag tcs ++ [tc.2] := by
  simp [cc_untag]

theorem cc_hierFinal_snoc (cs : List (Nat × SubCall)) (c : Nat × SubCall) :
    cc_hierFinal (cs ++ [c]) = (cc_hierFinal cs).step c := by
  simp [cc_hierFinal, List.foldl_append]

theorem cc_hb_snoc (h : cc_Hier) (cs : List (Nat × SubCall)) (c : Nat × SubCall) :
    cc_hb h (cs ++ [c]) = cc_hb h cs ++ [(cc_proj (cs.foldl cc_Hier.step h) c.1, c.2)] := by
  induction cs generalizing h with
  | nil => rfl
  | cons a cs ih => simp [cc_hb, ih]

theorem cc_stack_insert (h : cc_Hier) (t : Nat) (stk : List (Nat × Bool)) (par : AMap Nat (Option Nat))
    (t' : Nat) :
    cc_Hier.stack { stacks := h.stacks.insert t stk, parent := par } t' =
      if t' = t then stk else h.stack t' := by
  simp only [cc_Hier.stack, sd_get_insert]
  split <;> rfl

theorem cc_resolve_proj (h : cc_Hier) (t : Nat) (p : SParent) :
    cc_resolve h t p = cs_resolve (cc_proj h t) p := by
  cases p <;> rfl

/-! ### Well-formed tagged call logs -/

def cc_StepOK (tcs : List (Nat × SubCall)) : Nat × SubCall → Prop
  | (t, .newSpan id _ p _) => id = cs_maxId (cc_untag tcs) + 1 ∧
      ∀ q, cs_resolve (cc_proj (cc_hierFinal tcs) t) p = some q → 1 ≤ q ∧ q ≤ cs_maxId (cc_untag tcs)
  | (t, .event _ p _) =>
      ∀ q, cs_resolve (cc_proj (cc_hierFinal tcs) t) p = some q → 1 ≤ q ∧ q ≤ cs_maxId (cc_untag tcs)
  | (_, .enter id) => 1 ≤ id ∧ id ≤ cs_maxId (cc_untag tcs)
  | (_, .exit id) => id ≤ cs_maxId (cc_untag tcs)
  | (_, .follows a b) => a ≤ cs_maxId (cc_untag tcs) ∧ b ≤ cs_maxId (cc_untag tcs)
  | _ => True

inductive cc_CallsOK : List (Nat × SubCall) → Prop
  | nil : cc_CallsOK []
  | snoc (cs : List (Nat × SubCall)) (c : Nat × SubCall) : cc_CallsOK cs → cc_StepOK cs c → cc_CallsOK (cs ++ [c])

theorem cc_onStack_mem {s : List (Nat × Bool)} {q : Nat} (h : cs_onStack s q = true) :
    ∃ x ∈ s, x.1 = q := by
  unfold cs_onStack at h
  rw [List.any_eq_true] at h
  obtain ⟨x, hx, he⟩ := h
  exact ⟨x, hx, by simpa using he⟩

theorem cc_stepOK_untag {tcs : List (Nat × SubCall)} {tc : Nat × SubCall}
    (hok : cs_CallsOK (cc_untag tcs)) (hst : cc_StepOK tcs tc) : cs_StepOK (cc_untag tcs) tc.2 := by
  obtain ⟨t, c⟩ := tc
  have hh := cs_hierOK hok
  have hctx : ∀ (p : SParent) q,
      (∀ q, cs_resolve (cc_proj (cc_hierFinal tcs) t) p = some q → 1 ≤ q ∧ q ≤ cs_maxId (cc_untag tcs)) →
      cs_resolve (cs_hierFinal (cc_untag tcs)) p = some q → 1 ≤ q ∧ q ≤ cs_maxId (cc_untag tcs) := by
    intro p q hb hq
    cases p with
    | root => cases hq
    | ctx =>
      simp only [cs_resolve] at hq
      obtain ⟨x, hx, he⟩ := cc_onStack_mem (cs_stackCurrent_mem hq)
      rw [← he]
      exact hh.stk x hx
    | explicit id => exact hb q hq
  cases c with
  | newSpan id k p f => exact ⟨hst.1, fun q hq => hctx p q hst.2 hq⟩
  | event k p f => exact fun q hq => hctx p q hst hq
  | enter id => exact hst
  | exit id => exact hst
  | follows a b => exact hst
  | register _ _ => trivial
  | record _ _ => trivial
  | clone _ => trivial
  | tryClose _ => trivial

theorem cc_callsOK_untag {tcs : List (Nat × SubCall)} (hok : cc_CallsOK tcs) :
    cs_CallsOK (cc_untag tcs) := by
  induction hok with
  | nil => exact cs_CallsOK.nil
  | snoc cs c _ hst ih =>
    rw [cc_untag_snoc]
    exact cs_CallsOK.snoc _ _ ih (cc_stepOK_untag ih hst)

theorem cc_maxId_le_snoc (tcs : List (Nat × SubCall)) (tc : Nat × SubCall) :
    cs_maxId (cc_untag tcs) ≤ cs_maxId (cc_untag (tcs ++ [tc])) := by
  rw [cc_untag_snoc]; exact cs_maxId_le_snoc _ _

theorem cc_keys_insert_nodup {α : Type} (m : AMap Nat α) (k : Nat) (v : α)
    (h : (m.map (·.1)).Nodup) : ((AMap.insert m k v).map (·.1)).Nodup := by
  induction m with
  | nil => simp [AMap.insert]
  | cons e m ih =>
    obtain ⟨k', v'⟩ := e
    simp only [AMap.insert]
    by_cases hk : k' = k
    · simpa [hk] using h
    · simp only [hk, if_false, List.map_cons, List.nodup_cons] at h ⊢
      refine ⟨?_, ih h.2⟩
      intro hm
      rw [List.mem_map] at hm
      obtain ⟨x, hx, hxe⟩ := hm
      have hg : AMap.get (AMap.insert m k v) k' ≠ none := by
        rw [Ne, cs_get_none_iff]
        intro hn
        exact hn (List.mem_map.mpr ⟨x, hx, hxe⟩)
      rw [sd_get_insert, if_neg hk] at hg
      rw [Ne, cs_get_none_iff] at hg
      exact hg h.1

structure cc_HierOK (h : cc_Hier) (M : Nat) : Prop where
  key : ∀ c, h.parent.get c ≠ none → 1 ≤ c ∧ c ≤ M
  dec : ∀ c q, h.parent.get c = some (some q) → 1 ≤ q ∧ q < c
  nd : (h.stacks.map (·.1)).Nodup

theorem cc_hierOK_mono {h : cc_Hier} {M M' : Nat} (hh : cc_HierOK h M) (hm : M ≤ M') :
    cc_HierOK h M' :=
  ⟨fun c hc => ⟨(hh.key c hc).1, Nat.le_trans (hh.key c hc).2 hm⟩, hh.dec, hh.nd⟩

theorem cc_hierOK {tcs : List (Nat × SubCall)} (hok : cc_CallsOK tcs) :
    cc_HierOK (cc_hierFinal tcs) (cs_maxId (cc_untag tcs)) := by
  induction hok with
  | nil => exact ⟨fun c hc => by simp [cc_hierFinal, AMap.get] at hc,
      fun c q hc => by simp [cc_hierFinal, AMap.get] at hc, by simp [cc_hierFinal]⟩
  | snoc cs c _ hst ih =>
    rw [cc_hierFinal_snoc]
    have hmono := cc_hierOK_mono ih (cc_maxId_le_snoc cs c)
    obtain ⟨t, c⟩ := c
    cases c with
    | newSpan id k p f =>
      obtain ⟨hid, hq⟩ := hst
      have hM : cs_maxId (cc_untag (cs ++ [(t, SubCall.newSpan id k p f)])) = id := by
        rw [cc_untag_snoc, cs_maxId_snoc]; simp only; omega
      rw [hM] at hmono ⊢
      refine ⟨?_, ?_, hmono.nd⟩
      · intro c hc
        simp only [cc_Hier.step, sd_get_insert] at hc
        by_cases hci : c = id
        · omega
        · rw [if_neg hci] at hc
          exact hmono.key c hc
      · intro c q hc
        simp only [cc_Hier.step, sd_get_insert] at hc
        by_cases hci : c = id
        · rw [if_pos hci] at hc
          have := hq q (by rw [← cc_resolve_proj]; simpa using hc)
          omega
        · rw [if_neg hci] at hc
          exact ih.dec c q hc
    | enter id => exact ⟨hmono.key, hmono.dec, cc_keys_insert_nodup _ _ _ hmono.nd⟩
    | exit id => exact ⟨hmono.key, hmono.dec, cc_keys_insert_nodup _ _ _ hmono.nd⟩
    | register _ _ => exact hmono
    | record _ _ => exact hmono
    | follows _ _ => exact hmono
    | clone _ => exact hmono
    | tryClose _ => exact hmono
    | event _ _ _ => exact hmono

/-! ### Stability of the parent computation -/

theorem cc_cap_agree_snoc (flt : LFilter) (sites : List CallSite) {tcs : List (Nat × SubCall)}
    {tc : Nat × SubCall} (hok : cc_CallsOK tcs) (hst : cc_StepOK tcs tc) (x : Nat)
    (hx : x ≤ cs_maxId (cc_untag tcs)) :
    (cs_cap flt sites (cc_untag (tcs ++ [tc]))).get x = (cs_cap flt sites (cc_untag tcs)).get x := by
  rw [cc_untag_snoc]
  exact cs_cap_agree_snoc flt sites _ _ (cc_stepOK_untag (cc_callsOK_untag hok) hst) x hx

/-- The parent of the last call does not depend on later captures or larger fuel. -/
theorem cc_pc_last {tcs : List (Nat × SubCall)} {t : Nat} {c : SubCall} (hok : cc_CallsOK tcs)
    (hst : cc_StepOK tcs (t, c)) (cap cap' : AMap Nat Nat) (fuel fuel' : Nat)
    (hcap : ∀ x, x ≤ cs_maxId (cc_untag tcs) → cap.get x = cap'.get x)
    (hf : cs_maxId (cc_untag tcs) < fuel) (hf' : cs_maxId (cc_untag tcs) < fuel') :
    cs_pc cap fuel (cc_proj (cc_hierFinal tcs) t) c = cs_pc cap' fuel' (cc_proj (cc_hierFinal tcs) t) c := by
  have hh := cc_hierOK hok
  cases c with
  | newSpan id k p f =>
    simp only [cs_pc]
    exact cs_nearest_congr_opt _ _ _ _ (cs_maxId (cc_untag tcs)) (fun _ _ => rfl) hcap
      (fun c q h => (hh.dec c q h).2) _ _ _ (fun q hq => (hst.2 q hq).2) hf hf'
  | event k p f =>
    simp only [cs_pc]
    exact cs_nearest_congr_opt _ _ _ _ (cs_maxId (cc_untag tcs)) (fun _ _ => rfl) hcap
      (fun c q h => (hh.dec c q h).2) _ _ _ (fun q hq => (hst q hq).2) hf hf'
  | _ => rfl

theorem cc_pc_stable (flt : LFilter) (sites : List CallSite) {tcs : List (Nat × SubCall)}
    (hok : cc_CallsOK tcs) :
    ∀ (cap' : AMap Nat Nat) (fuel' : Nat),
      (∀ x, x ≤ cs_maxId (cc_untag tcs) → (cs_cap flt sites (cc_untag tcs)).get x = cap'.get x) →
      cs_maxId (cc_untag tcs) < fuel' →
      ∀ x ∈ cc_hb {} tcs,
        cs_pc cap' fuel' x.1 x.2 =
          cs_pc (cs_cap flt sites (cc_untag tcs)) (cs_maxId (cc_untag tcs) + 1) x.1 x.2 := by
  induction hok with
  | nil => intro _ _ _ _ x hx; simp [cc_hb] at hx
  | snoc cs c hcs hst ih =>
    intro cap' fuel' hcap hf x hx
    have hle := cc_maxId_le_snoc cs c
    have hag : ∀ y, y ≤ cs_maxId (cc_untag cs) →
        (cs_cap flt sites (cc_untag cs)).get y = (cs_cap flt sites (cc_untag (cs ++ [c]))).get y :=
      fun y hy => (cc_cap_agree_snoc flt sites hcs hst y hy).symm
    rw [cc_hb_snoc, List.mem_append, List.mem_singleton] at hx
    rcases hx with hx | hx
    · rw [ih cap' fuel' (fun y hy => by rw [hag y hy]; exact hcap y (by omega)) (by omega) x hx]
      rw [ih (cs_cap flt sites (cc_untag (cs ++ [c]))) (cs_maxId (cc_untag (cs ++ [c])) + 1) hag (by omega) x hx]
    · subst hx
      obtain ⟨t, c⟩ := c
      exact cc_pc_last hcs hst _ _ _ _ (fun y hy => (hcap y (by omega)).symm) (by omega) (by omega)

theorem cc_refSpans_snoc (flt : LFilter) (sites : List CallSite) {cs : List (Nat × SubCall)}
    {c : Nat × SubCall} (hok : cc_CallsOK cs) (hst : cc_StepOK cs c) :
    cc_refSpans flt sites (cs ++ [c]) = cc_refSpans flt sites cs ++
      (cs_siOf flt sites (cs_cap flt sites (cc_untag cs)) (cs_maxId (cc_untag cs) + 1)
        (cc_proj (cc_hierFinal cs) c.1, c.2)).toList := by
  have hle := cc_maxId_le_snoc cs c
  unfold cc_refSpans
  rw [cc_hb_snoc, List.filterMap_append]
  congr 1
  · apply cs_filterMap_congr
    intro x hx
    apply cs_siOf_congr
    exact cc_pc_stable flt sites hok _ _
      (fun y hy => (cc_cap_agree_snoc flt sites hok hst y hy).symm) (by omega) x hx
  · have : cs_siOf flt sites (cs_cap flt sites (cc_untag (cs ++ [c]))) (cs_maxId (cc_untag (cs ++ [c])) + 1)
        (cc_proj (cc_hierFinal cs) c.1, c.2) =
        cs_siOf flt sites (cs_cap flt sites (cc_untag cs)) (cs_maxId (cc_untag cs) + 1)
          (cc_proj (cc_hierFinal cs) c.1, c.2) := by
      apply cs_siOf_congr
      obtain ⟨t, c⟩ := c
      exact cc_pc_last hok hst _ _ _ _
        (fun y hy => cc_cap_agree_snoc flt sites hok hst y hy) (by omega) (by omega)
    show List.filterMap _ [(cc_proj (cc_hierFinal cs) c.1, c.2)] = _
    rw [List.filterMap_cons, this]
    cases cs_siOf flt sites (cs_cap flt sites (cc_untag cs)) (cs_maxId (cc_untag cs) + 1)
      (cc_proj (cc_hierFinal cs) c.1, c.2) <;> rfl

theorem cc_refEvents_snoc (flt : LFilter) (sites : List CallSite) {cs : List (Nat × SubCall)}
    {c : Nat × SubCall} (hok : cc_CallsOK cs) (hst : cc_StepOK cs c) :
    cc_refEvents flt sites (cs ++ [c]) = cc_refEvents flt sites cs ++
      (cs_eiOf flt sites (cs_cap flt sites (cc_untag cs)) (cs_maxId (cc_untag cs) + 1)
        (cc_proj (cc_hierFinal cs) c.1, c.2)).toList := by
  have hle := cc_maxId_le_snoc cs c
  unfold cc_refEvents
  rw [cc_hb_snoc, List.filterMap_append]
  congr 1
  · apply cs_filterMap_congr
    intro x hx
    apply cs_eiOf_congr
    exact cc_pc_stable flt sites hok _ _
      (fun y hy => (cc_cap_agree_snoc flt sites hok hst y hy).symm) (by omega) x hx
  · have : cs_eiOf flt sites (cs_cap flt sites (cc_untag (cs ++ [c]))) (cs_maxId (cc_untag (cs ++ [c])) + 1)
        (cc_proj (cc_hierFinal cs) c.1, c.2) =
        cs_eiOf flt sites (cs_cap flt sites (cc_untag cs)) (cs_maxId (cc_untag cs) + 1)
          (cc_proj (cc_hierFinal cs) c.1, c.2) := by
      apply cs_eiOf_congr
      obtain ⟨t, c⟩ := c
      exact cc_pc_last hok hst _ _ _ _
        (fun y hy => cc_cap_agree_snoc flt sites hok hst y hy) (by omega) (by omega)
    show List.filterMap _ [(cc_proj (cc_hierFinal cs) c.1, c.2)] = _
    rw [List.filterMap_cons, this]
    cases cs_eiOf flt sites (cs_cap flt sites (cc_untag cs)) (cs_maxId (cc_untag cs) + 1)
      (cc_proj (cc_hierFinal cs) c.1, c.2) <;> rfl

/-! ### Facts about the captured ids and the descriptions -/

theorem cc_refSpansG_ids_aux (flt : LFilter) (sites : List CallSite) (cap : AMap Nat Nat) (fuel : Nat)
    (tcs : List (Nat × SubCall)) : ∀ h : cc_Hier,
    ((cc_hb h tcs).filterMap (cs_siOf flt sites cap fuel)).map (·.id) =
      (cc_untag tcs).filterMap (cs_newCapId flt sites) := by
  induction tcs with
  | nil => intro _; rfl
  | cons c cs ih =>
    intro h
    obtain ⟨t, c⟩ := c
    simp only [cc_hb, cc_untag, List.map_cons, List.filterMap_cons]
    have ih' := ih (h.step (t, c))
    simp only [cc_untag] at ih'
    cases c with
    | newSpan id k p f =>
      by_cases he : flt.enabled (sites.getD k default) = true
      · simp only [cs_siOf, cs_newCapId, if_pos he, List.map_cons, ih']
      · simp only [cs_siOf, cs_newCapId, if_neg he, ih']
    | _ => simp [cs_siOf, cs_newCapId, ih']

theorem cc_refSpans_ids (flt : LFilter) (sites : List CallSite) (tcs : List (Nat × SubCall)) :
    (cc_refSpans flt sites tcs).map (·.id) = cs_capIds flt sites (cc_untag tcs) := by
  rw [cs_capIds_eq]
  exact cc_refSpansG_ids_aux flt sites _ _ tcs {}

theorem cc_refSpans_length (flt : LFilter) (sites : List CallSite) (tcs : List (Nat × SubCall)) :
    (cc_refSpans flt sites tcs).length = (cs_capIds flt sites (cc_untag tcs)).length := by
  rw [← cc_refSpans_ids, List.length_map]

theorem cc_cap_get_lt {flt : LFilter} {sites : List CallSite} {tcs : List (Nat × SubCall)} {id c : Nat}
    (h : (cs_cap flt sites (cc_untag tcs)).get id = some c) : c < (cc_refSpans flt sites tcs).length := by
  rw [cc_refSpans_length]
  have := cs_get_zipIdx_some h
  rcases Nat.lt_or_ge c (cs_capIds flt sites (cc_untag tcs)).length with hl | hl
  · exact hl
  · simp [List.getElem?_eq_none hl] at this

theorem cc_refSpans_parentC (flt : LFilter) (sites : List CallSite) (tcs : List (Nat × SubCall)) :
    ∀ s ∈ cc_refSpans flt sites tcs, ∀ p, s.parentC = some p →
      p < (cc_refSpans flt sites tcs).length := by
  intro s hs p hp
  unfold cc_refSpans at hs
  rw [List.mem_filterMap] at hs
  obtain ⟨x, _, hx⟩ := hs
  obtain ⟨id, hid⟩ := cs_siOf_parentC hx hp
  exact cc_cap_get_lt hid

theorem cc_refEvents_parentC (flt : LFilter) (sites : List CallSite) (tcs : List (Nat × SubCall)) :
    ∀ s ∈ cc_refEvents flt sites tcs, ∀ p, s.parentC = some p →
      p < (cc_refSpans flt sites tcs).length := by
  intro s hs p hp
  unfold cc_refEvents at hs
  rw [List.mem_filterMap] at hs
  obtain ⟨x, _, hx⟩ := hs
  obtain ⟨id, hid⟩ := cs_eiOf_parentC hx hp
  exact cc_cap_get_lt hid

theorem cc_cap_get_span {flt : LFilter} {sites : List CallSite} {tcs : List (Nat × SubCall)} {id c : Nat}
    (h : (cs_cap flt sites (cc_untag tcs)).get id = some c) :
    ∃ s, (cc_refSpans flt sites tcs)[c]? = some s ∧ s.id = id := by
  have h1 := cs_get_zipIdx_some h
  rw [← cc_refSpans_ids, List.getElem?_map] at h1
  cases hs : (cc_refSpans flt sites tcs)[c]? with
  | none => simp [hs] at h1
  | some s => exact ⟨s, rfl, by simpa [hs] using h1⟩

theorem cc_refSpans_uniq {flt : LFilter} {sites : List CallSite} {tcs : List (Nat × SubCall)}
    (hok : cc_CallsOK tcs) {id c : Nat} (h : (cs_cap flt sites (cc_untag tcs)).get id = some c)
    (j : Nat) (s' : cs_SI) (hj : (cc_refSpans flt sites tcs)[j]? = some s') (hid : s'.id = id) :
    j = c := by
  have h1 : (cs_capIds flt sites (cc_untag tcs))[j]? = some id := by
    rw [← cc_refSpans_ids, List.getElem?_map, hj]; simp [hid]
  have h2 := cs_get_zipIdx_of_getElem (cs_capIds_nodup (cc_callsOK_untag hok) flt sites) h1
  unfold cs_cap at h
  rw [h] at h2
  exact (Option.some.inj h2).symm

theorem cc_cap_none_not_mem {flt : LFilter} {sites : List CallSite} {tcs : List (Nat × SubCall)} {id : Nat}
    (h : (cs_cap flt sites (cc_untag tcs)).get id = none) :
    ∀ s ∈ cc_refSpans flt sites tcs, s.id ≠ id := by
  intro s hs he
  have : id ∈ cs_capIds flt sites (cc_untag tcs) := by
    rw [← cc_refSpans_ids, List.mem_map]
    exact ⟨s, hs, he⟩
  exact (cs_get_zipIdx_none _ _).mp h this

theorem cc_refSpans_id_bound {flt : LFilter} {sites : List CallSite} {tcs : List (Nat × SubCall)}
    (hok : cc_CallsOK tcs) :
    ∀ s ∈ cc_refSpans flt sites tcs, 1 ≤ s.id ∧ s.id ≤ cs_maxId (cc_untag tcs) := by
  intro s hs
  apply cs_capIds_bound (cc_callsOK_untag hok) flt sites
  rw [← cc_refSpans_ids, List.mem_map]
  exact ⟨s, hs, rfl⟩

/-! ### Calls that create nothing -/

theorem cc_refSpans_snoc_nc (flt : LFilter) (sites : List CallSite) {cs : List (Nat × SubCall)}
    {c : Nat × SubCall} (hok : cc_CallsOK cs) (hst : cc_StepOK cs c)
    (hc : ∀ id k p f, c.2 ≠ .newSpan id k p f) :
    cc_refSpans flt sites (cs ++ [c]) = cc_refSpans flt sites cs := by
  rw [cc_refSpans_snoc flt sites hok hst]
  obtain ⟨t, c⟩ := c
  cases c with
  | newSpan id k p f => exact absurd rfl (hc id k p f)
  | _ => simp [cs_siOf]

theorem cc_refEvents_snoc_nc (flt : LFilter) (sites : List CallSite) {cs : List (Nat × SubCall)}
    {c : Nat × SubCall} (hok : cc_CallsOK cs) (hst : cc_StepOK cs c)
    (hc : ∀ k p f, c.2 ≠ .event k p f) :
    cc_refEvents flt sites (cs ++ [c]) = cc_refEvents flt sites cs := by
  rw [cc_refEvents_snoc flt sites hok hst]
  obtain ⟨t, c⟩ := c
  cases c with
  | event k p f => exact absurd rfl (hc k p f)
  | _ => simp [cs_eiOf]

end TT
