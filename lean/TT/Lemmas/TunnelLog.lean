/-
  TT.Lemmas.TunnelLog — helper lemmas for C01 (part 2): shape of the call log of a well-formed
  program: span ids are issued in order, registered call sites are the pool's, field names of
  every call are distinct fields of the span's / event's call site.
-/
import TT.Lemmas.TunnelBase

namespace TT

structure GSt where
  ss : AMap Nat Nat := []     -- span id ↦ call-site index
  n : Nat := 1                -- next span id
  deriving Repr, Inhabited

def GoodF (site : CallSite) (fields : Fields) : Prop :=
  (fields.map (·.1)).Nodup ∧ ∀ f ∈ fields, f.1 ∈ site.fields

def gok (sites : List CallSite) (g : GSt) : SubCall → Prop
  | .register k site => site = sites.getD k default
  | .newSpan id k _ f => id = g.n ∧ k < sites.length ∧ GoodF (sites.getD k default) f
  | .record id f => ∃ k, g.ss.get id = some k ∧ GoodF (sites.getD k default) f
  | .event k _ f => k < sites.length ∧ GoodF (sites.getD k default) f
  | _ => True

def gstep (g : GSt) : SubCall → GSt
  | .newSpan id k _ _ => { ss := g.ss.insert id k, n := g.n + 1 }
  | _ => g

def goodCalls (sites : List CallSite) (g : GSt) : List SubCall → Prop
  | [] => True
  | c :: cs => gok sites g c ∧ goodCalls sites (gstep g c) cs

theorem tn_goodCalls_append (sites : List CallSite) (g : GSt) (xs ys : List SubCall) :
    goodCalls sites g (xs ++ ys) ↔ goodCalls sites g xs ∧ goodCalls sites (xs.foldl gstep g) ys := by
  induction xs generalizing g with
  | nil => simp [goodCalls]
  | cons x xs ih => simp [goodCalls, ih, and_assoc]

def opGood (sites : List CallSite) : POp → Bool
  | .new k _ vals => distinctIdx vals && decide (k < sites.length)
  | .evt k _ vals => distinctIdx vals && decide (k < sites.length)
  | .record _ vals => distinctIdx vals
  | _ => true

theorem tn_wf_opGood (sites : List CallSite) (ops : List POp) :
    ∀ st, wfFrom sites st ops = true → ∀ op ∈ ops, opGood sites op = true := by
  induction ops with
  | nil => intro _ _ op hop; cases hop
  | cons o ops ih =>
    intro st hwf op hop
    simp only [wfFrom] at hwf
    cases hw : wfStep sites st o with
    | none => simp [hw] at hwf
    | some st' =>
      simp only [hw] at hwf
      rw [List.mem_cons] at hop
      rcases hop with rfl | hop
      · cases op with
        | new k p vals =>
          simp only [wfStep] at hw
          split at hw
          · rename_i hc
            simp only [Bool.and_eq_true, decide_eq_true_eq] at hc
            simp [opGood, hc.1.1.2, hc.2]
          · cases hw
        | evt k p vals =>
          simp only [wfStep] at hw
          split at hw
          · rename_i hc
            simp only [Bool.and_eq_true, decide_eq_true_eq] at hc
            simp [opGood, hc.1.1.2, hc.2]
          · cases hw
        | record s vals =>
          simp only [wfStep] at hw
          split at hw
          · rename_i hc
            simp only [Bool.and_eq_true, decide_eq_true_eq] at hc
            simp [opGood, hc.1.2]
          · cases hw
        | _ => rfl
      · exact ih st' hwf op hop

/-! ### Field names -/

theorem tn_default_fields : (default : CallSite).fields = [] := rfl

theorem tn_site_nodup (sites : List CallSite) (hs : ∀ s ∈ sites, s.fields.Nodup) (k : Nat) :
    (sites.getD k default).fields.Nodup := by
  by_cases hk : k < sites.length
  · apply hs
    rw [List.getD_eq_getElem?_getD, List.getElem?_eq_getElem hk]
    exact List.getElem_mem hk
  · rw [List.getD_eq_getElem?_getD, List.getElem?_eq_none (Nat.le_of_not_lt hk)]
    simp [tn_default_fields]

theorem tn_fieldsOf_names (site : CallSite) (vals : PVals) :
    (fieldsOf site vals).map (·.1) = vals.filterMap fun ip => site.fields[ip.1]? := by
  induction vals with
  | nil => rfl
  | cons ip rest ih =>
    obtain ⟨i, p⟩ := ip
    unfold fieldsOf at ih ⊢
    cases hf : site.fields[i]? with
    | none => simp [hf, ih]
    | some name => simp [hf, ih]

theorem tn_fieldsOf_good (site : CallSite) (hn : site.fields.Nodup) (vals : PVals)
    (hd : distinctIdx vals = true) : GoodF site (fieldsOf site vals) := by
  constructor
  · rw [tn_fieldsOf_names]
    simp only [distinctIdx, decide_eq_true_eq] at hd
    induction vals with
    | nil => simp
    | cons ip rest ih =>
      obtain ⟨i, p⟩ := ip
      simp only [List.map_cons, List.nodup_cons] at hd
      cases hf : site.fields[i]? with
      | none => simp only [List.filterMap_cons, hf]; exact ih hd.2
      | some name =>
        simp only [List.filterMap_cons, hf, List.nodup_cons]
        refine ⟨?_, ih hd.2⟩
        intro hmem
        rw [List.mem_filterMap] at hmem
        obtain ⟨⟨j, q⟩, hjq, hj⟩ := hmem
        simp only at hj
        have hi : i < site.fields.length := by
          rcases Nat.lt_or_ge i site.fields.length with h | h
          · exact h
          · rw [List.getElem?_eq_none h] at hf; cases hf
        have : i = j := (List.getElem?_inj hi hn).1 (by rw [hf, hj])
        subst this
        exact hd.1 (List.mem_map.2 ⟨(i, q), hjq, rfl⟩)
  · intro f hf
    unfold fieldsOf at hf
    rw [List.mem_filterMap] at hf
    obtain ⟨⟨i, p⟩, _, hip⟩ := hf
    simp only at hip
    cases hfi : site.fields[i]? with
    | none => simp [hfi] at hip
    | some name =>
      simp only [hfi, Option.map_some, Option.some.injEq] at hip
      subst hip
      exact List.mem_of_getElem? hfi

/-! ### The invariant on the logging front end -/

structure LInv (fe : FE LogState) (g : GSt) : Prop where
  next : fe.sub.next = g.n
  hnd : ∀ s id k, fe.handleSite s = some (id, k) → g.ss.get id = some k ∧ id < g.n

theorem tn_handle_append (hs : List (Option (Nat × Nat))) (x : Option (Nat × Nat)) (s : Nat)
    (v : Nat × Nat) (h : ((hs ++ [x])[s]?).join = some v) :
    (hs[s]?).join = some v ∨ x = some v := by
  by_cases h1 : s < hs.length
  · rw [List.getElem?_append_left h1] at h
    exact Or.inl h
  · rw [List.getElem?_append_right (Nat.le_of_not_lt h1)] at h
    cases hh : s - hs.length with
    | zero => rw [hh] at h; right; simpa using h
    | succ m => rw [hh] at h; simp at h

theorem tn_linv_step (sites : List CallSite) (hs : ∀ s ∈ sites, s.fields.Nodup) (fe : FE LogState)
    (g : GSt) (op : POp) (h : LInv fe g) (hop : opGood sites op = true) :
    ∃ cs, (feStep logSub sites fe op).sub.calls = cs.reverse ++ fe.sub.calls ∧
      goodCalls sites g cs ∧ LInv (feStep logSub sites fe op) (cs.foldl gstep g) := by
  obtain ⟨⟨next, calls⟩, handles, registered⟩ := fe
  obtain ⟨ss, n⟩ := g
  obtain ⟨hn, hh⟩ := h
  simp only at hn
  subst hn
  simp only [FE.handleSite] at hh
  cases op with
  | reg k =>
    refine ⟨[.register k (sites.getD k default)], by simp [feStep, logSub], ⟨rfl, trivial⟩, ?_⟩
    exact ⟨rfl, hh⟩
  | new k p vals =>
    simp only [opGood, Bool.and_eq_true, decide_eq_true_eq] at hop
    have hgood := tn_fieldsOf_good _ (tn_site_nodup sites hs k) vals hop.1
    have hnew : ∀ (s id k' : Nat), ((handles ++ [some (next, k)])[s]?).join = some (id, k') →
        AMap.get (AMap.insert ss next k) id = some k' ∧ id < next + 1 := by
      intro s id k' hsk
      rcases tn_handle_append _ _ _ _ hsk with h1 | h1
      · obtain ⟨h2, h3⟩ := hh s id k' h1
        rw [AMap.get_insert, if_neg (by omega)]
        exact ⟨h2, by omega⟩
      · cases h1
        rw [AMap.get_insert, if_pos rfl]
        exact ⟨rfl, by omega⟩
    by_cases hk : k ∈ registered
    · refine ⟨[.newSpan next k (resolveParent (σ := LogState) ⟨⟨next, calls⟩, handles, registered⟩ p)
          (fieldsOf (sites.getD k default) vals)], ?_, ?_, ?_⟩
      · simp [feStep, ensureRegistered, hk, logSub, resolveParent, FE.handle, FE.handleSite]
      · exact ⟨⟨rfl, hop.2, hgood⟩, trivial⟩
      · refine ⟨by simp [feStep, ensureRegistered, hk, logSub, gstep], ?_⟩
        simpa [feStep, ensureRegistered, hk, logSub, gstep, FE.handleSite] using hnew
    · refine ⟨[.register k (sites.getD k default),
          .newSpan next k (resolveParent (σ := LogState) ⟨⟨next, calls⟩, handles, registered⟩ p)
          (fieldsOf (sites.getD k default) vals)], ?_, ?_, ?_⟩
      · simp [feStep, ensureRegistered, hk, logSub, resolveParent, FE.handle, FE.handleSite]
      · exact ⟨rfl, ⟨rfl, hop.2, hgood⟩, trivial⟩
      · refine ⟨by simp [feStep, ensureRegistered, hk, logSub, gstep], ?_⟩
        simpa [feStep, ensureRegistered, hk, logSub, gstep, FE.handleSite] using hnew
  | record s vals =>
    simp only [opGood] at hop
    simp only [feStep, FE.handleSite]
    cases hsv : (handles[s]?).join with
    | none => exact ⟨[], rfl, trivial, rfl, hh⟩
    | some idk =>
      obtain ⟨id, k⟩ := idk
      refine ⟨[.record id (fieldsOf (sites.getD k default) vals)], rfl, ⟨?_, trivial⟩, rfl, hh⟩
      exact ⟨k, (hh s id k hsv).1, tn_fieldsOf_good _ (tn_site_nodup sites hs k) vals hop⟩
  | fol s t =>
    simp only [feStep, FE.handle, FE.handleSite]
    cases hs : (handles[s]?).join <;> cases ht : (handles[t]?).join
    · exact ⟨[], rfl, trivial, rfl, hh⟩
    · exact ⟨[], rfl, trivial, rfl, hh⟩
    · exact ⟨[], rfl, trivial, rfl, hh⟩
    · exact ⟨[.follows _ _], rfl, ⟨trivial, trivial⟩, rfl, hh⟩
  | ent s =>
    simp only [feStep, FE.handle, FE.handleSite]
    cases hs : (handles[s]?).join
    · exact ⟨[], rfl, trivial, rfl, hh⟩
    · exact ⟨[.enter _], rfl, ⟨trivial, trivial⟩, rfl, hh⟩
  | ext s =>
    simp only [feStep, FE.handle, FE.handleSite]
    cases hs : (handles[s]?).join
    · exact ⟨[], rfl, trivial, rfl, hh⟩
    · exact ⟨[.exit _], rfl, ⟨trivial, trivial⟩, rfl, hh⟩
  | drp s =>
    simp only [feStep, FE.handle, FE.handleSite]
    cases hs : (handles[s]?).join
    · exact ⟨[], rfl, trivial, rfl, hh⟩
    · exact ⟨[.tryClose _], rfl, ⟨trivial, trivial⟩, rfl, hh⟩
  | cln s =>
    simp only [feStep, FE.handleSite]
    cases hsv : (handles[s]?).join with
    | none =>
      refine ⟨[], rfl, trivial, rfl, ?_⟩
      intro s' id k' hsk
      rcases tn_handle_append _ _ _ _ hsk with h1 | h1
      · exact hh s' id k' h1
      · cases h1
    | some idk =>
      obtain ⟨id, k⟩ := idk
      refine ⟨[.clone id], rfl, ⟨trivial, trivial⟩, rfl, ?_⟩
      intro s' id' k' hsk
      rcases tn_handle_append _ _ _ _ hsk with h1 | h1
      · exact hh s' id' k' h1
      · cases h1
        exact hh s id k hsv
  | evt k p vals =>
    simp only [opGood, Bool.and_eq_true, decide_eq_true_eq] at hop
    have hgood := tn_fieldsOf_good _ (tn_site_nodup sites hs k) vals hop.1
    by_cases hk : k ∈ registered
    · refine ⟨[.event k (resolveParent (σ := LogState) ⟨⟨next, calls⟩, handles, registered⟩ p)
          (fieldsOf (sites.getD k default) vals)], ?_, ?_, ?_⟩
      · simp [feStep, ensureRegistered, hk, logSub, resolveParent, FE.handle, FE.handleSite]
      · exact ⟨⟨hop.2, hgood⟩, trivial⟩
      · refine ⟨by simp [feStep, ensureRegistered, hk, logSub, gstep], ?_⟩
        simpa [feStep, ensureRegistered, hk, logSub, gstep, FE.handleSite] using hh
    · refine ⟨[.register k (sites.getD k default),
          .event k (resolveParent (σ := LogState) ⟨⟨next, calls⟩, handles, registered⟩ p)
          (fieldsOf (sites.getD k default) vals)], ?_, ?_, ?_⟩
      · simp [feStep, ensureRegistered, hk, logSub, resolveParent, FE.handle, FE.handleSite]
      · exact ⟨rfl, ⟨hop.2, hgood⟩, trivial⟩
      · refine ⟨by simp [feStep, ensureRegistered, hk, logSub, gstep], ?_⟩
        simpa [feStep, ensureRegistered, hk, logSub, gstep, FE.handleSite] using hh

theorem tn_linv_run (sites : List CallSite) (hs : ∀ s ∈ sites, s.fields.Nodup) (ops : List POp) :
    ∀ (fe : FE LogState) (g : GSt), LInv fe g → (∀ op ∈ ops, opGood sites op = true) →
      ∃ cs, (runProg logSub sites fe ops).sub.calls = cs.reverse ++ fe.sub.calls ∧
        goodCalls sites g cs := by
  induction ops with
  | nil => intro fe g _ _; exact ⟨[], rfl, trivial⟩
  | cons op ops ih =>
    intro fe g h hop
    obtain ⟨cs1, hc1, hg1, h1⟩ := tn_linv_step sites hs fe g op h (hop op (List.mem_cons_self ..))
    obtain ⟨cs2, hc2, hg2⟩ := ih _ _ h1 (fun o ho => hop o (List.mem_cons_of_mem _ ho))
    refine ⟨cs1 ++ cs2, ?_, (tn_goodCalls_append sites g cs1 cs2).2 ⟨hg1, hg2⟩⟩
    simp only [runProg, List.foldl_cons] at hc2 ⊢
    rw [hc2, hc1]
    simp

/-- The call log of a well-formed program is good. -/
theorem tn_callLog_good (sites : List CallSite) (hs : ∀ s ∈ sites, s.fields.Nodup) (ops : List POp)
    (hwf : wfProg sites ops = true) : goodCalls sites {} (callLog sites ops) := by
  obtain ⟨cs, hc, hg⟩ := tn_linv_run sites hs ops { sub := ({} : LogState) } {}
    ⟨rfl, fun s id k h => by simp [FE.handleSite] at h⟩ (tn_wf_opGood sites ops {} hwf)
  have : callLog sites ops = cs := by
    unfold callLog
    rw [hc]; simp
  rw [this]; exact hg

end TT
