/-
  Helper lemmas for C16, part C: the front end. `live` is the liveness of the program's handles
  (the `live` component of the well-formedness state); the invariant counts, for every registry
  id, the live handles that carry it.
-/
import TT.Lemmas.CapRegB

namespace TT

/-- Number of live handles carrying span id `x`. -/
def cr_hcount : List Bool → List (Option (Nat × Nat)) → Nat → Nat
  | b :: bs, h :: hs, x => (if b = true ∧ h.map (·.1) = some x then 1 else 0) + cr_hcount bs hs x
  | _, _, _ => 0

theorem cr_hcount_append (live : List Bool) (handles : List (Option (Nat × Nat))) (b : Bool)
    (h : Option (Nat × Nat)) (x : Nat) (hlen : live.length = handles.length) :
    cr_hcount (live ++ [b]) (handles ++ [h]) x =
      cr_hcount live handles x + (if b = true ∧ h.map (·.1) = some x then 1 else 0) := by
  induction live generalizing handles with
  | nil =>
    cases handles with
    | nil => simp [cr_hcount]
    | cons _ _ => simp at hlen
  | cons b' bs ih =>
    cases handles with
    | nil => simp at hlen
    | cons h' hs =>
      simp only [List.length_cons, Nat.add_right_cancel_iff] at hlen
      simp only [List.cons_append, cr_hcount, ih hs hlen]
      omega

theorem cr_hcount_set (live : List Bool) (handles : List (Option (Nat × Nat))) (s x : Nat)
    (hl : live.getD s false = true) (hlen : live.length = handles.length) :
    cr_hcount (live.set s false) handles x +
      (if ((handles[s]?).join).map (·.1) = some x then 1 else 0) = cr_hcount live handles x := by
  induction live generalizing handles s with
  | nil => simp at hl
  | cons b bs ih =>
    cases handles with
    | nil => simp at hlen
    | cons h hs =>
      simp only [List.length_cons, Nat.add_right_cancel_iff] at hlen
      cases s with
      | zero =>
        simp at hl
        subst hl
        simp only [List.set_cons_zero, cr_hcount, List.getElem?_cons_zero, Option.join_some]
        by_cases hx : h.map (·.1) = some x <;> simp [hx] <;> omega
      | succ s' =>
        have hl' : bs.getD s' false = true := by simpa using hl
        have := ih hs s' hl' hlen
        simp only [List.set_cons_succ, cr_hcount, List.getElem?_cons_succ]
        omega

structure CrFInv (live : List Bool) (fe : FE CapWorld) : Prop where
  len : live.length = fe.handles.length
  inv : CrInv (cr_hcount live fe.handles) fe.sub

theorem cr_live_pos {live : List Bool} {fe : FE CapWorld} (h : CrFInv live fe) {s id : Nat}
    (hl : live.getD s false = true) (hh : fe.handle s = some id) :
    0 < cr_hcount live fe.handles id := by
  have := cr_hcount_set live fe.handles s id hl h.len
  have hh' : ((fe.handles[s]?).join).map (·.1) = some id := hh
  rw [if_pos hh'] at this
  omega

theorem cr_handle_of_site {fe : FE CapWorld} {s id k : Nat} (h : fe.handleSite s = some (id, k)) :
    fe.handle s = some id := by
  simp [FE.handle, h]

theorem cr_ensure_sub (sites : List CallSite) (fe : FE CapWorld) (k : Nat) :
    (ensureRegistered (capSub 0) sites fe k).sub = fe.sub := by
  unfold ensureRegistered; split <;> rfl

theorem cr_ensure_handles (sites : List CallSite) (fe : FE CapWorld) (k : Nat) :
    (ensureRegistered (capSub 0) sites fe k).handles = fe.handles := by
  unfold ensureRegistered; split <;> rfl

theorem cr_ensure_finv {live : List Bool} {fe : FE CapWorld} (sites : List CallSite) (k : Nat)
    (h : CrFInv live fe) : CrFInv live (ensureRegistered (capSub 0) sites fe k) := by
  refine ⟨by rw [cr_ensure_handles]; exact h.len, ?_⟩
  rw [cr_ensure_handles, cr_ensure_sub]; exact h.inv

theorem cr_resolve_pos {live : List Bool} {fe : FE CapWorld} (h : CrFInv live fe) (p : PParent)
    (hp : ∀ s, p = .handle s → live.getD s false = true) :
    ∀ pid, resolveParent fe p = .explicit pid → 0 < cr_hcount live fe.handles pid := by
  intro pid hpid
  cases p with
  | ctx => simp [resolveParent] at hpid
  | root => simp [resolveParent] at hpid
  | handle s =>
    simp only [resolveParent] at hpid
    cases hh : fe.handle s with
    | none => simp [hh] at hpid
    | some id =>
      simp only [hh, SParent.explicit.injEq] at hpid
      subst hpid
      exact cr_live_pos h (hp s rfl) hh

/-! ### One lemma per program operation -/

theorem cr_fe_reg {live : List Bool} {fe : FE CapWorld} (sites : List CallSite) (k : Nat)
    (h : CrFInv live fe) : CrFInv live (feStep (capSub 0) sites fe (.reg k)) :=
  ⟨h.len, h.inv⟩

theorem cr_feStep_new (sites : List CallSite) (fe : FE CapWorld) (k : Nat) (p : PParent)
    (vals : PVals) :
    feStep (capSub 0) sites fe (.new k p vals) =
      let fe1 := ensureRegistered (capSub 0) sites fe k
      let site := sites.getD k default
      if (capSub 0).enabled fe1.sub site then
        { fe1 with
          sub := ((capSub 0).newSpan fe1.sub k site (resolveParent fe1 p) (fieldsOf site vals)).1,
          handles := fe1.handles ++
            [some (((capSub 0).newSpan fe1.sub k site (resolveParent fe1 p) (fieldsOf site vals)).2, k)] }
      else { fe1 with handles := fe1.handles ++ [none] } := rfl

theorem cr_fe_new {live : List Bool} {fe : FE CapWorld} (sites : List CallSite) (k : Nat)
    (p : PParent) (vals : PVals) (h : CrFInv live fe)
    (hp : ∀ s, p = .handle s → live.getD s false = true) :
    CrFInv (live ++ [true]) (feStep (capSub 0) sites fe (.new k p vals)) := by
  rw [cr_feStep_new]
  have h1 := cr_ensure_finv sites k h
  generalize ensureRegistered (capSub 0) sites fe k = fe1 at h1
  simp only
  split
  · obtain ⟨hid, hinv⟩ := cr_op_newSpan k (sites.getD k default) (resolveParent fe1 p)
      (fieldsOf (sites.getD k default) vals) h1.inv (cr_resolve_pos h1 p hp)
    refine ⟨by simp [h1.len], ?_⟩
    refine cr_inv_congr hinv ?_
    intro x
    show cr_hcount (live ++ [true]) (fe1.handles ++ [some (_, k)]) x = _
    rw [cr_hcount_append _ _ _ _ _ h1.len, hid]
    by_cases hx : x = fe1.sub.reg.next
    · subst hx; simp
    · have : ¬ fe1.sub.reg.next = x := fun h' => hx h'.symm
      simp [hx, this]
  · refine ⟨by simp [h1.len], ?_⟩
    refine cr_inv_congr h1.inv ?_
    intro x
    show cr_hcount (live ++ [true]) (fe1.handles ++ [none]) x = _
    rw [cr_hcount_append _ _ _ _ _ h1.len]
    simp

theorem cr_fe_record {live : List Bool} {fe : FE CapWorld} (sites : List CallSite) (s : Nat)
    (vals : PVals) (h : CrFInv live fe) (hl : live.getD s false = true) :
    CrFInv live (feStep (capSub 0) sites fe (.record s vals)) := by
  simp only [feStep]
  cases hs : fe.handleSite s with
  | none => exact h
  | some idk =>
    obtain ⟨id, k⟩ := idk
    exact ⟨h.len, cr_op_record _ h.inv (cr_live_pos h hl (cr_handle_of_site hs))⟩

theorem cr_fe_fol {live : List Bool} {fe : FE CapWorld} (sites : List CallSite) (a b : Nat)
    (h : CrFInv live fe) (hl : live.getD a false = true) :
    CrFInv live (feStep (capSub 0) sites fe (.fol a b)) := by
  simp only [feStep]
  cases ha : fe.handle a with
  | none => exact h
  | some ida =>
    cases hb : fe.handle b with
    | none => exact h
    | some idb => exact ⟨h.len, cr_op_follows _ h.inv (cr_live_pos h hl ha)⟩

theorem cr_fe_ent {live : List Bool} {fe : FE CapWorld} (sites : List CallSite) (s : Nat)
    (h : CrFInv live fe) (hl : live.getD s false = true) :
    CrFInv live (feStep (capSub 0) sites fe (.ent s)) := by
  simp only [feStep]
  cases hs : fe.handle s with
  | none => exact h
  | some id => exact ⟨h.len, cr_op_enter h.inv (cr_live_pos h hl hs)⟩

theorem cr_fe_ext {live : List Bool} {fe : FE CapWorld} (sites : List CallSite) (s : Nat)
    (h : CrFInv live fe) (hl : live.getD s false = true) :
    CrFInv live (feStep (capSub 0) sites fe (.ext s)) := by
  simp only [feStep]
  cases hs : fe.handle s with
  | none => exact h
  | some id => exact ⟨h.len, cr_op_exit h.inv (cr_live_pos h hl hs)⟩

theorem cr_fe_cln {live : List Bool} {fe : FE CapWorld} (sites : List CallSite) (s : Nat)
    (h : CrFInv live fe) (hl : live.getD s false = true) :
    CrFInv (live ++ [true]) (feStep (capSub 0) sites fe (.cln s)) := by
  simp only [feStep]
  cases hs : fe.handleSite s with
  | none =>
    refine ⟨by simp [h.len], ?_⟩
    refine cr_inv_congr h.inv ?_
    intro x
    show cr_hcount (live ++ [true]) (fe.handles ++ [none]) x = _
    rw [cr_hcount_append _ _ _ _ _ h.len]
    simp
  | some idk =>
    obtain ⟨id, k⟩ := idk
    refine ⟨by simp [h.len], ?_⟩
    refine cr_inv_congr (cr_op_clone h.inv (cr_live_pos h hl (cr_handle_of_site hs))) ?_
    intro x
    show cr_hcount (live ++ [true]) (fe.handles ++ [some (id, k)]) x = _
    rw [cr_hcount_append _ _ _ _ _ h.len]
    by_cases hx : x = id
    · subst hx; simp
    · have : ¬ id = x := fun h' => hx h'.symm
      simp [hx, this]

theorem cr_fe_drp {live : List Bool} {fe : FE CapWorld} (sites : List CallSite) (s : Nat)
    (h : CrFInv live fe) (hl : live.getD s false = true) :
    CrFInv (live.set s false) (feStep (capSub 0) sites fe (.drp s)) := by
  simp only [feStep]
  have hset := fun x => cr_hcount_set live fe.handles s x hl h.len
  cases hs : fe.handle s with
  | none =>
    refine ⟨by simp [h.len], ?_⟩
    refine cr_inv_congr h.inv ?_
    intro x
    have := hset x
    have hh : ((fe.handles[s]?).join).map (·.1) = none := hs
    rw [hh] at this
    simpa using this
  | some id =>
    refine ⟨by simp [h.len], ?_⟩
    apply cr_op_tryClose
    refine cr_inv_congr h.inv ?_
    intro x
    have := hset x
    have hh : ((fe.handles[s]?).join).map (·.1) = some id := hs
    rw [hh] at this
    rw [← this]
    by_cases hx : x = id
    · subst hx; simp
    · have : ¬ id = x := fun h' => hx h'.symm
      simp [hx, this]

theorem cr_feStep_evt (sites : List CallSite) (fe : FE CapWorld) (k : Nat) (p : PParent)
    (vals : PVals) :
    feStep (capSub 0) sites fe (.evt k p vals) =
      let fe1 := ensureRegistered (capSub 0) sites fe k
      let site := sites.getD k default
      if (capSub 0).enabled fe1.sub site then
        { fe1 with sub := (capSub 0).event fe1.sub k site (resolveParent fe1 p) (fieldsOf site vals) }
      else fe1 := rfl

theorem cr_fe_evt {live : List Bool} {fe : FE CapWorld} (sites : List CallSite) (k : Nat)
    (p : PParent) (vals : PVals) (h : CrFInv live fe) :
    CrFInv live (feStep (capSub 0) sites fe (.evt k p vals)) := by
  rw [cr_feStep_evt]
  have h1 := cr_ensure_finv sites k h
  generalize ensureRegistered (capSub 0) sites fe k = fe1 at h1
  simp only
  split
  · exact ⟨h1.len, cr_op_event _ _ _ _ h1.inv⟩
  · exact h1

theorem cr_finv_init (filters : List LFilter) (global : Option Nat) :
    CrFInv [] { sub := CapWorld.init filters global } := by
  refine ⟨rfl, rfl, by simp [CapWorld.init], ⟨?_, ?_⟩, ?_⟩
  · intro id s hs; simp [CapWorld.init, AMap.get] at hs
  · intro x
    simp [cr_hcount, CapWorld.init, Reg.stack, AMap.get, cr_sc, cr_cc, cr_parentIs]
  · intro id s i c hs; simp [CapWorld.init, AMap.get] at hs

end TT
