/-
  TT.Lemmas.RecvSim — simulation between the receiver model and the reference bookkeeping
  (`Spec`) over arbitrary histories. Main results: `recv_state_is_spec`, `recv_verdict`.
-/
import TT.Lemmas.RecvDefs
import TT.Lemmas.RecvSimStep

namespace TT



/-! ### Invariant over receiver chains -/

/-- What was persisted last agrees with the bookkeeping at the last commit. -/
structure InvP (pm : PersistedMeta) (ps : PersistedSpans) (sp : Spec) : Prop where
  spansEq : ∀ k, AMap.get ps k = AMap.get sp.alive k
  spansND : (AMap.keys ps).Nodup
  metaEq : ∀ k, AMap.get pm k = AMap.get sp.known k
  metaND : (AMap.keys pm).Nodup
  wf : SpecWF sp

def Inv (s : Sys) (ss : SpecSys) : Prop :=
  InvCur s.σ ss.cur ∧ InvP s.lastPm s.lastPs ss.persisted

theorem MtOK.nil (arena : List CallSite) : MtOK [] arena (fun _ => none) :=
  ⟨fun _ => rfl, List.nodup_nil, fun k i h => by simp [AMap.get_nil] at h⟩

theorem restore_inv {pm : PersistedMeta} {ps : PersistedSpans} {sp : Spec} (hp : InvP pm ps sp)
    (loc : AMap Nat Nat) (w : World)
    (hl : ∀ k h, AMap.get loc k = some h → AMap.contains sp.alive k = true) :
    InvCur (restore pm ps loc w) sp := by
  have key := restore_fold pm { r := { spans := ps, loc := loc }, w := w } (fun _ => none)
    (MtOK.nil w.arena) hp.metaND
  unfold restore InvCur
  refine ⟨?_, ?_, key.1.congr ?_, hp.wf, ?_⟩
  · rw [key.2.1]; exact hp.spansEq
  · rw [key.2.1]; exact hp.spansND
  · intro k
    rw [← hp.metaEq k]
    cases AMap.get pm k <;> rfl
  · rw [key.2.2]; exact hl

theorem InvCur.toInvP {σ : Sigma} {sp : Spec} (h : InvCur σ sp) :
    InvP (persistMeta σ) σ.r.spans sp := by
  refine ⟨h.spansEq, h.spansND, ?_, ?_, h.wf⟩
  · intro k
    unfold persistMeta
    rw [AMap.get_mapVal]
    exact h.mtok.get k
  · unfold persistMeta
    rw [AMap.keys_mapVal]
    exact h.mtok.nd

theorem InvP.empty : InvP [] [] {} :=
  ⟨fun _ => rfl, List.nodup_nil, fun _ => rfl, List.nodup_nil, SpecWF.empty⟩

theorem Inv.init (w₀ : World) : Inv (Sys.init w₀) {} := by
  refine ⟨?_, InvP.empty⟩
  exact ⟨fun _ => rfl, List.nodup_nil, MtOK.nil _, SpecWF.empty,
    fun k h hg => by simp [Sys.init, AMap.get_nil] at hg⟩

/-- Proviso of one operation. -/
def opOK (ss : SpecSys) (op : HOp) : Bool :=
  match op with
  | .ev (.newSpan id _ _ _) => !ss.cur.alive.contains id
  | _ => true

theorem opOK_ev {ss : SpecSys} {e : Event} (h : opOK ss (.ev e) = true) :
    evOK ss.cur e = true := by
  cases e <;> first | rfl | exact h

theorem Inv.verdict {s : Sys} {ss : SpecSys} (h : Inv s ss) (e : Event)
    (hno : opOK ss (.ev e) = true) :
    (tryReceive s.σ e).verdict = some (ss.cur.verdict e) := by
  rcases step_ev h.1 e (opOK_ev hno) with ⟨hi, σ', ht, _⟩ | ⟨r, rest, hi, ht⟩
  · rw [ht]; simp [Res.verdict, Spec.verdict, hi]
  · rw [ht]; simp [Res.verdict, Spec.verdict, hi]

theorem Inv.step {s : Sys} {ss : SpecSys} (h : Inv s ss) (op : HOp)
    (hno : opOK ss op = true) : Inv (s.step op) (ss.step op) := by
  cases op with
  | ev e =>
    rcases step_ev h.1 e (opOK_ev hno) with ⟨hi, σ', ht, hinv⟩ | ⟨r, rest, hi, ht⟩
    · simp only [Sys.step, SpecSys.step, ht, hi, List.isEmpty_nil, if_true, Res.state]
      exact ⟨hinv, h.2⟩
    · simp only [Sys.step, SpecSys.step, ht, hi, List.isEmpty_cons, Res.state]
      exact h
  | persist mode =>
    have hp := h.1.toInvP
    cases mode
    · exact ⟨restore_inv hp _ _ h.1.locSub, hp⟩
    · exact ⟨restore_inv hp _ _ (fun k hh hg => by simp [AMap.get_nil] at hg), hp⟩
    · exact ⟨restore_inv hp _ _ (fun k hh hg => by simp [AMap.get_nil] at hg), hp⟩
  | discard =>
    exact ⟨restore_inv h.2 _ _ (fun k hh hg => by simp [AMap.get_nil] at hg), h.2⟩

theorem noReannounceFrom_cons (ss : SpecSys) (op : HOp) (ops : List HOp) :
    noReannounceFrom ss (op :: ops) = (opOK ss op && noReannounceFrom (ss.step op) ops) := by
  cases op with
  | ev e => cases e <;> rfl
  | persist m => rfl
  | discard => rfl

theorem Inv.run {s : Sys} {ss : SpecSys} (h : Inv s ss) (ops : List HOp)
    (hno : noReannounceFrom ss ops = true) : Inv (runHistory s ops) (runSpec ss ops) := by
  induction ops generalizing s ss with
  | nil => exact h
  | cons op ops ih =>
    rw [noReannounceFrom_cons, Bool.and_eq_true] at hno
    exact ih (h.step op hno.1) hno.2

theorem noReannounceFrom_append (ss : SpecSys) (ops : List HOp) (op : HOp) :
    noReannounceFrom ss (ops ++ [op])
      = (noReannounceFrom ss ops && opOK (runSpec ss ops) op) := by
  induction ops generalizing ss with
  | nil => simp [noReannounceFrom_cons, noReannounceFrom, runSpec]
  | cons o ops ih =>
    rw [List.cons_append, noReannounceFrom_cons, noReannounceFrom_cons, ih, Bool.and_assoc]
    rfl

theorem recv_state_is_spec (w₀ : World) (ops : List HOp) (hno : noReannounceFrom {} ops = true) :
    let s := runHistory (Sys.init w₀) ops
    let ss := runSpec {} ops
    lookupEq s.σ.r.spans ss.cur.alive ∧ (s.σ.r.spans.map (·.1)).Nodup ∧
    lookupEq (persistMeta s.σ) ss.cur.known ∧ ((persistMeta s.σ).map (·.1)).Nodup ∧
    lookupEq s.lastPs ss.persisted.alive ∧ lookupEq s.lastPm ss.persisted.known := by
  have h := (Inv.init w₀).run ops hno
  have hp := h.1.toInvP
  exact ⟨h.1.spansEq, h.1.spansND, hp.metaEq, hp.metaND, h.2.spansEq, h.2.metaEq⟩

theorem recv_verdict (w₀ : World) (ops : List HOp) (e : Event)
    (hno : noReannounceFrom {} (ops ++ [.ev e]) = true) :
    (tryReceive (runHistory (Sys.init w₀) ops).σ e).verdict
      = some ((runSpec {} ops).cur.verdict e) := by
  rw [noReannounceFrom_append, Bool.and_eq_true] at hno
  exact ((Inv.init w₀).run ops hno.1).verdict e hno.2

end TT
