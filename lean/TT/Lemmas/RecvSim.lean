/-
  TT.Lemmas.RecvSim — simulation between the receiver model and the reference bookkeeping
  (`Spec`) over arbitrary histories. Main results: `recv_state_is_spec`, `recv_verdict`.
-/
import TT.Model.History

namespace TT

def Sys.init (w₀ : World) : Sys := { σ := { r := {}, w := w₀ } }

def lookupEq {α : Type} (a b : AMap Nat α) : Prop := ∀ k, a.get k = b.get k

/-- What the receiver reports for an event, as a function of the bookkeeping alone. -/
def Spec.verdict (sp : Spec) (e : Event) : Option RErr := (sp.invalid e).head?

def Res.verdict : Res → Option (Option RErr)
  | .ok _ => some none
  | .err r _ => some (some r)
  | .panic _ _ => none

theorem recv_state_is_spec (w₀ : World) (ops : List HOp) (hno : noReannounceFrom {} ops = true) :
    let s := runHistory (Sys.init w₀) ops
    let ss := runSpec {} ops
    lookupEq s.σ.r.spans ss.cur.alive ∧ (s.σ.r.spans.map (·.1)).Nodup ∧
    lookupEq (persistMeta s.σ) ss.cur.known ∧ ((persistMeta s.σ).map (·.1)).Nodup ∧
    lookupEq s.lastPs ss.persisted.alive ∧ lookupEq s.lastPm ss.persisted.known := by
  sorry

theorem recv_verdict (w₀ : World) (ops : List HOp) (e : Event)
    (hno : noReannounceFrom {} (ops ++ [.ev e]) = true) :
    (tryReceive (runHistory (Sys.init w₀) ops).σ e).verdict
      = some ((runSpec {} ops).cur.verdict e) := by
  sorry

end TT
