/-
  TT.Lemmas.RecvSimInv — the simulation invariant between receiver state and `Spec`, and the
  lemmas about its preservation by the elementary state updates.
-/
import TT.Lemmas.RecvSimAMap

namespace TT

/-! ### Arena -/

theorem indexOf?_some (d : CallSite) (l : List CallSite) (i : Nat) (h : indexOf? d l = some i) :
    i < l.length ∧ l.getD i default = d := by
  induction l generalizing i with
  | nil => simp [indexOf?] at h
  | cons x xs ih =>
    simp only [indexOf?] at h
    by_cases hx : x = d
    · rw [if_pos hx] at h
      cases h
      simp [hx]
    · rw [if_neg hx] at h
      cases hi : indexOf? d xs with
      | none => simp [hi] at h
      | some j =>
        simp [hi] at h
        subst h
        have := ih j hi
        rw [List.getD_cons_succ, List.length_cons]
        exact ⟨Nat.succ_lt_succ this.1, this.2⟩

theorem arenaAlloc_lt (a : List CallSite) (d : CallSite) :
    (arenaAlloc a d).2.1 < (arenaAlloc a d).1.length := by
  unfold arenaAlloc
  cases h : indexOf? d a with
  | none => simp
  | some i => simpa using (indexOf?_some d a i h).1

theorem arenaAlloc_getD (a : List CallSite) (d : CallSite) :
    (arenaAlloc a d).1.getD (arenaAlloc a d).2.1 default = d := by
  unfold arenaAlloc
  cases h : indexOf? d a with
  | none => simp
  | some i => simpa using (indexOf?_some d a i h).2

theorem arenaAlloc_old (a : List CallSite) (d : CallSite) (j : Nat) (hj : j < a.length) :
    (arenaAlloc a d).1.getD j default = a.getD j default := by
  unfold arenaAlloc
  cases h : indexOf? d a with
  | none => simp [List.getD_eq_getElem?_getD, List.getElem?_append_left hj]
  | some i => simp

theorem arenaAlloc_len (a : List CallSite) (d : CallSite) :
    a.length ≤ (arenaAlloc a d).1.length := by
  unfold arenaAlloc
  cases h : indexOf? d a with
  | none => simp
  | some i => simp

/-! ### Metadata table vs. known call sites -/

structure MtOK (mt : AMap Nat Nat) (arena : List CallSite) (kn : Nat → Option CallSite) : Prop where
  get : ∀ k, (AMap.get mt k).map (fun i => arena.getD i default) = kn k
  nd : (AMap.keys mt).Nodup
  lt : ∀ k i, AMap.get mt k = some i → i < arena.length

theorem MtOK.congr {mt arena kn kn'} (h : MtOK mt arena kn) (e : ∀ k, kn k = kn' k) :
    MtOK mt arena kn' :=
  ⟨fun k => (h.get k).trans (e k), h.nd, h.lt⟩

theorem MtOK.alloc {mt arena kn} (h : MtOK mt arena kn) (id : Nat) (d : CallSite) :
    MtOK (AMap.insert mt id (arenaAlloc arena d).2.1) (arenaAlloc arena d).1
      (fun k => if k = id then some d else kn k) := by
  refine ⟨?_, AMap.nodup_keys_insert _ _ _ h.nd, ?_⟩
  · intro k
    rw [AMap.get_insert]
    by_cases hk : k = id
    · simp only [hk, if_true, Option.map_some, arenaAlloc_getD]
    · simp only [hk, if_false]
      rw [← h.get k]
      cases hg : AMap.get mt k with
      | none => rfl
      | some i => simp only [Option.map_some, arenaAlloc_old arena d i (h.lt k i hg)]
  · intro k i
    rw [AMap.get_insert]
    by_cases hk : k = id
    · simp only [hk, if_true]
      intro e
      cases e
      exact arenaAlloc_lt arena d
    · simp only [hk, if_false]
      intro e
      exact Nat.lt_of_lt_of_le (h.lt k i e) (arenaAlloc_len arena d)

theorem onNewCallSite_r (σ : Sigma) (id : Nat) (d : CallSite) :
    (onNewCallSite σ id d).r
      = { σ.r with mt := AMap.insert σ.r.mt id (arenaAlloc σ.w.arena d).2.1 } := rfl

theorem onNewCallSite_arena (σ : Sigma) (id : Nat) (d : CallSite) :
    (onNewCallSite σ id d).w.arena = (arenaAlloc σ.w.arena d).1 := rfl

theorem restore_fold (pm : PersistedMeta) (σ₀ : Sigma) (kn : Nat → Option CallSite)
    (h : MtOK σ₀.r.mt σ₀.w.arena kn) (hnd : (AMap.keys pm).Nodup) :
    let σ' := pm.foldl (fun σ kv => onNewCallSite σ kv.1 kv.2) σ₀
    MtOK σ'.r.mt σ'.w.arena
        (fun k => match AMap.get pm k with | some d => some d | none => kn k)
      ∧ σ'.r.spans = σ₀.r.spans ∧ σ'.r.loc = σ₀.r.loc := by
  induction pm generalizing σ₀ kn with
  | nil =>
    refine ⟨h.congr ?_, rfl, rfl⟩
    intro k
    simp [AMap.get_nil]
  | cons p rest ih =>
    obtain ⟨a, b⟩ := p
    rw [AMap.keys_cons, List.nodup_cons] at hnd
    have h1 : MtOK (onNewCallSite σ₀ a b).r.mt (onNewCallSite σ₀ a b).w.arena
        (fun k => if k = a then some b else kn k) := by
      rw [onNewCallSite_r, onNewCallSite_arena]
      exact h.alloc a b
    have := ih (onNewCallSite σ₀ a b) _ h1 hnd.2
    simp only [List.foldl_cons]
    refine ⟨this.1.congr ?_, this.2.1.trans ?_, this.2.2.trans ?_⟩
    · intro k
      rw [AMap.get_cons]
      by_cases hk : a = k
      · subst hk
        rw [AMap.get_none_of_not_mem_keys _ _ hnd.1]
        simp
      · have hk' : ¬ k = a := fun e => hk e.symm
        simp [hk, hk']
    · rw [onNewCallSite_r]
    · rw [onNewCallSite_r]

/-! ### Well-formedness of the bookkeeping -/

structure SpecWF (sp : Spec) : Prop where
  known : ∀ id d, AMap.get sp.alive id = some d → AMap.contains sp.known d.mt = true
  rc : ∀ id d, AMap.get sp.alive id = some d → 1 ≤ d.refCount

theorem SpecWF.empty : SpecWF {} :=
  ⟨fun id d h => by simp [AMap.get_nil] at h, fun id d h => by simp [AMap.get_nil] at h⟩

theorem SpecWF.insert_known {sp : Spec} (h : SpecWF sp) (id : Nat) (c : CallSite) :
    SpecWF { sp with known := AMap.insert sp.known id c } := by
  refine ⟨?_, h.rc⟩
  intro k d hk
  have := h.known k d hk
  simp only [AMap.contains_insert, this, Bool.or_true]

theorem SpecWF.insert_alive {sp : Spec} (h : SpecWF sp) (id : Nat) (d : SpanData)
    (hk : AMap.contains sp.known d.mt = true) (hr : 1 ≤ d.refCount) :
    SpecWF { sp with alive := AMap.insert sp.alive id d } := by
  refine ⟨?_, ?_⟩
  · intro k d' hg
    simp only [AMap.get_insert] at hg
    by_cases e : k = id
    · simp only [e, if_true, Option.some.injEq] at hg
      subst hg
      exact hk
    · simp only [e, if_false] at hg
      exact h.known k d' hg
  · intro k d' hg
    simp only [AMap.get_insert] at hg
    by_cases e : k = id
    · simp only [e, if_true, Option.some.injEq] at hg
      subst hg
      exact hr
    · simp only [e, if_false] at hg
      exact h.rc k d' hg

theorem SpecWF.erase_alive {sp : Spec} (h : SpecWF sp) (id : Nat) :
    SpecWF { sp with alive := AMap.erase sp.alive id } := by
  refine ⟨?_, ?_⟩
  · intro k d' hg
    simp only [AMap.get_erase] at hg
    by_cases e : k = id
    · simp [e] at hg
    · simp only [e, if_false] at hg
      exact h.known k d' hg
  · intro k d' hg
    simp only [AMap.get_erase] at hg
    by_cases e : k = id
    · simp [e] at hg
    · simp only [e, if_false] at hg
      exact h.rc k d' hg

/-! ### The invariant on the live receiver -/

structure InvC (mt : AMap Nat Nat) (spans : AMap Nat SpanData) (loc : AMap Nat Nat)
    (arena : List CallSite) (sp : Spec) : Prop where
  spansEq : ∀ k, AMap.get spans k = AMap.get sp.alive k
  spansND : (AMap.keys spans).Nodup
  mtok : MtOK mt arena (fun k => AMap.get sp.known k)
  wf : SpecWF sp
  locSub : ∀ k h, AMap.get loc k = some h → AMap.contains sp.alive k = true

def InvCur (σ : Sigma) (sp : Spec) : Prop := InvC σ.r.mt σ.r.spans σ.r.loc σ.w.arena sp

theorem InvC.insert_span {mt spans loc arena sp} (h : InvC mt spans loc arena sp) (id : Nat)
    (d : SpanData) (hk : AMap.contains sp.known d.mt = true) (hr : 1 ≤ d.refCount) :
    InvC mt (AMap.insert spans id d) loc arena { sp with alive := AMap.insert sp.alive id d } := by
  refine ⟨?_, AMap.nodup_keys_insert _ _ _ h.spansND, h.mtok, h.wf.insert_alive id d hk hr, ?_⟩
  · intro k
    simp only [AMap.get_insert, h.spansEq k]
  · intro k hh hg
    have := h.locSub k hh hg
    simp only [AMap.contains_insert, this, Bool.or_true]

theorem InvC.insert_loc {mt spans loc arena sp} (h : InvC mt spans loc arena sp) (id hh : Nat)
    (ha : AMap.contains sp.alive id = true) :
    InvC mt spans (AMap.insert loc id hh) arena sp := by
  refine ⟨h.spansEq, h.spansND, h.mtok, h.wf, ?_⟩
  intro k h' hg
  rw [AMap.get_insert] at hg
  by_cases e : k = id
  · rw [e]; exact ha
  · simp only [e, if_false] at hg
    exact h.locSub k h' hg

theorem InvC.erase_span {mt spans loc arena sp} (h : InvC mt spans loc arena sp) (id : Nat) :
    InvC mt (AMap.erase spans id) (AMap.erase loc id) arena
      { sp with alive := AMap.erase sp.alive id } := by
  refine ⟨?_, AMap.nodup_keys_erase _ _ h.spansND, h.mtok, h.wf.erase_alive id, ?_⟩
  · intro k
    simp only [AMap.get_erase, h.spansEq k]
  · intro k h' hg
    rw [AMap.get_erase] at hg
    by_cases e : k = id
    · simp [e] at hg
    · simp only [e, if_false] at hg
      have := h.locSub k h' hg
      simp [AMap.contains_erase, e, this]

theorem InvC.newCallSite {mt spans loc arena sp} (h : InvC mt spans loc arena sp) (id : Nat)
    (d : CallSite) :
    InvC (AMap.insert mt id (arenaAlloc arena d).2.1) spans loc (arenaAlloc arena d).1
      { sp with known := AMap.insert sp.known id d } := by
  refine ⟨h.spansEq, h.spansND, (h.mtok.alloc id d).congr ?_, h.wf.insert_known id d, h.locSub⟩
  intro k
  simp only [AMap.get_insert]

theorem InvC.alive_known {mt spans loc arena sp} (h : InvC mt spans loc arena sp) (id : Nat)
    (d : SpanData) (hg : AMap.get spans id = some d) : ∃ idx, AMap.get mt d.mt = some idx := by
  rw [h.spansEq] at hg
  have := h.wf.known id d hg
  rw [AMap.contains_eq, ← h.mtok.get] at this
  cases hm : AMap.get mt d.mt with
  | none => simp [hm] at this
  | some i => exact ⟨i, rfl⟩

theorem InvC.mt_isSome {mt spans loc arena sp} (h : InvC mt spans loc arena sp) (id : Nat) :
    (AMap.get mt id).isSome = AMap.contains sp.known id := by
  rw [AMap.contains_eq, ← h.mtok.get]
  cases AMap.get mt id <;> rfl

theorem InvC.spans_contains {mt spans loc arena sp} (h : InvC mt spans loc arena sp) (id : Nat) :
    AMap.contains spans id = AMap.contains sp.alive id := by
  rw [AMap.contains_eq, AMap.contains_eq, h.spansEq]

/-! ### `createLocalSpan` never panics -/

theorem chunksAux_len (n fuel : Nat) (xs : RawVals) :
    ∀ c ∈ chunksAux n fuel xs, c.length ≤ n := by
  induction fuel generalizing xs with
  | zero => intro c hc; simp [chunksAux] at hc
  | succ f ih =>
    intro c hc
    cases xs with
    | nil => simp [chunksAux] at hc
    | cons x xs' =>
      simp only [chunksAux, List.mem_cons] at hc
      rcases hc with hc | hc
      · rw [hc]; exact List.length_take_le _ _
      · exact ih _ c hc

theorem chunks_len (n : Nat) (xs : RawVals) : ∀ c ∈ chunks n xs, c.length ≤ n :=
  chunksAux_len _ _ _

theorem recordChunks_some (host : Host) (h : Nat) (cs : List RawVals)
    (hcs : ∀ c ∈ cs, c.length ≤ maxValues) : ∃ host', recordChunks host h cs = some host' := by
  induction cs generalizing host with
  | nil => exact ⟨host, rfl⟩
  | cons c cs ih =>
    have hc : c.length ≤ maxValues := hcs c (List.mem_cons_self ..)
    simp only [recordChunks, createValues, hc, if_true]
    exact ih _ (fun c' hc' => hcs c' (List.mem_cons_of_mem _ hc'))

theorem createLocalSpan_ok (r : RState) (w : World) (d : SpanData) (idx : Nat)
    (h : AMap.get r.mt d.mt = some idx) :
    ∃ w' hh, createLocalSpan r w d = .ok w' hh ∧ w'.arena = w.arena := by
  unfold createLocalSpan
  rw [h]
  have hlen : (List.take maxValues (generateFields (siteOf w idx) d.values)).length ≤ maxValues :=
    List.length_take_le _ _
  simp only [createValues, hlen, if_true, Host.newSpan]
  split
  · next hnone =>
    exfalso
    obtain ⟨host', hh⟩ := recordChunks_some _ _ _ (chunks_len maxValues _)
    rw [hh] at hnone
    cases hnone
  · exact ⟨_, _, rfl, rfl⟩

theorem createLocalSpan_err (r : RState) (w : World) (d : SpanData)
    (h : AMap.get r.mt d.mt = none) : createLocalSpan r w d = .err (.unknownMeta d.mt) := by
  unfold createLocalSpan
  rw [h]

theorem createValues_generateFields (site : CallSite) (vs : TVals) (h : ¬ vs.length > maxValues) :
    createValues (generateFields site vs) = some (generateFields site vs) := by
  have : (generateFields site vs).length ≤ maxValues := by
    unfold generateFields
    rw [List.length_map]
    exact Nat.le_trans (List.length_filter_le _ _) (Nat.le_of_not_gt h)
  simp [createValues, this]

theorem mapSpanId_eq {mt spans loc arena sp} (r : RState) (h : InvC mt spans loc arena sp)
    (hs : r.spans = spans) (hl : r.loc = loc) (id : Nat) :
    mapSpanId r id = if AMap.contains sp.alive id = true then .ok (AMap.get r.loc id)
      else .error (.unknownSpan id) := by
  unfold mapSpanId
  subst hs hl
  cases hg : AMap.get r.loc id with
  | some hh => simp [h.locSub id hh hg]
  | none =>
    simp only [h.spans_contains id]

end TT
