/-
  Helper lemmas for C16, part D: layer `i` of a stack of capture layers simulates the single
  capture layer with the same filter.
-/
import TT.Lemmas.CapRegB

namespace TT

/-! ### The simulation relation -/

/-- Same span, seen by layer `i` on the left and by the only layer on the right. -/
def CrSpanRel (i : Nat) : Option RegSpan → Option RegSpan → Prop
  | none, none => True
  | some s, some s₁ =>
    s.mt = s₁.mt ∧ s.parent = s₁.parent ∧ s.refs = s₁.refs ∧ s.ext.get i = s₁.ext.get 0
  | _, _ => False

theorem cr_spanrel_some {i : Nat} {s : RegSpan} {o₁ : Option RegSpan}
    (h : CrSpanRel i (some s) o₁) :
    ∃ s₁, o₁ = some s₁ ∧ s.mt = s₁.mt ∧ s.parent = s₁.parent ∧ s.refs = s₁.refs ∧
      s.ext.get i = s₁.ext.get 0 := by
  cases o₁ with
  | none => simp [CrSpanRel] at h
  | some s₁ => exact ⟨s₁, rfl, h⟩

theorem cr_spanrel_none {i : Nat} {o₁ : Option RegSpan} (h : CrSpanRel i none o₁) : o₁ = none := by
  cases o₁ with
  | none => rfl
  | some s₁ => simp [CrSpanRel] at h

theorem cr_spanrel_congr_left {i : Nat} {s s' : RegSpan} {o : Option RegSpan}
    (h1 : s'.mt = s.mt) (h2 : s'.parent = s.parent) (h3 : s'.refs = s.refs)
    (h4 : s'.ext.get i = s.ext.get i) (h : CrSpanRel i (some s) o) : CrSpanRel i (some s') o := by
  obtain ⟨s₁, rfl, a, b, c, d⟩ := cr_spanrel_some h
  exact ⟨h1.trans a, h2.trans b, h3.trans c, h4.trans d⟩

structure CrRegSim (i : Nat) (r r₁ : Reg) : Prop where
  next : r.next = r₁.next
  stacks : r.stacks = r₁.stacks
  spans : ∀ id, CrSpanRel i (r.spans.get id) (r₁.spans.get id)

theorem cr_regsim_stack {i : Nat} {r r₁ : Reg} (h : CrRegSim i r r₁) : r.stack 0 = r₁.stack 0 := by
  simp [Reg.stack, h.stacks]

theorem cr_regsim_insert {i : Nat} {r r₁ : Reg} (h : CrRegSim i r r₁) (id : Nat) (s s₁ : RegSpan)
    (hs : CrSpanRel i (some s) (some s₁)) :
    CrRegSim i { r with spans := r.spans.insert id s } { r₁ with spans := r₁.spans.insert id s₁ } := by
  refine ⟨h.next, h.stacks, fun x => ?_⟩
  show CrSpanRel i (AMap.get (AMap.insert r.spans id s) x) (AMap.get (AMap.insert r₁.spans id s₁) x)
  rw [sd_get_insert, sd_get_insert]
  split
  · exact hs
  · exact h.spans x

theorem cr_regsim_insert_left {i : Nat} {r v : Reg} (h : CrRegSim i r v) {id : Nat} {s s' : RegSpan}
    (hg : r.spans.get id = some s)
    (h1 : s'.mt = s.mt) (h2 : s'.parent = s.parent) (h3 : s'.refs = s.refs)
    (h4 : s'.ext.get i = s.ext.get i) :
    CrRegSim i { r with spans := r.spans.insert id s' } v := by
  refine ⟨h.next, h.stacks, fun x => ?_⟩
  show CrSpanRel i (AMap.get (AMap.insert r.spans id s') x) (v.spans.get x)
  rw [sd_get_insert]
  split
  · rename_i hx
    subst hx
    have := h.spans x
    rw [hg] at this
    exact cr_spanrel_congr_left h1 h2 h3 h4 this
  · exact h.spans x

theorem cr_regsim_erase {i : Nat} {r r₁ : Reg} (h : CrRegSim i r r₁) (id : Nat) :
    CrRegSim i { r with spans := r.spans.erase id } { r₁ with spans := r₁.spans.erase id } := by
  refine ⟨h.next, h.stacks, fun x => ?_⟩
  show CrSpanRel i (AMap.get (AMap.erase r.spans id) x) (AMap.get (AMap.erase r₁.spans id) x)
  rw [sd_get_erase, sd_get_erase]
  split
  · trivial
  · exact h.spans x

theorem cr_regsim_setStack {i : Nat} {r r₁ : Reg} (h : CrRegSim i r r₁) (l : List (Nat × Bool)) :
    CrRegSim i { r with stacks := r.stacks.insert 0 l } { r₁ with stacks := r₁.stacks.insert 0 l } :=
  ⟨h.next, by show AMap.insert r.stacks 0 l = AMap.insert r₁.stacks 0 l; rw [h.stacks], h.spans⟩

structure CrSim (i : Nat) (w w₁ : CapWorld) : Prop where
  reg : CrRegSim i w.reg w₁.reg
  global : w.global = w₁.global
  stor : w.storages.getD i {} = w₁.storages.getD 0 {}
  filt : w₁.filters = [w.filters.getD i .all]
  ilt : i < w.filters.length
  len : i < w.storages.length
  len₁ : 0 < w₁.storages.length

theorem cr_sim_setReg {i : Nat} {w w₁ : CapWorld} (h : CrSim i w w₁) {r r₁ : Reg}
    (hr : CrRegSim i r r₁) : CrSim i { w with reg := r } { w₁ with reg := r₁ } :=
  ⟨hr, h.global, h.stor, h.filt, h.ilt, h.len, h.len₁⟩

theorem cr_sim_setReg_left {i : Nat} {w v : CapWorld} (h : CrSim i w v) {r : Reg}
    (hr : CrRegSim i r v.reg) : CrSim i { w with reg := r } v :=
  ⟨hr, h.global, h.stor, h.filt, h.ilt, h.len, h.len₁⟩

theorem cr_sim_panic {i : Nat} {w w₁ : CapWorld} (h : CrSim i w w₁) : CrSim i (panic w) (panic w₁) :=
  ⟨h.reg, h.global, h.stor, h.filt, h.ilt, h.len, h.len₁⟩

theorem cr_setStorage_other (w : CapWorld) {i j : Nat} (st : Storage) (h : j ≠ i) :
    (setStorage w j st).storages.getD i {} = w.storages.getD i {} := by
  rw [cr_setStorage_getD, if_neg]
  intro h'; exact h h'.1.symm

theorem cr_sim_frame_left {i : Nat} {w w' v : CapWorld} (h : CrSim i w v) (hf : CrFrame w w')
    (hst : w'.storages.getD i {} = w.storages.getD i {}) : CrSim i w' v :=
  ⟨by rw [hf.reg]; exact h.reg, by rw [hf.global]; exact h.global, by rw [hst]; exact h.stor,
    by rw [hf.filters]; exact h.filt, by rw [hf.filters]; exact h.ilt, by rw [hf.len]; exact h.len,
    h.len₁⟩

theorem cr_sim_setStorage {i : Nat} {w w₁ : CapWorld} (h : CrSim i w w₁) (st : Storage) :
    CrSim i (setStorage w i st) (setStorage w₁ 0 st) := by
  refine ⟨h.reg, h.global, ?_, h.filt, h.ilt, by simp [setStorage, h.len], by simp [setStorage, h.len₁]⟩
  rw [cr_setStorage_getD, cr_setStorage_getD, if_pos ⟨rfl, h.len⟩, if_pos ⟨rfl, h.len₁⟩]

theorem cr_sim_setStorage_left {i j : Nat} {w v : CapWorld} (h : CrSim i w v) (st : Storage)
    (hj : j ≠ i) : CrSim i (setStorage w j st) v :=
  ⟨h.reg, h.global, by rw [cr_setStorage_other w st hj]; exact h.stor, h.filt, h.ilt,
    by simp [setStorage, h.len], h.len₁⟩

theorem cr_scope_sim {i : Nat} {r r₁ : Reg} (h : CrRegSim i r r₁) :
    ∀ (fuel : Nat) (start : Option Nat),
      scopeCaptured r i fuel start = scopeCaptured r₁ 0 fuel start := by
  intro fuel
  induction fuel with
  | zero => intro start; rfl
  | succ fuel ih =>
    intro start
    cases start with
    | none => rfl
    | some id =>
      simp only [scopeCaptured]
      have hs := h.spans id
      cases hg : r.spans.get id with
      | none =>
        rw [hg] at hs
        rw [cr_spanrel_none hs]
      | some s =>
        rw [hg] at hs
        obtain ⟨s₁, hg₁, _, hp, _, he⟩ := cr_spanrel_some hs
        rw [hg₁]
        simp only [he, hp, ih]

/-! ### `forLayers` on both sides -/

theorem cr_forLayers_single {w₁ : CapWorld} {flt : LFilter}
    (f : CapWorld → Nat → LFilter → CapWorld) (hf : w₁.filters = [flt])
    (hnp : w₁.panicked = false) : forLayers w₁ f = f w₁ 0 flt := by
  simp [forLayers, hf, hnp]

theorem cr_forLayers_sim {i : Nat} {w w₁ : CapWorld} (f f₁ : CapWorld → Nat → LFilter → CapWorld)
    (Q : CapWorld → Prop) (hQ0 : Q w) (hnp₁ : w₁.panicked = false) (hsim : CrSim i w w₁)
    (hQnp : ∀ w', Q w' → w'.panicked = false)
    (hQ : ∀ w' j flt, Q w' → w.filters[j]? = some flt → Q (f w' j flt))
    (hframe : ∀ w' v j flt, Q w' → w.filters[j]? = some flt → j ≠ i → CrSim i w' v →
      CrSim i (f w' j flt) v)
    (hsync : ∀ w', Q w' → CrSim i w' w₁ →
      CrSim i (f w' i (w.filters.getD i .all)) (f₁ w₁ 0 (w.filters.getD i .all))) :
    CrSim i (forLayers w f) (forLayers w₁ f₁) := by
  rw [cr_forLayers_single f₁ hsim.filt hnp₁]
  unfold forLayers
  generalize hF : (fun (w : CapWorld) (x : LFilter × Nat) =>
    if w.panicked then w else f w x.2 x.1) = F
  have hFstep : ∀ w' x, Q w' → F w' x = f w' x.2 x.1 := by
    intro w' x hq; rw [← hF]; simp only [cr_ite_np (hQnp w' hq)]
  -- after layer `i`
  have hA : ∀ (l : List LFilter) (k : Nat) (w' v : CapWorld), i < k →
      (∀ j flt, l[j]? = some flt → w.filters[k + j]? = some flt) → Q w' → CrSim i w' v →
      Q ((l.zipIdx k).foldl F w') ∧ CrSim i ((l.zipIdx k).foldl F w') v := by
    intro l
    induction l with
    | nil => intro k w' v _ _ hq hs; exact ⟨hq, hs⟩
    | cons x l ih =>
      intro k w' v hk hfl hq hs
      simp only [List.zipIdx_cons, List.foldl_cons]
      have hx : w.filters[k]? = some x := by simpa using hfl 0 x (by simp)
      rw [hFstep w' _ hq]
      apply ih (k + 1) _ v (by omega)
      · intro j flt hj
        have := hfl (j + 1) flt (by simpa using hj)
        rw [show k + 1 + j = k + (j + 1) by omega]; exact this
      · exact hQ w' k x hq hx
      · exact hframe w' v k x hq hx (by omega) hs
  -- up to and including layer `i`
  have hB : ∀ (l : List LFilter) (k : Nat) (w' : CapWorld), k ≤ i → i < k + l.length →
      (∀ j flt, l[j]? = some flt → w.filters[k + j]? = some flt) → Q w' → CrSim i w' w₁ →
      CrSim i ((l.zipIdx k).foldl F w') (f₁ w₁ 0 (w.filters.getD i .all)) := by
    intro l
    induction l with
    | nil => intro k w' hk hlt; simp at hlt; omega
    | cons x l ih =>
      intro k w' hk hlt hfl hq hs
      simp only [List.zipIdx_cons, List.foldl_cons]
      have hx : w.filters[k]? = some x := by simpa using hfl 0 x (by simp)
      have hfl' : ∀ j flt, l[j]? = some flt → w.filters[k + 1 + j]? = some flt := by
        intro j flt hj
        have := hfl (j + 1) flt (by simpa using hj)
        rw [show k + 1 + j = k + (j + 1) by omega]; exact this
      rw [hFstep w' _ hq]
      by_cases hki : k = i
      · subst hki
        have hxi : w.filters.getD k .all = x := by
          rw [List.getD_eq_getElem?_getD, hx]; rfl
        have h1 := hsync w' hq hs
        rw [hxi] at h1 ⊢
        exact (hA l (k + 1) _ _ (by omega) hfl' (hQ w' k x hq hx) h1).2
      · simp only [List.length_cons] at hlt
        exact ih (k + 1) _ (by omega) (by omega) hfl' (hQ w' k x hq hx)
          (hframe w' w₁ k x hq hx hki hs)
  exact hB w.filters 0 w (Nat.zero_le _) (by simpa using hsim.ilt)
    (fun j flt hj => by simpa using hj) hQ0 hsim

/-- Callbacks that only touch the storages. -/
theorem cr_forLayers_sim_frame {i : Nat} {hc : Nat → Nat} {w w₁ : CapWorld}
    (f f₁ : CapWorld → Nat → LFilter → CapWorld) (h : CrInv hc w) (hnp₁ : w₁.panicked = false)
    (hs : CrSim i w w₁)
    (hfr : ∀ w' j flt, CrInv hc w' → w'.reg = w.reg → CrFrame w' (f w' j flt))
    (hoth : ∀ w' j flt, j ≠ i → (f w' j flt).storages.getD i {} = w'.storages.getD i {})
    (hsync : ∀ w' flt, CrInv hc w' → w'.reg = w.reg → CrSim i w' w₁ →
      CrSim i (f w' i flt) (f₁ w₁ 0 flt)) :
    CrSim i (forLayers w f) (forLayers w₁ f₁) := by
  apply cr_forLayers_sim f f₁ (fun w' => CrFrame w w') (cr_frame_refl h.np) hnp₁ hs
  · intro w' hf; exact hf.np
  · intro w' j flt hf _
    exact cr_frame_trans hf (hfr w' j flt (cr_inv_frame h hf) hf.reg)
  · intro w' v j flt hf _ hj hsv
    exact cr_sim_frame_left hsv (hfr w' j flt (cr_inv_frame h hf) hf.reg) (hoth w' j flt hj)
  · intro w' hf hsw
    exact hsync w' _ (cr_inv_frame h hf) hf.reg hsw

/-! ### The callbacks -/

theorem cr_notifyCb_other (id : Nat) (g : CapSpan → CapSpan) (w : CapWorld) {i j : Nat}
    (flt : LFilter) (hj : j ≠ i) :
    (cr_notifyCb id g w j flt).storages.getD i {} = w.storages.getD i {} := by
  unfold cr_notifyCb
  split
  · rfl
  · rfl
  · split
    · exact cr_setStorage_other w _ hj
    · rfl

theorem cr_notifyCb_sync {i : Nat} {hc : Nat → Nat} {w w₁ : CapWorld} {id : Nat}
    (g : CapSpan → CapSpan) (flt : LFilter) (h : CrInv hc w)
    (hg : ∃ s, w.reg.spans.get id = some s) (hs : CrSim i w w₁) :
    CrSim i (cr_notifyCb id g w i flt) (cr_notifyCb id g w₁ 0 flt) := by
  obtain ⟨s, hg⟩ := hg
  have hr := hs.reg.spans id
  rw [hg] at hr
  obtain ⟨s₁, hg₁, _, _, _, he⟩ := cr_spanrel_some hr
  cases hei : s.ext.get i with
  | none =>
    rw [cr_notifyCb_none g flt hg hei, cr_notifyCb_none g flt hg₁ (he ▸ hei)]
    exact hs
  | some c =>
    have hv := h.ext id s i c hg hei
    rw [cr_notifyCb_some g flt hg hei hv,
      cr_notifyCb_some g flt hg₁ (he ▸ hei) (hs.stor ▸ hv), hs.stor]
    exact cr_sim_setStorage hs _

theorem cr_notify_sim {i : Nat} {hc : Nat → Nat} {w w₁ : CapWorld} {id : Nat}
    (g : CapSpan → CapSpan) (h : CrInv hc w) (hnp₁ : w₁.panicked = false)
    (hg : ∃ s, w.reg.spans.get id = some s) (hs : CrSim i w w₁) :
    CrSim i (notifySpan w id g) (notifySpan w₁ id g) := by
  rw [cr_notify_eq, cr_notify_eq]
  apply cr_forLayers_sim_frame _ _ h hnp₁ hs
  · intro w' j flt h' hr
    exact cr_notifyCb_frame g j flt h' (by rw [hr]; exact hg)
  · intro w' j flt hj
    exact cr_notifyCb_other id g w' flt hj
  · intro w' flt h' hr hsw
    exact cr_notifyCb_sync g flt h' (by rw [hr]; exact hg) hsw

theorem cr_followsCb_other (a b : Nat) (w : CapWorld) {i j : Nat} (flt : LFilter) (hj : j ≠ i) :
    (cr_followsCb a b w j flt).storages.getD i {} = w.storages.getD i {} := by
  unfold cr_followsCb
  split
  · rfl
  · split
    · rfl
    · split
      · split
        · exact cr_setStorage_other w _ hj
        · rfl
      · rfl

theorem cr_followsCb_sync {i : Nat} {hc : Nat → Nat} {w w₁ : CapWorld} {a : Nat} (b : Nat)
    (flt : LFilter) (h : CrInv hc w) (hg : ∃ s, w.reg.spans.get a = some s) (hs : CrSim i w w₁) :
    CrSim i (cr_followsCb a b w i flt) (cr_followsCb a b w₁ 0 flt) := by
  obtain ⟨s, hg⟩ := hg
  have hr := hs.reg.spans a
  rw [hg] at hr
  obtain ⟨s₁, hg₁, _, _, _, he⟩ := cr_spanrel_some hr
  unfold cr_followsCb
  simp only [capturedOf, hg, hg₁, Option.map_some]
  have hrb := hs.reg.spans b
  cases hb : w.reg.spans.get b with
  | none =>
    rw [hb] at hrb
    rw [cr_spanrel_none hrb]
    exact hs
  | some t =>
    rw [hb] at hrb
    obtain ⟨t₁, hb₁, _, _, _, hte⟩ := cr_spanrel_some hrb
    rw [hb₁]
    simp only [Option.map_some, ← he, ← hte]
    cases hea : s.ext.get i with
    | none => exact hs
    | some ca =>
      cases heb : t.ext.get i with
      | none => exact hs
      | some cb =>
        have hv := h.ext a s i ca hg hea
        simp only [cr_update_some _ _ _ hv, cr_update_some _ _ _ (hs.stor ▸ hv)]
        rw [hs.stor]
        exact cr_sim_setStorage hs _

theorem cr_follows_sim {i : Nat} {hc : Nat → Nat} {w w₁ : CapWorld} {a : Nat} (b : Nat)
    (h : CrInv hc w) (hnp₁ : w₁.panicked = false)
    (hg : ∃ s, w.reg.spans.get a = some s) (hs : CrSim i w w₁) :
    CrSim i ((capSub 0).follows w a b) ((capSub 0).follows w₁ a b) := by
  rw [cr_follows_eq, cr_follows_eq, cr_ite_np h.np, cr_ite_np hnp₁]
  apply cr_forLayers_sim_frame _ _ h hnp₁ hs
  · intro w' j flt h' hr
    exact cr_followsCb_frame b j flt h' (by rw [hr]; exact hg)
  · intro w' j flt hj
    exact cr_followsCb_other a b w' flt hj
  · intro w' flt h' hr hsw
    exact cr_followsCb_sync b flt h' (by rw [hr]; exact hg) hsw

theorem cr_eventCb_other (k : Nat) (site : CallSite) (fields : Fields) (start : Option Nat)
    (w : CapWorld) {i j : Nat} (flt : LFilter) (hj : j ≠ i) :
    (cr_eventCb k site fields start w j flt).storages.getD i {} = w.storages.getD i {} := by
  unfold cr_eventCb
  split
  · rfl
  · simp only
    split
    · exact cr_setStorage_other w _ hj
    · rfl

theorem cr_eventCb_sync {i : Nat} {w w₁ : CapWorld} (k : Nat) (site : CallSite) (fields : Fields)
    (start : Option Nat) (flt : LFilter) (hs : CrSim i w w₁) :
    CrSim i (cr_eventCb k site fields start w i flt) (cr_eventCb k site fields start w₁ 0 flt) := by
  unfold cr_eventCb
  cases hen : flt.enabled site with
  | false => simp only [Bool.not_false, if_true]; exact hs
  | true =>
    simp only [Bool.not_true, Bool.false_eq_true, if_false]
    rw [cr_scope_sim hs.reg, hs.reg.next, hs.stor]
    cases (w₁.storages.getD 0 {}).pushEvent k (capture fields)
        (scopeCaptured w₁.reg 0 (w₁.reg.next + 1) start) with
    | none => exact cr_sim_panic hs
    | some st => exact cr_sim_setStorage hs st

theorem cr_event_sim {i : Nat} {hc : Nat → Nat} {w w₁ : CapWorld} (k : Nat) (site : CallSite)
    (p : SParent) (fields : Fields) (h : CrInv hc w) (hnp₁ : w₁.panicked = false)
    (hs : CrSim i w w₁) :
    CrSim i ((capSub 0).event w k site p fields) ((capSub 0).event w₁ k site p fields) := by
  rw [cr_event_eq, cr_event_eq, cr_ite_np h.np, cr_ite_np hnp₁]
  have hsp : cr_sparent w p = cr_sparent w₁ p := by
    cases p with
    | root => rfl
    | ctx => simp only [cr_sparent, Reg.current, cr_regsim_stack hs.reg]
    | explicit id => rfl
  rw [hsp]
  apply cr_forLayers_sim_frame _ _ h hnp₁ hs
  · intro w' j flt h' _
    exact cr_eventCb_frame k site fields _ j flt h'
  · intro w' j flt hj
    exact cr_eventCb_other k site fields _ w' flt hj
  · intro w' flt _ _ hsw
    exact cr_eventCb_sync k site fields _ flt hsw

/-! ### Registry operations on both sides -/

theorem cr_clone_sim {i : Nat} {w w₁ : CapWorld} {id : Nat} {s : RegSpan}
    (hg : w.reg.spans.get id = some s) (hs : CrSim i w w₁) :
    ∃ s₁, w₁.reg.spans.get id = some s₁ ∧
      CrSim i
        { w with reg := { w.reg with spans := w.reg.spans.insert id { s with refs := s.refs + 1 } } }
        { w₁ with reg := { w₁.reg with spans := w₁.reg.spans.insert id { s₁ with refs := s₁.refs + 1 } } } := by
  have hr := hs.reg.spans id
  rw [hg] at hr
  obtain ⟨s₁, hg₁, h1, h2, h3, h4⟩ := cr_spanrel_some hr
  refine ⟨s₁, hg₁, cr_sim_setReg hs (cr_regsim_insert hs.reg id _ _ ⟨h1, h2, ?_, h4⟩)⟩
  show s.refs + 1 = s₁.refs + 1
  rw [h3]

theorem cr_op_clone_sim {i : Nat} {hc : Nat → Nat} {w w₁ : CapWorld} {id : Nat}
    (h : CrInv hc w) (hnp₁ : w₁.panicked = false) (hid : 0 < hc id) (hs : CrSim i w w₁) :
    CrSim i ((capSub 0).clone w id) ((capSub 0).clone w₁ id) := by
  obtain ⟨s, hg⟩ := cr_inv_get h hid
  obtain ⟨s₁, hg₁, hsim⟩ := cr_clone_sim hg hs
  show CrSim i (if w.panicked then w else match w.reg.cloneSpan id with
      | some reg => { w with reg }
      | none => panic w)
    (if w₁.panicked then w₁ else match w₁.reg.cloneSpan id with
      | some reg => { w₁ with reg }
      | none => panic w₁)
  rw [cr_ite_np h.np, cr_ite_np hnp₁, cr_cloneSpan_some hg, cr_cloneSpan_some hg₁]
  exact hsim

theorem cr_closeLast_sim {i : Nat} {hc hc₁ : Nat → Nat} {w w₁ : CapWorld} {id : Nat}
    {s s₁ : RegSpan}
    (h : CrInv (fun x => hc x + if x = id then 1 else 0) w)
    (h₁ : CrInv (fun x => hc₁ x + if x = id then 1 else 0) w₁)
    (hg : w.reg.spans.get id = some s) (hg₁ : w₁.reg.spans.get id = some s₁)
    (hr : ¬ s.refs > 1) (hr₁ : ¬ s₁.refs > 1)
    (hrel : CrSpanRel i (some s) (some s₁)) (hs : CrSim i w w₁) :
    CrSim i (cr_closeLast w id s) (cr_closeLast w₁ id s₁) := by
  obtain ⟨a1, a2, _, a4⟩ := hrel
  have hz := cr_inv_zero h hg hr
  have hz₁ := cr_inv_zero h₁ hg₁ hr₁
  have hsz : CrSim i
      { w with reg := { w.reg with spans := w.reg.spans.insert id { s with refs := 0 } } }
      { w₁ with reg := { w₁.reg with spans := w₁.reg.spans.insert id { s₁ with refs := 0 } } } :=
    cr_sim_setReg hs (cr_regsim_insert hs.reg id _ _ ⟨a1, a2, rfl, a4⟩)
  have hn := cr_notify_sim (id := id) (fun cs => { cs with closed := true }) hz hz₁.np
    ⟨_, cr_get_insert_self _ _ _⟩ hsz
  exact cr_sim_setReg hn (cr_regsim_erase hn.reg id)

theorem cr_tryCloseFuel_sim {i : Nat} : ∀ (fuel : Nat) (w w₁ : CapWorld) (id : Nat)
    (hc hc₁ : Nat → Nat),
    CrInv (fun x => hc x + if x = id then 1 else 0) w →
    CrInv (fun x => hc₁ x + if x = id then 1 else 0) w₁ → CrSim i w w₁ →
    CrSim i (tryCloseFuel fuel w id) (tryCloseFuel fuel w₁ id) := by
  intro fuel
  induction fuel with
  | zero => intro w w₁ id hc hc₁ _ _ hs; exact hs
  | succ fuel ih =>
    intro w w₁ id hc hc₁ h h₁ hs
    obtain ⟨s, hg⟩ := cr_inv_get h (x := id) (by simp)
    have hrel := hs.reg.spans id
    rw [hg] at hrel
    obtain ⟨s₁, hg₁, a1, a2, a3, a4⟩ := cr_spanrel_some hrel
    rw [hg₁] at hrel
    by_cases hr : s.refs > 1
    · have hr₁ : s₁.refs > 1 := a3 ▸ hr
      rw [cr_tryCloseFuel_dec fuel w id s hg hr, cr_tryCloseFuel_dec fuel w₁ id s₁ hg₁ hr₁]
      refine cr_sim_setReg hs (cr_regsim_insert hs.reg id _ _ ⟨a1, a2, ?_, a4⟩)
      show s.refs - 1 = s₁.refs - 1
      rw [a3]
    · have hr₁ : ¬ s₁.refs > 1 := a3 ▸ hr
      rw [cr_tryCloseFuel_last fuel w id s hg hr, cr_tryCloseFuel_last fuel w₁ id s₁ hg₁ hr₁]
      have h3 := cr_inv_closeLast h hg hr
      have h3₁ := cr_inv_closeLast h₁ hg₁ hr₁
      have hcl := cr_closeLast_sim h h₁ hg hg₁ hr hr₁ hrel hs
      rw [← a2]
      cases hp : s.parent with
      | none => exact hcl
      | some p =>
        simp only [cr_ite_np h3.np, cr_ite_np h3₁.np]
        have hcongr : ∀ (e : Nat → Nat) (q : Option Nat) (x : Nat), q = some p →
            (e x + if x = p then 1 else 0) = (e x + if q = some x then 1 else 0) := by
          intro e q x hq
          subst hq
          by_cases hx : x = p
          · subst hx; simp
          · have : ¬ p = x := fun h' => hx h'.symm
            simp [hx, this]
        apply ih _ _ p hc hc₁
        · exact cr_inv_congr h3 (fun x => hcongr hc s.parent x hp)
        · exact cr_inv_congr h3₁ (fun x => hcongr hc₁ s₁.parent x (a2 ▸ hp))
        · exact hcl

theorem cr_tryClose_sim {i : Nat} {hc hc₁ : Nat → Nat} {w w₁ : CapWorld} {id : Nat}
    (h : CrInv (fun x => hc x + if x = id then 1 else 0) w)
    (h₁ : CrInv (fun x => hc₁ x + if x = id then 1 else 0) w₁) (hs : CrSim i w w₁) :
    CrSim i (w.tryClose id) (w₁.tryClose id) := by
  unfold CapWorld.tryClose
  rw [hs.reg.next]
  exact cr_tryCloseFuel_sim _ w w₁ id hc hc₁ h h₁ hs

theorem cr_op_tryClose_sim {i : Nat} {hc hc₁ : Nat → Nat} {w w₁ : CapWorld} {id : Nat}
    (h : CrInv (fun x => hc x + if x = id then 1 else 0) w)
    (h₁ : CrInv (fun x => hc₁ x + if x = id then 1 else 0) w₁) (hs : CrSim i w w₁) :
    CrSim i ((capSub 0).tryClose w id) ((capSub 0).tryClose w₁ id) := by
  show CrSim i (if w.panicked then w else w.tryClose id) (if w₁.panicked then w₁ else w₁.tryClose id)
  rw [cr_ite_np h.np, cr_ite_np h₁.np]
  exact cr_tryClose_sim h h₁ hs

/-! ### `enter` / `exit` -/

theorem cr_op_enter_sim {i : Nat} {hc hc₁ : Nat → Nat} {w w₁ : CapWorld} {id : Nat}
    (h : CrInv hc w) (h₁ : CrInv hc₁ w₁) (hid : 0 < hc id) (hid₁ : 0 < hc₁ id) (hs : CrSim i w w₁) :
    CrSim i ((capSub 0).enter w id) ((capSub 0).enter w₁ id) := by
  obtain ⟨reg, hreg, hi, hg⟩ := cr_enterReg_inv h hid
  obtain ⟨reg₁, hreg₁, hi₁, _⟩ := cr_enterReg_inv h₁ hid₁
  rw [cr_enter_eq, cr_enter_eq, cr_ite_np h.np, cr_ite_np h₁.np, hreg, hreg₁]
  apply cr_notify_sim _ hi hi₁.np hg
  apply cr_sim_setReg hs
  -- the two registries are related
  obtain ⟨s, hgs⟩ := cr_inv_get h hid
  obtain ⟨s₁, hgs₁, hsim⟩ := cr_clone_sim hgs hs
  have hstk := cr_regsim_stack hs.reg
  unfold cr_enterReg at hreg hreg₁
  rw [← hstk] at hreg₁
  cases hd : (w.reg.stack 0).any (·.1 == id) with
  | true =>
    simp only [hd, if_true, Option.some.injEq] at hreg hreg₁
    subst hreg hreg₁
    exact cr_regsim_setStack hs.reg _
  | false =>
    simp only [hd, Bool.false_eq_true, if_false] at hreg hreg₁
    have e : ∀ (r : Reg) (t : RegSpan) (stk : AMap Nat (List (Nat × Bool))),
        r.spans.get id = some t →
        Reg.cloneSpan { spans := r.spans, next := r.next, stacks := stk } id =
          some { spans := r.spans.insert id { t with refs := t.refs + 1 }, next := r.next,
                 stacks := stk } := by
      intro r t stk ht
      exact cr_cloneSpan_some (reg := { spans := r.spans, next := r.next, stacks := stk }) ht
    rw [e w.reg s _ hgs] at hreg
    rw [e w₁.reg s₁ _ hgs₁] at hreg₁
    simp only [Option.some.injEq] at hreg hreg₁
    subst hreg hreg₁
    exact ⟨hsim.reg.next, by
      show AMap.insert w.reg.stacks 0 _ = AMap.insert w₁.reg.stacks 0 _
      rw [hs.reg.stacks], hsim.reg.spans⟩

theorem cr_exitW_sim {i : Nat} {hc hc₁ : Nat → Nat} {w w₁ : CapWorld} {id : Nat}
    (h : CrInv hc w) (h₁ : CrInv hc₁ w₁) (hs : CrSim i w w₁) :
    CrSim i (cr_exitW w id) (cr_exitW w₁ id) := by
  have hstk := cr_regsim_stack hs.reg
  have hpw : CrSim i (cr_popW w id) (cr_popW w₁ id) := by
    unfold cr_popW
    rw [← hstk]
    exact cr_sim_setReg hs (cr_regsim_setStack hs.reg _)
  by_cases hp : ((w.reg.stack 0).find? (·.1 == id)).map (·.2) = some false
  · rw [cr_exitW_close hp, cr_exitW_close (hstk ▸ hp)]
    have hpop := cr_sc_pop (w.reg.stack 0) id
    have hpop₁ := cr_sc_pop (w₁.reg.stack 0) id
    have hp₁ : ((w₁.reg.stack 0).find? (·.1 == id)).map (·.2) = some false := hstk ▸ hp
    apply cr_tryClose_sim (hc := hc) (hc₁ := hc₁) _ _ hpw
    · refine ⟨h.np, h.len, ?_, h.ext⟩
      simp only [cr_popW, cr_stack_mk]
      refine cr_regacc_mono h.acc ?_
      intro x
      have := hpop x
      simp only [hp, and_true] at this
      omega
    · refine ⟨h₁.np, h₁.len, ?_, h₁.ext⟩
      simp only [cr_popW, cr_stack_mk]
      refine cr_regacc_mono h₁.acc ?_
      intro x
      have := hpop₁ x
      simp only [hp₁, and_true] at this
      omega
  · rw [cr_exitW_keep hp, cr_exitW_keep (hstk ▸ hp)]
    exact hpw

theorem cr_op_exit_sim {i : Nat} {hc hc₁ : Nat → Nat} {w w₁ : CapWorld} {id : Nat}
    (h : CrInv hc w) (h₁ : CrInv hc₁ w₁) (hid : 0 < hc id) (hs : CrSim i w w₁) :
    CrSim i ((capSub 0).exit w id) ((capSub 0).exit w₁ id) := by
  have hi := cr_exitW_inv (id := id) h
  have hi₁ := cr_exitW_inv (id := id) h₁
  rw [cr_exit_eq, cr_exit_eq, cr_ite_np h.np, cr_ite_np h₁.np, cr_ite_np hi.np, cr_ite_np hi₁.np]
  exact cr_notify_sim _ hi hi₁.np (cr_inv_get hi hid) (cr_exitW_sim h h₁ hs)

/-! ### `new_span` -/

theorem cr_newCb_off {w : CapWorld} (k : Nat) {site : CallSite} (fields : Fields) (id i : Nat)
    {flt : LFilter} (hen : flt.enabled site = false) : cr_newCb k site fields id w i flt = w := by
  simp [cr_newCb, hen]

theorem cr_newCb_on {hc : Nat → Nat} {w : CapWorld} (k : Nat) {site : CallSite} (fields : Fields)
    {id : Nat} (i : Nat) {flt : LFilter} {s : RegSpan} (h : CrInv hc w)
    (hg : w.reg.spans.get id = some s) (hen : flt.enabled site = true) :
    ∃ st', (w.storages.getD i {}).pushSpan k (capture fields)
        (scopeCaptured w.reg i (w.reg.next + 1) (some id)) =
        some (st', (w.storages.getD i {}).spans.length) ∧
      cr_newCb k site fields id w i flt =
        { setStorage w i st' with reg := { w.reg with
            spans := w.reg.spans.insert id
              { s with ext := s.ext.insert i (w.storages.getD i {}).spans.length } } } := by
  obtain ⟨st', hst, _⟩ := cr_pushSpan_some (w.storages.getD i {}) k (capture fields)
    (scopeCaptured w.reg i (w.reg.next + 1) (some id))
    (fun c hc' => cr_scope_valid h i _ _ c hc')
  have hg' : (setStorage w i st').reg.spans.get id = some s := hg
  refine ⟨st', hst, ?_⟩
  simp only [cr_newCb, hen, Bool.not_true, Bool.false_eq_true, if_false, hst, hg']
  rfl

theorem cr_newLayers_sim {i : Nat} {hc hc₁ : Nat → Nat} {w w₁ : CapWorld} (k : Nat)
    (site : CallSite) (fields : Fields) {id : Nat} (h : CrInv hc w) (h₁ : CrInv hc₁ w₁)
    (hg : ∃ s, w.reg.spans.get id = some s) (hs : CrSim i w w₁) :
    CrSim i (forLayers w (cr_newCb k site fields id)) (forLayers w₁ (cr_newCb k site fields id)) := by
  apply cr_forLayers_sim _ _
    (fun w' => CrInv hc w' ∧ w'.filters = w.filters ∧ ∃ s, w'.reg.spans.get id = some s)
    ⟨h, rfl, hg⟩ h₁.np hs
  · intro w' hq; exact hq.1.np
  · intro w' j flt ⟨h', hfl, hg'⟩ hj
    have hj' : j < w'.storages.length := by
      rw [h'.len, hfl]; exact (List.getElem?_eq_some_iff.mp hj).1
    obtain ⟨r1, r2, _, r4⟩ := cr_newCb_inv k site fields j flt h' hj' hg'
    exact ⟨r1, r2.trans hfl, r4⟩
  · intro w' v j flt ⟨h', _, hg'⟩ _ hj hsv
    obtain ⟨s, hg'⟩ := hg'
    cases hen : flt.enabled site with
    | false => rw [cr_newCb_off k fields id j hen]; exact hsv
    | true =>
      obtain ⟨st', _, hcb⟩ := cr_newCb_on k fields j h' hg' hen
      rw [hcb]
      have h1 := cr_sim_setStorage_left hsv st' hj
      refine cr_sim_setReg_left h1 (cr_regsim_insert_left h1.reg hg' rfl rfl rfl ?_)
      show AMap.get (AMap.insert s.ext j _) i = _
      rw [sd_get_insert, if_neg (fun h' => hj h'.symm)]
  · intro w' ⟨h', _, hg'⟩ hsw
    obtain ⟨s, hg'⟩ := hg'
    have hr := hsw.reg.spans id
    rw [hg'] at hr
    obtain ⟨s₁, hg₁, a1, a2, a3, _⟩ := cr_spanrel_some hr
    cases hen : (w.filters.getD i .all).enabled site with
    | false => rw [cr_newCb_off k fields id i hen, cr_newCb_off k fields id 0 hen]; exact hsw
    | true =>
      obtain ⟨st', hst, hcb⟩ := cr_newCb_on k fields i h' hg' hen
      obtain ⟨st₁, hst₁, hcb₁⟩ := cr_newCb_on k fields 0 h₁ hg₁ hen
      rw [hcb, hcb₁]
      rw [cr_scope_sim hsw.reg, hsw.reg.next, hsw.stor, hst₁] at hst
      simp only [Option.some.injEq, Prod.mk.injEq] at hst
      rw [← hst.1, hsw.stor]
      refine cr_sim_setReg (cr_sim_setStorage hsw _) (cr_regsim_insert hsw.reg id _ _ ⟨a1, a2, a3, ?_⟩)
      show AMap.get (AMap.insert s.ext i _) i = AMap.get (AMap.insert s₁.ext 0 _) 0
      rw [cr_get_insert_self, cr_get_insert_self]

theorem cr_sparent_sim {i : Nat} {w w₁ : CapWorld} (hs : CrSim i w w₁) (p : SParent) :
    cr_sparent w p = cr_sparent w₁ p := by
  cases p with
  | root => rfl
  | ctx => simp only [cr_sparent, Reg.current, cr_regsim_stack hs.reg]
  | explicit id => rfl

theorem cr_op_newSpan_sim {i : Nat} {hc hc₁ : Nat → Nat} {w w₁ : CapWorld} (k : Nat)
    (site : CallSite) (p : SParent) (fields : Fields) (h : CrInv hc w) (h₁ : CrInv hc₁ w₁)
    (hp : ∀ pid, p = .explicit pid → 0 < hc pid) (hp₁ : ∀ pid, p = .explicit pid → 0 < hc₁ pid)
    (hs : CrSim i w w₁) :
    CrSim i ((capSub 0).newSpan w k site p fields).1 ((capSub 0).newSpan w₁ k site p fields).1 := by
  have hpar := cr_sparent_get h p hp
  have hpar₁ := cr_sparent_get h₁ p hp₁
  obtain ⟨reg, hreg, hnext, hi, hg⟩ := cr_newReg_inv k (cr_sparent w p) h hpar
  obtain ⟨reg₁, hreg₁, hnext₁, hi₁, _⟩ := cr_newReg_inv k (cr_sparent w₁ p) h₁ hpar₁
  rw [cr_newSpan_eq, cr_newSpan_eq, hreg, hreg₁]
  show CrSim i (forLayers _ (cr_newCb k site fields reg.next))
    (forLayers _ (cr_newCb k site fields reg₁.next))
  rw [hnext, hnext₁, ← hs.reg.next]
  apply cr_newLayers_sim k site fields hi hi₁ hg
  apply cr_sim_setReg hs
  -- the registries after the registry part of `new_span`
  have hsp := cr_sparent_sim hs p
  rw [← hsp] at hreg₁ ⊢
  have hrr : CrRegSim i reg reg₁ := by
    cases hpp : cr_sparent w p with
    | none =>
      rw [hpp] at hreg hreg₁
      simp only [Option.some.injEq] at hreg hreg₁
      subst hreg hreg₁
      exact hs.reg
    | some pid =>
      rw [hpp] at hreg hreg₁
      simp only at hreg hreg₁
      obtain ⟨s, hgs⟩ := hpar pid hpp
      obtain ⟨s₁, hgs₁, hsim⟩ := cr_clone_sim hgs hs
      rw [cr_cloneSpan_some hgs] at hreg
      rw [cr_cloneSpan_some hgs₁] at hreg₁
      simp only [Option.some.injEq] at hreg hreg₁
      subst hreg hreg₁
      exact hsim.reg
  unfold cr_newReg
  rw [hrr.next]
  exact ⟨by show reg₁.next + 1 = reg₁.next + 1; rfl, hrr.stacks,
    (cr_regsim_insert hrr reg₁.next _ _ ⟨rfl, rfl, rfl, rfl⟩).spans⟩

end TT
