/-
  The whole program: the front end over the layered model and over the logging subscriber run in
  lock step, and the invariant `cs_WInv` holds between the model and the call log so far.
-/
import TT.Lemmas.CapSpecSim3

namespace TT

/-! ### Live handles per span id -/

def cs_liveCnt : List Bool → List (Option (Nat × Nat)) → Nat → Nat
  | b :: bs, h :: hs, id => (if b && (h.map (·.1) == some id) then 1 else 0) + cs_liveCnt bs hs id
  | _, _, _ => 0

theorem cs_liveCnt_append (live : List Bool) (handles : List (Option (Nat × Nat))) (b : Bool)
    (h : Option (Nat × Nat)) (id : Nat) (hlen : live.length = handles.length) :
    cs_liveCnt (live ++ [b]) (handles ++ [h]) id =
      cs_liveCnt live handles id + (if b && (h.map (·.1) == some id) then 1 else 0) := by
  induction live generalizing handles with
  | nil =>
    cases handles with
    | nil => simp [cs_liveCnt]
    | cons _ _ => simp at hlen
  | cons b' bs ih =>
    cases handles with
    | nil => simp at hlen
    | cons h' hs =>
      simp only [List.length_cons, Nat.add_right_cancel_iff] at hlen
      simp only [List.cons_append, cs_liveCnt, ih hs hlen]
      omega

theorem cs_liveCnt_set (live : List Bool) (handles : List (Option (Nat × Nat))) (s id : Nat)
    (hl : live.getD s false = true) (hlen : live.length = handles.length) :
    cs_liveCnt (live.set s false) handles id +
      (if ((handles[s]?).join).map (·.1) = some id then 1 else 0) = cs_liveCnt live handles id := by
  induction live generalizing handles s with
  | nil => simp at hl
  | cons b bs ih =>
    cases handles with
    | nil => simp at hlen
    | cons h hs =>
      simp only [List.length_cons, Nat.add_right_cancel_iff] at hlen
      cases s with
      | zero =>
        simp at hl
        subst hl
        by_cases hh : h.map (·.1) = some id <;> simp [cs_liveCnt, hh] <;> omega
      | succ s' =>
        have hl' : bs.getD s' false = true := by simpa using hl
        have := ih hs s' hl' hlen
        simp only [List.set_cons_succ, cs_liveCnt, List.getElem?_cons_succ]
        omega

theorem cs_live_lt (live : List Bool) (s : Nat) (h : live.getD s false = true) : s < live.length :=
  getD_true_lt live s h

theorem cs_liveCnt_pos (live : List Bool) (handles : List (Option (Nat × Nat))) (s id k : Nat)
    (hl : live.getD s false = true) (hlen : live.length = handles.length)
    (hh : (handles[s]?).join = some (id, k)) : 1 ≤ cs_liveCnt live handles id := by
  have := cs_liveCnt_set live handles s id hl hlen
  rw [hh] at this
  simp only [Option.map_some, if_true] at this
  omega

/-! ### The relation between the two front ends -/

structure cs_FInv (filters : List LFilter) (global : Option Nat) (sites : List CallSite)
    (live : List Bool) (w : CapWorld) (handles : List (Option (Nat × Nat))) (ls : LogState) : Prop where
  len : live.length = handles.length
  nx : ls.next = cs_maxId ls.calls.reverse + 1
  w : cs_WInv filters global sites ls.calls.reverse (cs_hierFinal ls.calls.reverse)
    (cs_liveCnt live handles) none w
  hd : ∀ id, cs_handles ls.calls.reverse id = (cs_liveCnt live handles id : Int)

def cs_Rel (filters : List LFilter) (global : Option Nat) (sites : List CallSite) (live : List Bool)
    (fe1 : FE CapWorld) (fe2 : FE LogState) : Prop :=
  fe1.handles = fe2.handles ∧ fe1.registered = fe2.registered ∧
  cs_FInv filters global sites live fe1.sub fe1.handles fe2.sub

theorem cs_FInv_live {filters global sites live w handles ls}
    (h : cs_FInv filters global sites live w handles ls) {s id k : Nat}
    (hl : live.getD s false = true) (hh : (handles[s]?).join = some (id, k)) :
    1 ≤ cs_liveCnt live handles id ∧ (w.reg.spans.get id).isSome := by
  have h1 := cs_liveCnt_pos live handles s id k hl h.len hh
  exact ⟨h1, cs_isSome_of_H h.w h1⟩

theorem cs_WInv_H_congr {filters global sites calls hier H H' x w}
    (h : cs_WInv filters global sites calls hier H x w) (hH : ∀ y, H' y = H y) :
    cs_WInv filters global sites calls hier H' x w := by
  refine ⟨h.np, h.fl, h.gl, h.len, h.ok, h.next, h.stk, ?_, h.lay⟩
  refine cs_RI_same h.ri h.ri.sok ?_ ?_ h.ri.pend
  · intro y s _; rw [hH]
  · intro y hy; rw [hH]; exact h.ri.nex y hy

/-- Append a call that does not touch handles. -/
theorem cs_FInv_call {filters global sites live w w' handles} {ls : LogState} (c : SubCall)
    (h : cs_FInv filters global sites live w handles ls)
    (hc1 : ∀ id k p f, c ≠ .newSpan id k p f) (hc2 : ∀ id, c ≠ .clone id) (hc3 : ∀ id, c ≠ .tryClose id)
    (hw : cs_WInv filters global sites (ls.calls.reverse ++ [c]) (cs_hierFinal (ls.calls.reverse ++ [c]))
      (cs_liveCnt live handles) none w') :
    cs_FInv filters global sites live w' handles { ls with calls := c :: ls.calls } := by
  refine ⟨h.len, ?_, ?_, ?_⟩
  · simp only [List.reverse_cons]
    rw [cs_maxId_snoc_nc _ hc1]
    exact h.nx
  · simp only [List.reverse_cons]
    exact hw
  · intro id
    simp only [List.reverse_cons]
    rw [cs_handles_snoc, ← h.hd id]
    cases c with
    | newSpan id' k p f => exact absurd rfl (hc1 id' k p f)
    | clone id' => exact absurd rfl (hc2 id')
    | tryClose id' => exact absurd rfl (hc3 id')
    | _ => rfl

theorem cs_resolveParent_eq {σ τ : Type} (fe1 : FE σ) (fe2 : FE τ) (h : fe1.handles = fe2.handles)
    (p : PParent) : resolveParent fe1 p = resolveParent fe2 p := by
  cases p <;> simp [resolveParent, FE.handle, FE.handleSite, h]

theorem cs_rel_ensure {filters global sites live} {fe1 : FE CapWorld} {fe2 : FE LogState}
    (h : cs_Rel filters global sites live fe1 fe2) (k : Nat) :
    cs_Rel filters global sites live (ensureRegistered (capSub 0) sites fe1 k)
      (ensureRegistered (cs_logSubF global) sites fe2 k) ∧
    (ensureRegistered (capSub 0) sites fe1 k).handles = fe1.handles := by
  obtain ⟨h1, h2, h3⟩ := h
  unfold ensureRegistered
  rw [h2]
  by_cases hk : fe2.registered.contains k = true
  · rw [if_pos hk, if_pos hk]
    exact ⟨⟨h1, h2, h3⟩, rfl⟩
  · rw [if_neg hk, if_neg hk]
    refine ⟨⟨h1, rfl, ?_⟩, rfl⟩
    show cs_FInv filters global sites live fe1.sub fe1.handles
      { fe2.sub with calls := .register k (sites.getD k default) :: fe2.sub.calls }
    exact cs_FInv_call _ h3 (by intros; simp) (by intros; simp) (by intros; simp)
      (cs_sim_register h3.w k _)

/-! ### `new` and `evt` after registration -/

def cs_newCore {σ : Type} (S : Subscriber σ) (sites : List CallSite) (k : Nat) (p : PParent) (vals : PVals)
    (fe : FE σ) : FE σ :=
  if S.enabled fe.sub (sites.getD k default) then
    { fe with
      sub := (S.newSpan fe.sub k (sites.getD k default) (resolveParent fe p) (fieldsOf (sites.getD k default) vals)).1
      handles := fe.handles ++ [some ((S.newSpan fe.sub k (sites.getD k default) (resolveParent fe p)
        (fieldsOf (sites.getD k default) vals)).2, k)] }
  else { fe with handles := fe.handles ++ [none] }

theorem cs_feStep_new {σ : Type} (S : Subscriber σ) (sites : List CallSite) (fe : FE σ) (k : Nat)
    (p : PParent) (vals : PVals) :
    feStep S sites fe (.new k p vals) = cs_newCore S sites k p vals (ensureRegistered S sites fe k) := rfl

def cs_evtCore {σ : Type} (S : Subscriber σ) (sites : List CallSite) (k : Nat) (p : PParent) (vals : PVals)
    (fe : FE σ) : FE σ :=
  if S.enabled fe.sub (sites.getD k default) then
    { fe with
      sub := S.event fe.sub k (sites.getD k default) (resolveParent fe p)
        (fieldsOf (sites.getD k default) vals) }
  else fe

theorem cs_feStep_evt {σ : Type} (S : Subscriber σ) (sites : List CallSite) (fe : FE σ) (k : Nat)
    (p : PParent) (vals : PVals) :
    feStep S sites fe (.evt k p vals) = cs_evtCore S sites k p vals (ensureRegistered S sites fe k) := rfl

/-- An explicit parent that resolves to a span id is a live handle. -/
theorem cs_parent_live {filters global sites live} {fe1 : FE CapWorld} {ls : LogState}
    (h : cs_FInv filters global sites live fe1.sub fe1.handles ls) (p : PParent)
    (hp : ∀ s, p = .handle s → live.getD s false = true) :
    ∀ q, resolveParent fe1 p = .explicit q → (fe1.sub.reg.spans.get q).isSome := by
  intro q hq
  cases p with
  | ctx => simp [resolveParent] at hq
  | root => simp [resolveParent] at hq
  | handle s =>
    simp only [resolveParent, FE.handle, FE.handleSite] at hq
    cases hh : (fe1.handles[s]?).join with
    | none => simp [hh] at hq
    | some idk =>
      obtain ⟨id, k⟩ := idk
      simp [hh] at hq
      subst hq
      exact (cs_FInv_live h (hp s rfl) hh).2

theorem cs_rel_newCore {filters global sites live} {fe1 : FE CapWorld} {fe2 : FE LogState}
    (h : cs_Rel filters global sites live fe1 fe2) (k : Nat) (p : PParent) (vals : PVals)
    (hp : ∀ s, p = .handle s → live.getD s false = true) :
    cs_Rel filters global sites (live ++ [true]) (cs_newCore (capSub 0) sites k p vals fe1)
      (cs_newCore (cs_logSubF global) sites k p vals fe2) := by
  obtain ⟨h1, h2, h3⟩ := h
  unfold cs_newCore
  have hen : (capSub 0).enabled fe1.sub (sites.getD k default) =
      (cs_logSubF global).enabled fe2.sub (sites.getD k default) := by
    show levelEnabled fe1.sub.global _ = levelEnabled global _
    rw [h3.w.gl]
  rw [hen]
  cases he : (cs_logSubF global).enabled fe2.sub (sites.getD k default) with
  | false =>
    simp only [Bool.false_eq_true, if_false]
    refine ⟨by simp [h1], h2, ?_⟩
    have hcnt : ∀ id, cs_liveCnt (live ++ [true]) (fe1.handles ++ [none]) id = cs_liveCnt live fe1.handles id := by
      intro id
      rw [cs_liveCnt_append _ _ _ _ _ h3.len]
      simp
    refine ⟨by simp [h3.len], h3.nx, ?_, ?_⟩
    · exact cs_WInv_H_congr h3.w hcnt
    · intro id; rw [hcnt]; exact h3.hd id
  | true =>
    simp only [if_true]
    rw [cs_resolveParent_eq fe1 fe2 h1 p]
    have hsim := cs_sim_newSpan (H' := cs_liveCnt (live ++ [true])
        (fe1.handles ++ [some (fe1.sub.reg.next, k)])) h3.w k (resolveParent fe2 p)
      (fieldsOf (sites.getD k default) vals)
      (by rw [← cs_resolveParent_eq fe1 fe2 h1 p]; exact cs_parent_live h3 p hp)
      (by
        intro y
        rw [cs_liveCnt_append _ _ _ _ _ h3.len]
        by_cases hy : y = fe1.sub.reg.next
        · subst hy; simp
        · have : ¬ fe1.sub.reg.next = y := fun h' => hy h'.symm
          simp [hy, this])
    obtain ⟨hid, hw⟩ := hsim
    have hnext : fe1.sub.reg.next = fe2.sub.next := by rw [h3.w.next, h3.nx]
    have hid2 : ((capSub 0).newSpan fe1.sub k (sites.getD k default) (resolveParent fe2 p)
        (fieldsOf (sites.getD k default) vals)).2 = fe2.sub.next := by rw [hid, h3.nx]
    generalize (capSub 0).newSpan fe1.sub k (sites.getD k default) (resolveParent fe2 p)
        (fieldsOf (sites.getD k default) vals) = r at hid hid2 hw ⊢
    obtain ⟨w', id'⟩ := r
    simp only at hid hid2 hw
    subst hid2
    change cs_Rel filters global sites (live ++ [true]) ⟨w', _, _⟩
      ⟨⟨fe2.sub.next + 1, SubCall.newSpan fe2.sub.next k _ _ :: fe2.sub.calls⟩, _, _⟩
    refine ⟨by rw [h1]; rfl, h2, ?_⟩
    have hnx := h3.nx
    refine ⟨by simp [h3.len], ?_, ?_, ?_⟩
    · simp only [List.reverse_cons]
      rw [cs_maxId_snoc]; simp only; omega
    · simp only [List.reverse_cons]
      rw [hnext, hnx] at hw
      rw [hnx]
      exact hw
    · intro id
      simp only [List.reverse_cons]
      rw [cs_handles_snoc, cs_liveCnt_append _ _ _ _ _ h3.len, h3.hd id]
      by_cases hy : fe2.sub.next = id
      · subst hy; simp
      · simp [hy]

theorem cs_rel_evtCore {filters global sites live} {fe1 : FE CapWorld} {fe2 : FE LogState}
    (h : cs_Rel filters global sites live fe1 fe2) (k : Nat) (p : PParent) (vals : PVals)
    (hp : ∀ s, p = .handle s → live.getD s false = true) :
    cs_Rel filters global sites live (cs_evtCore (capSub 0) sites k p vals fe1)
      (cs_evtCore (cs_logSubF global) sites k p vals fe2) := by
  obtain ⟨h1, h2, h3⟩ := h
  unfold cs_evtCore
  have hen : (capSub 0).enabled fe1.sub (sites.getD k default) =
      (cs_logSubF global).enabled fe2.sub (sites.getD k default) := by
    show levelEnabled fe1.sub.global _ = levelEnabled global _
    rw [h3.w.gl]
  rw [hen]
  cases he : (cs_logSubF global).enabled fe2.sub (sites.getD k default) with
  | false =>
    simp only [Bool.false_eq_true, if_false]
    exact ⟨h1, h2, h3⟩
  | true =>
    simp only [if_true]
    rw [cs_resolveParent_eq fe1 fe2 h1 p]
    refine ⟨h1, h2, ?_⟩
    show cs_FInv filters global sites live _ fe1.handles
      { fe2.sub with calls := .event k (resolveParent fe2 p) (fieldsOf (sites.getD k default) vals) :: fe2.sub.calls }
    refine cs_FInv_call _ h3 (by intros; simp) (by intros; simp) (by intros; simp) ?_
    apply cs_sim_event h3.w
    rw [← cs_resolveParent_eq fe1 fe2 h1 p]
    exact cs_parent_live h3 p hp

/-! ### One program operation -/

theorem cs_rel_step {filters global sites} (st st' : WfSt) (fe1 : FE CapWorld) (fe2 : FE LogState)
    (op : POp) (h : cs_Rel filters global sites st.live fe1 fe2) (hw : wfStep sites st op = some st') :
    cs_Rel filters global sites st'.live (feStep (capSub 0) sites fe1 op)
      (feStep (cs_logSubF global) sites fe2 op) := by
  obtain ⟨spanOf, live, nSpans, entered⟩ := st
  simp only at h
  cases op with
  | reg k =>
    simp only [wfStep, Option.some.injEq] at hw
    subst hw
    obtain ⟨h1, h2, h3⟩ := h
    simp only [feStep]
    refine ⟨h1, by rw [h2], ?_⟩
    show cs_FInv filters global sites live fe1.sub fe1.handles
      { fe2.sub with calls := .register k (sites.getD k default) :: fe2.sub.calls }
    exact cs_FInv_call _ h3 (by intros; simp) (by intros; simp) (by intros; simp)
      (cs_sim_register h3.w k _)
  | new k p vals =>
    simp only [wfStep] at hw
    split at hw
    · rename_i hc
      simp only [Bool.and_eq_true, decide_eq_true_eq] at hc
      obtain ⟨⟨⟨hp, _⟩, _⟩, _⟩ := hc
      simp only [Option.some.injEq] at hw
      subst hw
      rw [cs_feStep_new, cs_feStep_new]
      obtain ⟨he, _⟩ := cs_rel_ensure h k
      apply cs_rel_newCore he
      intro s hs; subst hs; exact hp
    · simp at hw
  | evt k p vals =>
    simp only [wfStep] at hw
    split at hw
    · rename_i hc
      simp only [Bool.and_eq_true, decide_eq_true_eq] at hc
      obtain ⟨⟨⟨hp, _⟩, _⟩, _⟩ := hc
      simp only [Option.some.injEq] at hw
      subst hw
      rw [cs_feStep_evt, cs_feStep_evt]
      obtain ⟨he, _⟩ := cs_rel_ensure h k
      apply cs_rel_evtCore he
      intro s hs; subst hs; exact hp
    · simp at hw
  | record s vals =>
    simp only [wfStep] at hw
    split at hw
    · rename_i hc
      simp only [Bool.and_eq_true, decide_eq_true_eq] at hc
      obtain ⟨⟨hl, _⟩, _⟩ := hc
      simp only [Option.some.injEq] at hw
      subst hw
      obtain ⟨h1, h2, h3⟩ := h
      cases hh : (fe1.handles[s]?).join with
      | none =>
        have hh2 : (fe2.handles[s]?).join = none := by rw [← h1]; exact hh
        simp only [feStep, FE.handleSite, hh, hh2]
        exact ⟨h1, h2, h3⟩
      | some idk =>
        obtain ⟨id, k⟩ := idk
        have hh2 : (fe2.handles[s]?).join = some (id, k) := by rw [← h1]; exact hh
        simp only [feStep, FE.handleSite, hh, hh2]
        refine ⟨h1, h2, ?_⟩
        show cs_FInv filters global sites live _ fe1.handles
          { fe2.sub with calls := .record id (fieldsOf (sites.getD k default) vals) :: fe2.sub.calls }
        exact cs_FInv_call _ h3 (by intros; simp) (by intros; simp) (by intros; simp)
          (cs_sim_record h3.w id _ (cs_FInv_live h3 hl hh).2)
    · simp at hw
  | fol a b =>
    simp only [wfStep] at hw
    split at hw
    · rename_i hc
      simp only [Bool.and_eq_true] at hc
      obtain ⟨hla, hlb⟩ := hc
      simp only [Option.some.injEq] at hw
      subst hw
      obtain ⟨h1, h2, h3⟩ := h
      cases hha : (fe1.handles[a]?).join with
      | none =>
        have hha2 : (fe2.handles[a]?).join = none := by rw [← h1]; exact hha
        simp only [feStep, FE.handle, FE.handleSite, hha, hha2, Option.map_none]
        exact ⟨h1, h2, h3⟩
      | some idk =>
        obtain ⟨ia, ka⟩ := idk
        have hha2 : (fe2.handles[a]?).join = some (ia, ka) := by rw [← h1]; exact hha
        cases hhb : (fe1.handles[b]?).join with
        | none =>
          have hhb2 : (fe2.handles[b]?).join = none := by rw [← h1]; exact hhb
          simp only [feStep, FE.handle, FE.handleSite, hha, hha2, hhb, hhb2, Option.map_none, Option.map_some]
          exact ⟨h1, h2, h3⟩
        | some idk2 =>
          obtain ⟨ib, kb⟩ := idk2
          have hhb2 : (fe2.handles[b]?).join = some (ib, kb) := by rw [← h1]; exact hhb
          simp only [feStep, FE.handle, FE.handleSite, hha, hha2, hhb, hhb2, Option.map_some]
          refine ⟨h1, h2, ?_⟩
          show cs_FInv filters global sites live _ fe1.handles
            { fe2.sub with calls := .follows ia ib :: fe2.sub.calls }
          exact cs_FInv_call _ h3 (by intros; simp) (by intros; simp) (by intros; simp)
            (cs_sim_follows h3.w ia ib (cs_FInv_live h3 hla hha).2 (cs_FInv_live h3 hlb hhb).2)
    · simp at hw
  | ent s =>
    simp only [wfStep] at hw
    split at hw
    · rename_i hl
      simp only [Option.some.injEq] at hw
      subst hw
      obtain ⟨h1, h2, h3⟩ := h
      cases hh : (fe1.handles[s]?).join with
      | none =>
        have hh2 : (fe2.handles[s]?).join = none := by rw [← h1]; exact hh
        simp only [feStep, FE.handle, FE.handleSite, hh, hh2, Option.map_none]
        exact ⟨h1, h2, h3⟩
      | some idk =>
        obtain ⟨id, k⟩ := idk
        have hh2 : (fe2.handles[s]?).join = some (id, k) := by rw [← h1]; exact hh
        simp only [feStep, FE.handle, FE.handleSite, hh, hh2, Option.map_some]
        refine ⟨h1, h2, ?_⟩
        show cs_FInv filters global sites live _ fe1.handles
          { fe2.sub with calls := .enter id :: fe2.sub.calls }
        exact cs_FInv_call _ h3 (by intros; simp) (by intros; simp) (by intros; simp)
          (cs_sim_enter h3.w id (cs_FInv_live h3 hl hh).2)
    · simp at hw
  | ext s =>
    simp only [wfStep] at hw
    split at hw
    · rename_i hc
      simp only [Bool.and_eq_true] at hc
      obtain ⟨hl, _⟩ := hc
      simp only [Option.some.injEq] at hw
      subst hw
      obtain ⟨h1, h2, h3⟩ := h
      cases hh : (fe1.handles[s]?).join with
      | none =>
        have hh2 : (fe2.handles[s]?).join = none := by rw [← h1]; exact hh
        simp only [feStep, FE.handle, FE.handleSite, hh, hh2, Option.map_none]
        exact ⟨h1, h2, h3⟩
      | some idk =>
        obtain ⟨id, k⟩ := idk
        have hh2 : (fe2.handles[s]?).join = some (id, k) := by rw [← h1]; exact hh
        simp only [feStep, FE.handle, FE.handleSite, hh, hh2, Option.map_some]
        refine ⟨h1, h2, ?_⟩
        show cs_FInv filters global sites live _ fe1.handles
          { fe2.sub with calls := .exit id :: fe2.sub.calls }
        exact cs_FInv_call _ h3 (by intros; simp) (by intros; simp) (by intros; simp)
          (cs_sim_exit h3.w id (cs_FInv_live h3 hl hh).1)
    · simp at hw
  | cln s =>
    simp only [wfStep] at hw
    split at hw
    · rename_i hl
      simp only [Option.some.injEq] at hw
      subst hw
      obtain ⟨h1, h2, h3⟩ := h
      cases hh : (fe1.handles[s]?).join with
      | none =>
        have hh2 : (fe2.handles[s]?).join = none := by rw [← h1]; exact hh
        simp only [feStep, FE.handleSite, hh, hh2]
        refine ⟨by simp [h1], h2, ?_⟩
        have hcnt : ∀ id, cs_liveCnt (live ++ [true]) (fe1.handles ++ [none]) id = cs_liveCnt live fe1.handles id := by
          intro id
          rw [cs_liveCnt_append _ _ _ _ _ h3.len]
          simp
        refine ⟨by simp [h3.len], h3.nx, ?_, ?_⟩
        · exact cs_WInv_H_congr h3.w hcnt
        · intro id; rw [hcnt]; exact h3.hd id
      | some idk =>
        obtain ⟨id, k⟩ := idk
        have hh2 : (fe2.handles[s]?).join = some (id, k) := by rw [← h1]; exact hh
        simp only [feStep, FE.handleSite, hh, hh2]
        refine ⟨by simp [h1], h2, ?_⟩
        show cs_FInv filters global sites (live ++ [true]) _ (fe1.handles ++ [some (id, k)])
          { fe2.sub with calls := .clone id :: fe2.sub.calls }
        have hcnt : ∀ y, cs_liveCnt (live ++ [true]) (fe1.handles ++ [some (id, k)]) y =
            cs_liveCnt live fe1.handles y + if y = id then 1 else 0 := by
          intro y
          rw [cs_liveCnt_append _ _ _ _ _ h3.len]
          by_cases hy : y = id
          · subst hy; simp
          · have : ¬ id = y := fun h' => hy h'.symm
            simp [hy, this]
        refine ⟨by simp [h3.len], ?_, ?_, ?_⟩
        · simp only [List.reverse_cons]
          rw [cs_maxId_snoc]; exact h3.nx
        · simp only [List.reverse_cons]
          exact cs_sim_clone h3.w id (cs_FInv_live h3 hl hh).2 hcnt
        · intro y
          simp only [List.reverse_cons]
          rw [cs_handles_snoc, hcnt, h3.hd y]
          by_cases hy : id = y
          · subst hy; simp
          · have : ¬ y = id := fun h' => hy h'.symm
            simp [hy, this]
    · simp at hw
  | drp s =>
    simp only [wfStep] at hw
    split at hw
    · rename_i hl
      split at hw
      · simp at hw
      · simp only [Option.some.injEq] at hw
        subst hw
        obtain ⟨h1, h2, h3⟩ := h
        cases hh : (fe1.handles[s]?).join with
        | none =>
          have hh2 : (fe2.handles[s]?).join = none := by rw [← h1]; exact hh
          simp only [feStep, FE.handle, FE.handleSite, hh, hh2, Option.map_none]
          refine ⟨h1, h2, ?_⟩
          have hcnt : ∀ id, cs_liveCnt (live.set s false) fe1.handles id = cs_liveCnt live fe1.handles id := by
            intro id
            have := cs_liveCnt_set live fe1.handles s id hl h3.len
            rw [hh] at this
            simpa using this
          refine ⟨by simp [h3.len], h3.nx, ?_, ?_⟩
          · exact cs_WInv_H_congr h3.w hcnt
          · intro id; rw [hcnt]; exact h3.hd id
        | some idk =>
          obtain ⟨id, k⟩ := idk
          have hh2 : (fe2.handles[s]?).join = some (id, k) := by rw [← h1]; exact hh
          simp only [feStep, FE.handle, FE.handleSite, hh, hh2, Option.map_some]
          refine ⟨h1, h2, ?_⟩
          show cs_FInv filters global sites (live.set s false) _ fe1.handles
            { fe2.sub with calls := .tryClose id :: fe2.sub.calls }
          have hcnt : ∀ y, cs_liveCnt (live.set s false) fe1.handles y + (if y = id then 1 else 0) =
              cs_liveCnt live fe1.handles y := by
            intro y
            have := cs_liveCnt_set live fe1.handles s y hl h3.len
            rw [hh] at this
            simp only [Option.map_some, Option.some.injEq] at this
            by_cases hy : y = id
            · subst hy; simpa using this
            · have hne : ¬ id = y := fun h' => hy h'.symm
              simpa [hy, hne] using this
          refine ⟨by simp [h3.len], ?_, ?_, ?_⟩
          · simp only [List.reverse_cons]
            rw [cs_maxId_snoc]; exact h3.nx
          · simp only [List.reverse_cons]
            exact cs_sim_tryClose h3.w id (cs_FInv_live h3 hl hh).1 hcnt
          · intro y
            simp only [List.reverse_cons]
            rw [cs_handles_snoc, h3.hd y]
            have := hcnt y
            by_cases hy : id = y
            · subst hy
              simp only [if_true] at this ⊢
              omega
            · have hne : ¬ y = id := fun h' => hy h'.symm
              simp only [hne, if_false, hy, Nat.add_zero] at this ⊢
              rw [this]
    · simp at hw

theorem cs_rel_run {filters global sites} (ops : List POp) :
    ∀ (st : WfSt) (fe1 : FE CapWorld) (fe2 : FE LogState),
      cs_Rel filters global sites st.live fe1 fe2 → wfFrom sites st ops = true →
      ∃ live, cs_Rel filters global sites live (runProg (capSub 0) sites fe1 ops)
        (runProg (cs_logSubF global) sites fe2 ops) := by
  induction ops with
  | nil => intro st fe1 fe2 h _; exact ⟨st.live, h⟩
  | cons op ops ih =>
    intro st fe1 fe2 h hwf
    simp only [wfFrom] at hwf
    cases hw : wfStep sites st op with
    | none => simp [hw] at hwf
    | some st' =>
      simp only [hw] at hwf
      simp only [runProg, List.foldl_cons]
      exact ih st' _ _ (cs_rel_step st st' fe1 fe2 op h hw) hwf

end TT
