/-
  TT.Lemmas.RecvSimStep — one event: the receiver's verdict and new state against `Spec`.
-/
import TT.Lemmas.RecvSimInv

namespace TT

/-- Outcome of one event on related states: accepted with related successor states, or rejected
    with the first reason and the state untouched. -/
def StepOK (σ : Sigma) (sp : Spec) (e : Event) : Prop :=
  (sp.invalid e = [] ∧ ∃ σ', tryReceive σ e = .ok σ' ∧ InvCur σ' (sp.apply e)) ∨
  (∃ r rest, sp.invalid e = r :: rest ∧ tryReceive σ e = .err r σ)

theorem alive_get_of_contains {sp : Spec} {id : Nat} (ha : AMap.contains sp.alive id = true) :
    ∃ d, AMap.get sp.alive id = some d := by
  rw [AMap.contains_eq] at ha
  cases hg : AMap.get sp.alive id with
  | none => simp [hg] at ha
  | some d => exact ⟨d, rfl⟩

theorem step_newCallSite {σ : Sigma} {sp : Spec} (h : InvCur σ sp) (id : Nat) (d : CallSite) :
    StepOK σ sp (.newCallSite id d) := by
  left
  refine ⟨by trivial, _, rfl, ?_⟩
  unfold InvCur
  rw [onNewCallSite_r, onNewCallSite_arena]
  exact InvC.newCallSite h id d

theorem step_followsFrom {σ : Sigma} {sp : Spec} (h : InvCur σ sp) (id f : Nat) :
    StepOK σ sp (.followsFrom id f) := by
  unfold StepOK
  simp only [tryReceive, Spec.invalid, Spec.apply, reasonSpan, mapSpanId_eq σ.r h rfl rfl]
  by_cases ha : AMap.contains sp.alive id = true
  · by_cases hf : AMap.contains sp.alive f = true
    · simp only [ha, hf, if_true]
      left
      refine ⟨by trivial, ?_⟩
      cases AMap.get σ.r.loc id <;> cases AMap.get σ.r.loc f <;> exact ⟨_, rfl, h⟩
    · simp only [ha, hf, if_true]
      right
      exact ⟨_, _, rfl, rfl⟩
  · simp only [ha]
    right
    exact ⟨_, _, rfl, rfl⟩

theorem step_entered {σ : Sigma} {sp : Spec} (h : InvCur σ sp) (id : Nat) :
    StepOK σ sp (.entered id) := by
  unfold StepOK
  simp only [tryReceive, Spec.invalid, Spec.apply, reasonSpan, mapSpanId_eq σ.r h rfl rfl]
  by_cases ha : AMap.contains sp.alive id = true
  · simp only [ha, if_true]
    left
    refine ⟨by trivial, ?_⟩
    cases hl : AMap.get σ.r.loc id with
    | some hh => exact ⟨_, rfl, h⟩
    | none =>
      obtain ⟨d, hd⟩ := alive_get_of_contains ha
      have hd' : AMap.get σ.r.spans id = some d := (h.spansEq id).trans hd
      obtain ⟨idx, hidx⟩ := h.alive_known id d hd'
      obtain ⟨w', hh, hc, hw⟩ := createLocalSpan_ok σ.r σ.w d idx hidx
      simp only [hd', hc]
      refine ⟨_, rfl, ?_⟩
      unfold InvCur
      simp only [hw]
      exact InvC.insert_loc h id hh ha
  · simp only [ha]
    right
    exact ⟨_, _, rfl, rfl⟩

theorem step_exited {σ : Sigma} {sp : Spec} (h : InvCur σ sp) (id : Nat) :
    StepOK σ sp (.exited id) := by
  unfold StepOK
  simp only [tryReceive, Spec.invalid, Spec.apply, reasonSpan, mapSpanId_eq σ.r h rfl rfl]
  by_cases ha : AMap.contains sp.alive id = true
  · simp only [ha, if_true]
    left
    exact ⟨by trivial, _, rfl, h⟩
  · simp only [ha]
    right
    exact ⟨_, _, rfl, rfl⟩

theorem step_cloned {σ : Sigma} {sp : Spec} (h : InvCur σ sp) (id : Nat) :
    StepOK σ sp (.cloned id) := by
  unfold StepOK
  simp only [tryReceive, Spec.invalid, Spec.apply, reasonSpan]
  by_cases ha : AMap.contains sp.alive id = true
  · obtain ⟨d, hd⟩ := alive_get_of_contains ha
    have hd' : AMap.get σ.r.spans id = some d := (h.spansEq id).trans hd
    simp only [ha, if_true, hd, hd']
    left
    refine ⟨by trivial, _, rfl, ?_⟩
    exact InvC.insert_span h id _ (h.wf.known id d hd) (Nat.le_add_left 1 _)
  · have hn : AMap.get σ.r.spans id = none := by
      rw [h.spansEq id]
      rw [AMap.contains_eq] at ha
      cases hg : AMap.get sp.alive id with
      | none => rfl
      | some d => simp [hg] at ha
    simp only [ha, hn]
    right
    exact ⟨_, _, rfl, rfl⟩

theorem spans_none_of_not_alive {σ : Sigma} {sp : Spec} (h : InvCur σ sp) {id : Nat}
    (ha : ¬ AMap.contains sp.alive id = true) : AMap.get σ.r.spans id = none := by
  rw [h.spansEq id]
  rw [AMap.contains_eq] at ha
  cases hg : AMap.get sp.alive id with
  | none => rfl
  | some d => simp [hg] at ha

theorem step_dropped {σ : Sigma} {sp : Spec} (h : InvCur σ sp) (id : Nat) :
    StepOK σ sp (.dropped id) := by
  unfold StepOK
  simp only [tryReceive, Spec.invalid, Spec.apply, reasonSpan]
  by_cases ha : AMap.contains sp.alive id = true
  · obtain ⟨d, hd⟩ := alive_get_of_contains ha
    have hd' : AMap.get σ.r.spans id = some d := (h.spansEq id).trans hd
    have hrc := h.wf.rc id d hd
    have h0 : ¬ d.refCount = 0 := by omega
    simp only [ha, if_true, hd, hd', h0, if_false]
    left
    refine ⟨by trivial, ?_⟩
    by_cases h1 : d.refCount - 1 = 0
    · simp only [h1, ne_eq, not_true_eq_false, if_false, if_true]
      cases hl : AMap.get σ.r.loc id with
      | none =>
        refine ⟨_, rfl, ?_⟩
        have := InvC.erase_span h id
        rw [AMap.erase_of_get_none _ _ hl] at this
        exact this
      | some hh =>
        exact ⟨_, rfl, InvC.erase_span h id⟩
    · simp only [h1, ne_eq, not_false_eq_true, if_true, if_false]
      refine ⟨_, rfl, ?_⟩
      exact InvC.insert_span h id _ (h.wf.known id d hd) (by show 1 ≤ d.refCount - 1; omega)
  · simp only [ha, spans_none_of_not_alive h ha]
    right
    exact ⟨_, _, rfl, rfl⟩

theorem step_newEvent {σ : Sigma} {sp : Spec} (h : InvCur σ sp) (mt : Nat) (parent : Option Nat)
    (values : TVals) : StepOK σ sp (.newEvent mt parent values) := by
  unfold StepOK
  simp only [tryReceive, Spec.invalid, Spec.apply, reasonMany, reasonMeta, reasonOptSpan]
  by_cases hv : values.length > maxValues
  · simp only [hv, if_true]
    right
    exact ⟨_, _, rfl, rfl⟩
  · simp only [hv, if_false]
    by_cases hk : AMap.contains sp.known mt = true
    · have hs := h.mt_isSome mt
      rw [hk] at hs
      obtain ⟨idx, hidx⟩ := Option.isSome_iff_exists.1 hs
      simp only [hk, hidx, if_true, createValues_generateFields _ _ hv]
      cases parent with
      | none =>
        left
        exact ⟨by trivial, _, rfl, h⟩
      | some p =>
        simp only [reasonSpan, mapSpanId_eq σ.r h rfl rfl]
        by_cases hp : AMap.contains sp.alive p = true
        · simp only [hp, if_true]
          left
          exact ⟨by trivial, _, rfl, h⟩
        · simp only [hp]
          right
          exact ⟨_, _, rfl, rfl⟩
    · have hs := h.mt_isSome mt
      simp only [hk] at hs
      have hn : AMap.get σ.r.mt mt = none := by
        cases hg : AMap.get σ.r.mt mt with
        | none => rfl
        | some i => simp [hg] at hs
      simp only [hk, hn]
      right
      exact ⟨_, _, rfl, rfl⟩

theorem mt_none_of_not_known {σ : Sigma} {sp : Spec} (h : InvCur σ sp) {mt : Nat}
    (hk : ¬ AMap.contains sp.known mt = true) : AMap.get σ.r.mt mt = none := by
  have hs := h.mt_isSome mt
  simp only [hk] at hs
  cases hg : AMap.get σ.r.mt mt with
  | none => rfl
  | some i => simp [hg] at hs

theorem mt_some_of_known {σ : Sigma} {sp : Spec} (h : InvCur σ sp) {mt : Nat}
    (hk : AMap.contains sp.known mt = true) : ∃ idx, AMap.get σ.r.mt mt = some idx := by
  have hs := h.mt_isSome mt
  rw [hk] at hs
  exact Option.isSome_iff_exists.1 hs

theorem step_valuesRecorded {σ : Sigma} {sp : Spec} (h : InvCur σ sp) (id : Nat)
    (values : TVals) : StepOK σ sp (.valuesRecorded id values) := by
  unfold StepOK
  simp only [tryReceive, Spec.invalid, Spec.apply, reasonMany, reasonSpan,
    mapSpanId_eq σ.r h rfl rfl]
  by_cases hv : values.length > maxValues
  · simp only [hv, if_true]
    right
    exact ⟨_, _, rfl, rfl⟩
  · simp only [hv, if_false]
    by_cases ha : AMap.contains sp.alive id = true
    · obtain ⟨d, hd⟩ := alive_get_of_contains ha
      have hd' : AMap.get σ.r.spans id = some d := (h.spansEq id).trans hd
      obtain ⟨idx, hidx⟩ := h.alive_known id d hd'
      simp only [ha, if_true, hd]
      left
      refine ⟨by trivial, ?_⟩
      cases hl : AMap.get σ.r.loc id with
      | none =>
        simp only [hd']
        exact ⟨_, rfl, InvC.insert_span h id _ (h.wf.known id d hd) (h.wf.rc id d hd)⟩
      | some hh =>
        simp only [hd', hidx, createValues_generateFields _ _ hv]
        exact ⟨_, rfl, InvC.insert_span h id _ (h.wf.known id d hd) (h.wf.rc id d hd)⟩
    · simp only [ha]
      right
      exact ⟨_, _, rfl, rfl⟩

theorem step_newSpan {σ : Sigma} {sp : Spec} (h : InvCur σ sp) (id : Nat) (parent : Option Nat)
    (mt : Nat) (values : TVals) (hno : AMap.contains sp.alive id = false) :
    StepOK σ sp (.newSpan id parent mt values) := by
  unfold StepOK
  have hloc : AMap.contains σ.r.loc id = false := by
    rw [AMap.contains_eq]
    cases hg : AMap.get σ.r.loc id with
    | none => rfl
    | some hh =>
      have := h.locSub id hh hg
      rw [hno] at this
      cases this
  simp only [tryReceive, Spec.invalid, Spec.apply, reasonMany, reasonMeta, hloc]
  by_cases hv : values.length > maxValues
  · simp only [hv, if_true]
    right
    exact ⟨_, _, rfl, rfl⟩
  · simp only [hv, if_false, Bool.false_eq_true]
    by_cases hk : AMap.contains sp.known mt = true
    · obtain ⟨idx, hidx⟩ := mt_some_of_known h hk
      obtain ⟨w', hh, hc, hw⟩ := createLocalSpan_ok σ.r σ.w
        { mt := mt, parent := parent, refCount := 1, values := values } idx hidx
      have hinv : InvC σ.r.mt
          (AMap.insert σ.r.spans id { mt := mt, parent := parent, refCount := 1, values := values })
          (AMap.insert σ.r.loc id hh) w'.arena
          { sp with alive := AMap.insert sp.alive id { mt := mt, parent := parent, refCount := 1, values := values } } := by
        rw [hw]
        refine InvC.insert_loc (InvC.insert_span h id _ hk (Nat.le_refl 1)) id hh ?_
        simp [AMap.contains_insert]
      cases parent with
      | none =>
        simp only [hk, hc, if_true, reasonOptSpan]
        left
        exact ⟨by trivial, _, rfl, hinv⟩
      | some p =>
        simp only [reasonOptSpan, reasonSpan, hidx, mapSpanId_eq σ.r h rfl rfl, hk, if_true]
        by_cases hp : AMap.contains sp.alive p = true
        · simp only [hp, if_true, Except.map, hc]
          left
          exact ⟨by trivial, _, rfl, hinv⟩
        · simp only [hp, Except.map]
          right
          exact ⟨_, _, rfl, rfl⟩
    · have hn := mt_none_of_not_known h hk
      cases parent with
      | none =>
        simp only [hk, reasonOptSpan,
          createLocalSpan_err σ.r σ.w
            { mt := mt, parent := none, refCount := 1, values := values } hn]
        right
        exact ⟨_, _, rfl, rfl⟩
      | some p =>
        simp only [hk, hn]
        right
        exact ⟨_, _, rfl, rfl⟩

/-- Proviso of one event: a span id is not re-announced while alive. -/
def evOK (sp : Spec) : Event → Bool
  | .newSpan id _ _ _ => !AMap.contains sp.alive id
  | _ => true

theorem step_ev {σ : Sigma} {sp : Spec} (h : InvCur σ sp) (e : Event)
    (hno : evOK sp e = true) : StepOK σ sp e := by
  cases e with
  | newCallSite id d => exact step_newCallSite h id d
  | newSpan id parent mt values =>
    refine step_newSpan h id parent mt values ?_
    simpa [evOK] using hno
  | followsFrom id f => exact step_followsFrom h id f
  | entered id => exact step_entered h id
  | exited id => exact step_exited h id
  | cloned id => exact step_cloned h id
  | dropped id => exact step_dropped h id
  | valuesRecorded id values => exact step_valuesRecorded h id values
  | newEvent mt parent values => exact step_newEvent h mt parent values

end TT
