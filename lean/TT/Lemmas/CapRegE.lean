/-
  Helper lemmas for C16, part E: the simulation between layer `i` of the stack and the single
  layer, threaded through the front end.
-/
import TT.Lemmas.CapRegC
import TT.Lemmas.CapRegD

namespace TT

structure CrFSim (i : Nat) (fe fe₁ : FE CapWorld) : Prop where
  handles : fe.handles = fe₁.handles
  sim : CrSim i fe.sub fe₁.sub

theorem cr_handleSite_congr {fe fe₁ : FE CapWorld} (h : fe.handles = fe₁.handles) (s : Nat) :
    fe.handleSite s = fe₁.handleSite s := by
  simp [FE.handleSite, h]

theorem cr_handle_congr {fe fe₁ : FE CapWorld} (h : fe.handles = fe₁.handles) (s : Nat) :
    fe.handle s = fe₁.handle s := by
  simp [FE.handle, cr_handleSite_congr h]

theorem cr_resolve_congr {fe fe₁ : FE CapWorld} (h : fe.handles = fe₁.handles) (p : PParent) :
    resolveParent fe p = resolveParent fe₁ p := by
  cases p with
  | ctx => rfl
  | root => rfl
  | handle s => simp only [resolveParent, cr_handle_congr h]

theorem cr_ensure_fsim {i : Nat} {fe fe₁ : FE CapWorld} (sites : List CallSite) (k : Nat)
    (h : CrFSim i fe fe₁) :
    CrFSim i (ensureRegistered (capSub 0) sites fe k) (ensureRegistered (capSub 0) sites fe₁ k) := by
  refine ⟨?_, ?_⟩
  · rw [cr_ensure_handles, cr_ensure_handles]; exact h.handles
  · rw [cr_ensure_sub, cr_ensure_sub]; exact h.sim

theorem cr_enabled_sim {i : Nat} {w w₁ : CapWorld} (h : CrSim i w w₁) (site : CallSite) :
    (capSub 0).enabled w site = (capSub 0).enabled w₁ site := by
  show levelEnabled w.global site = levelEnabled w₁.global site
  rw [h.global]

theorem cr_fs_reg {i : Nat} {fe fe₁ : FE CapWorld} (sites : List CallSite) (k : Nat)
    (h : CrFSim i fe fe₁) :
    CrFSim i (feStep (capSub 0) sites fe (.reg k)) (feStep (capSub 0) sites fe₁ (.reg k)) :=
  ⟨h.handles, h.sim⟩

theorem cr_fs_new {i : Nat} {live : List Bool} {fe fe₁ : FE CapWorld} (sites : List CallSite)
    (k : Nat) (p : PParent) (vals : PVals) (hi : CrFInv live fe) (hi₁ : CrFInv live fe₁)
    (hp : ∀ s, p = .handle s → live.getD s false = true) (h : CrFSim i fe fe₁) :
    CrFSim i (feStep (capSub 0) sites fe (.new k p vals))
      (feStep (capSub 0) sites fe₁ (.new k p vals)) := by
  rw [cr_feStep_new, cr_feStep_new]
  have g := cr_ensure_finv sites k hi
  have g₁ := cr_ensure_finv sites k hi₁
  have hf := cr_ensure_fsim sites k h
  generalize ensureRegistered (capSub 0) sites fe k = fe' at g hf
  generalize ensureRegistered (capSub 0) sites fe₁ k = fe₁' at g₁ hf
  simp only
  rw [cr_enabled_sim hf.sim, ← cr_resolve_congr hf.handles p]
  split
  · obtain ⟨hid, _⟩ := cr_op_newSpan k (sites.getD k default) (resolveParent fe' p)
      (fieldsOf (sites.getD k default) vals) g.inv (cr_resolve_pos g p hp)
    obtain ⟨hid₁, _⟩ := cr_op_newSpan k (sites.getD k default) (resolveParent fe' p)
      (fieldsOf (sites.getD k default) vals) g₁.inv
      (by rw [cr_resolve_congr hf.handles p]; exact cr_resolve_pos g₁ p hp)
    refine ⟨?_, ?_⟩
    · show fe'.handles ++ _ = fe₁'.handles ++ _
      rw [hid, hid₁, hf.handles, hf.sim.reg.next]
    · exact cr_op_newSpan_sim k _ _ _ g.inv g₁.inv (cr_resolve_pos g p hp)
        (by rw [cr_resolve_congr hf.handles p]; exact cr_resolve_pos g₁ p hp) hf.sim
  · refine ⟨?_, hf.sim⟩
    show fe'.handles ++ _ = fe₁'.handles ++ _
    rw [hf.handles]

theorem cr_fs_record {i : Nat} {live : List Bool} {fe fe₁ : FE CapWorld} (sites : List CallSite)
    (s : Nat) (vals : PVals) (hi : CrFInv live fe) (hi₁ : CrFInv live fe₁)
    (hl : live.getD s false = true) (h : CrFSim i fe fe₁) :
    CrFSim i (feStep (capSub 0) sites fe (.record s vals))
      (feStep (capSub 0) sites fe₁ (.record s vals)) := by
  simp only [feStep]
  rw [← cr_handleSite_congr h.handles s]
  cases hs : fe.handleSite s with
  | none => exact h
  | some idk =>
    obtain ⟨id, k⟩ := idk
    refine ⟨h.handles, ?_⟩
    show CrSim i (if fe.sub.panicked then fe.sub else notifySpan fe.sub id _)
      (if fe₁.sub.panicked then fe₁.sub else notifySpan fe₁.sub id _)
    rw [cr_ite_np hi.inv.np, cr_ite_np hi₁.inv.np]
    exact cr_notify_sim _ hi.inv hi₁.inv.np
      (cr_inv_get hi.inv (cr_live_pos hi hl (cr_handle_of_site hs))) h.sim

theorem cr_fs_fol {i : Nat} {live : List Bool} {fe fe₁ : FE CapWorld} (sites : List CallSite)
    (a b : Nat) (hi : CrFInv live fe) (hi₁ : CrFInv live fe₁)
    (hl : live.getD a false = true) (h : CrFSim i fe fe₁) :
    CrFSim i (feStep (capSub 0) sites fe (.fol a b)) (feStep (capSub 0) sites fe₁ (.fol a b)) := by
  simp only [feStep]
  rw [← cr_handle_congr h.handles a, ← cr_handle_congr h.handles b]
  cases ha : fe.handle a with
  | none => exact h
  | some ida =>
    cases hb : fe.handle b with
    | none => exact h
    | some idb =>
      exact ⟨h.handles, cr_follows_sim idb hi.inv hi₁.inv.np
        (cr_inv_get hi.inv (cr_live_pos hi hl ha)) h.sim⟩

theorem cr_fs_ent {i : Nat} {live : List Bool} {fe fe₁ : FE CapWorld} (sites : List CallSite)
    (s : Nat) (hi : CrFInv live fe) (hi₁ : CrFInv live fe₁)
    (hl : live.getD s false = true) (h : CrFSim i fe fe₁) :
    CrFSim i (feStep (capSub 0) sites fe (.ent s)) (feStep (capSub 0) sites fe₁ (.ent s)) := by
  simp only [feStep]
  rw [← cr_handle_congr h.handles s]
  cases hs : fe.handle s with
  | none => exact h
  | some id =>
    exact ⟨h.handles, cr_op_enter_sim hi.inv hi₁.inv (cr_live_pos hi hl hs)
      (cr_live_pos hi₁ hl (by rw [← cr_handle_congr h.handles s]; exact hs)) h.sim⟩

theorem cr_fs_ext {i : Nat} {live : List Bool} {fe fe₁ : FE CapWorld} (sites : List CallSite)
    (s : Nat) (hi : CrFInv live fe) (hi₁ : CrFInv live fe₁)
    (hl : live.getD s false = true) (h : CrFSim i fe fe₁) :
    CrFSim i (feStep (capSub 0) sites fe (.ext s)) (feStep (capSub 0) sites fe₁ (.ext s)) := by
  simp only [feStep]
  rw [← cr_handle_congr h.handles s]
  cases hs : fe.handle s with
  | none => exact h
  | some id =>
    exact ⟨h.handles, cr_op_exit_sim hi.inv hi₁.inv (cr_live_pos hi hl hs) h.sim⟩

theorem cr_fs_cln {i : Nat} {live : List Bool} {fe fe₁ : FE CapWorld} (sites : List CallSite)
    (s : Nat) (hi : CrFInv live fe) (hi₁ : CrFInv live fe₁)
    (hl : live.getD s false = true) (h : CrFSim i fe fe₁) :
    CrFSim i (feStep (capSub 0) sites fe (.cln s)) (feStep (capSub 0) sites fe₁ (.cln s)) := by
  simp only [feStep]
  rw [← cr_handleSite_congr h.handles s]
  cases hs : fe.handleSite s with
  | none =>
    refine ⟨?_, h.sim⟩
    show fe.handles ++ _ = fe₁.handles ++ _
    rw [h.handles]
  | some idk =>
    obtain ⟨id, k⟩ := idk
    refine ⟨?_, cr_op_clone_sim hi.inv hi₁.inv.np
      (cr_live_pos hi hl (cr_handle_of_site hs)) h.sim⟩
    show fe.handles ++ _ = fe₁.handles ++ _
    rw [h.handles]

theorem cr_fs_drp {i : Nat} {live : List Bool} {fe fe₁ : FE CapWorld} (sites : List CallSite)
    (s : Nat) (hi : CrFInv live fe) (hi₁ : CrFInv live fe₁)
    (hl : live.getD s false = true) (h : CrFSim i fe fe₁) :
    CrFSim i (feStep (capSub 0) sites fe (.drp s)) (feStep (capSub 0) sites fe₁ (.drp s)) := by
  simp only [feStep]
  rw [← cr_handle_congr h.handles s]
  cases hs : fe.handle s with
  | none => exact h
  | some id =>
    refine ⟨h.handles, ?_⟩
    have key : ∀ (fe2 : FE CapWorld), CrFInv live fe2 → fe2.handle s = some id →
        CrInv (fun x => cr_hcount (live.set s false) fe2.handles x + if x = id then 1 else 0)
          fe2.sub := by
      intro fe2 h2 hs2
      refine cr_inv_congr h2.inv ?_
      intro x
      have := cr_hcount_set live fe2.handles s x hl h2.len
      have hh : ((fe2.handles[s]?).join).map (·.1) = some id := hs2
      rw [hh] at this
      rw [← this]
      by_cases hx : x = id
      · subst hx; simp
      · have : ¬ id = x := fun h' => hx h'.symm
        simp [hx, this]
    exact cr_op_tryClose_sim (key fe hi hs)
      (key fe₁ hi₁ (by rw [← cr_handle_congr h.handles s]; exact hs)) h.sim

theorem cr_fs_evt {i : Nat} {live : List Bool} {fe fe₁ : FE CapWorld} (sites : List CallSite)
    (k : Nat) (p : PParent) (vals : PVals) (hi : CrFInv live fe) (hi₁ : CrFInv live fe₁)
    (h : CrFSim i fe fe₁) :
    CrFSim i (feStep (capSub 0) sites fe (.evt k p vals))
      (feStep (capSub 0) sites fe₁ (.evt k p vals)) := by
  rw [cr_feStep_evt, cr_feStep_evt]
  have g := cr_ensure_finv sites k hi
  have g₁ := cr_ensure_finv sites k hi₁
  have hf := cr_ensure_fsim sites k h
  generalize ensureRegistered (capSub 0) sites fe k = fe' at g hf
  generalize ensureRegistered (capSub 0) sites fe₁ k = fe₁' at g₁ hf
  simp only
  rw [cr_enabled_sim hf.sim, ← cr_resolve_congr hf.handles p]
  split
  · exact ⟨hf.handles, cr_event_sim k _ _ _ g.inv g₁.inv.np hf.sim⟩
  · exact hf

theorem cr_fsim_init (filters : List LFilter) (global : Option Nat) (i : Nat)
    (hi : i < filters.length) :
    CrFSim i { sub := CapWorld.init filters global }
      { sub := CapWorld.init [filters.getD i .all] global } := by
  refine ⟨rfl, ⟨rfl, rfl, fun id => ?_⟩, rfl, ?_, rfl, hi, by simpa [CapWorld.init] using hi,
    by simp [CapWorld.init]⟩
  · simp [CapWorld.init, AMap.get, CrSpanRel]
  · simp [CapWorld.init, List.getD_eq_getElem?_getD, hi]

end TT
