/-
  The reference-count invariant of the registry model (`Reg`), stated on a functional view
  (stack of thread 0, `next`, lookup function), and its preservation by the registry steps.

    refs(id) = live handles(id) + [id is on the stack] + existing children(id) (+ 1 if a
    release of `id` is pending)
-/
import TT.Lemmas.CapSpecDefs
import TT.Lemmas.CapSpecBasic

namespace TT

/-! ### The span stack -/

def cs_onStack (stk : List (Nat × Bool)) (id : Nat) : Bool := stk.any (·.1 == id)

def cs_StackOK : List (Nat × Bool) → Prop
  | [] => True
  | (x, d) :: rest => d = cs_onStack rest x ∧ cs_StackOK rest

theorem cs_onStack_cons (x : Nat) (d : Bool) (rest : List (Nat × Bool)) (id : Nat) :
    cs_onStack ((x, d) :: rest) id = (x == id || cs_onStack rest id) := by
  simp [cs_onStack]

theorem cs_onStack_pop_ne (s : List (Nat × Bool)) (id y : Nat) (h : y ≠ id) :
    cs_onStack (stackPop s id) y = cs_onStack s y := by
  induction s with
  | nil => rfl
  | cons e s ih =>
    obtain ⟨x, d⟩ := e
    simp only [stackPop]
    by_cases hx : x = id
    · subst hx
      have : (x == y) = false := by simpa using fun h' => h h'.symm
      simp [cs_onStack_cons, this]
    · simp [hx, cs_onStack_cons, ih]

theorem cs_stackOK_pop (s : List (Nat × Bool)) (id : Nat) (h : cs_StackOK s) :
    cs_StackOK (stackPop s id) := by
  induction s with
  | nil => exact h
  | cons e s ih =>
    obtain ⟨x, d⟩ := e
    simp only [stackPop]
    by_cases hx : x = id
    · simp [hx]; exact h.2
    · simp only [hx, if_false]
      exact ⟨by rw [cs_onStack_pop_ne s id x hx]; exact h.1, ih h.2⟩

theorem cs_find_pop (s : List (Nat × Bool)) (id : Nat) (hok : cs_StackOK s) :
    match s.find? (·.1 == id) with
    | none => cs_onStack s id = false ∧ stackPop s id = s
    | some e => cs_onStack s id = true ∧ cs_onStack (stackPop s id) id = e.2 := by
  induction s with
  | nil => simp [cs_onStack, stackPop]
  | cons e s ih =>
    obtain ⟨x, d⟩ := e
    by_cases hx : x = id
    · subst hx
      simp only [List.find?_cons, beq_self_eq_true, stackPop, if_true, cs_onStack_cons,
        Bool.true_or, true_and]
      exact hok.1.symm
    · have hb : (x == id) = false := by simpa using hx
      simp only [List.find?_cons, hb, stackPop, hx, if_false, cs_onStack_cons, Bool.false_or]
      have := ih hok.2
      split
      · rename_i hf
        rw [hf] at this
        simp only at this
        exact ⟨this.1, by rw [this.2]⟩
      · rename_i e hf
        rw [hf] at this
        exact this

theorem cs_stackCurrent_mem {s : List (Nat × Bool)} {q : Nat} (h : stackCurrent s = some q) :
    cs_onStack s q = true := by
  induction s with
  | nil => simp [stackCurrent] at h
  | cons e s ih =>
    obtain ⟨x, d⟩ := e
    simp only [stackCurrent] at h
    rw [cs_onStack_cons]
    split at h
    · simp [ih h]
    · simp only [Option.some.injEq] at h
      simp [h]

/-! ### Functional view of the span table -/

def cs_upd (g : Nat → Option RegSpan) (id : Nat) (v : Option RegSpan) : Nat → Option RegSpan :=
  fun y => if y = id then v else g y

theorem cs_upd_same (g : Nat → Option RegSpan) (id : Nat) (v : Option RegSpan) : cs_upd g id v id = v := by
  simp [cs_upd]

theorem cs_upd_ne (g : Nat → Option RegSpan) (id : Nat) (v : Option RegSpan) {y : Nat} (h : y ≠ id) :
    cs_upd g id v y = g y := by
  simp [cs_upd, h]

theorem cs_get_insert_upd (m : AMap Nat RegSpan) (id : Nat) (v : RegSpan) :
    (AMap.insert m id v).get = cs_upd m.get id (some v) := by
  funext y
  simp [cs_upd, sd_get_insert]

theorem cs_get_erase_upd (m : AMap Nat RegSpan) (id : Nat) :
    (AMap.erase m id).get = cs_upd m.get id none := by
  funext y
  simp [cs_upd, sd_get_erase]

def cs_isChild (g : Nat → Option RegSpan) (id c : Nat) : Bool :=
  match g c with
  | some sc => decide (sc.parent = some id)
  | none => false

def cs_childCnt (next : Nat) (g : Nat → Option RegSpan) (id : Nat) : Nat :=
  (List.range next).countP (cs_isChild g id)

theorem cs_childCnt_congr (next : Nat) (g g' : Nat → Option RegSpan) (id : Nat)
    (h : ∀ c, c < next → (g' c).map (·.parent) = (g c).map (·.parent)) :
    cs_childCnt next g' id = cs_childCnt next g id := by
  apply cs_countP_range_congr
  intro c hc
  have := h c hc
  unfold cs_isChild
  cases h1 : g' c <;> cases h2 : g c <;> simp [h1, h2] at this ⊢
  rw [this]

theorem cs_childCnt_upd_same (next : Nat) (g : Nat → Option RegSpan) (c0 : Nat) (s s' : RegSpan)
    (hg : g c0 = some s) (hp : s'.parent = s.parent) (id : Nat) :
    cs_childCnt next (cs_upd g c0 (some s')) id = cs_childCnt next g id := by
  apply cs_childCnt_congr
  intro c _
  by_cases hc : c = c0
  · subst hc; simp [cs_upd, hg, hp]
  · simp [cs_upd, hc]

theorem cs_childCnt_erase (next : Nat) (g : Nat → Option RegSpan) (c0 : Nat) (s : RegSpan)
    (hg : g c0 = some s) (hlt : c0 < next) (id : Nat) :
    cs_childCnt next (cs_upd g c0 none) id + (if s.parent = some id then 1 else 0) =
      cs_childCnt next g id := by
  by_cases hp : s.parent = some id
  · rw [if_pos hp]
    unfold cs_childCnt
    symm
    apply cs_countP_range_on next c0 _ _ hlt
    · simp [cs_isChild, cs_upd]
    · simp [cs_isChild, hg, hp]
    · intro c hc
      simp [cs_isChild, cs_upd, hc]
  · rw [if_neg hp, Nat.add_zero]
    apply cs_countP_range_congr
    intro c _
    by_cases hc : c = c0
    · subst hc; simp [cs_isChild, cs_upd, hg, hp]
    · simp [cs_isChild, cs_upd, hc]

theorem cs_childCnt_new (next : Nat) (g : Nat → Option RegSpan) (s : RegSpan) (id : Nat) :
    cs_childCnt (next + 1) (cs_upd g next (some s)) id =
      cs_childCnt next g id + (if s.parent = some id then 1 else 0) := by
  unfold cs_childCnt
  rw [List.range_succ, List.countP_append, List.countP_singleton]
  congr 1
  · apply cs_countP_range_congr
    intro c hc
    have : c ≠ next := by omega
    simp [cs_isChild, cs_upd, this]
  · simp [cs_isChild, cs_upd]

theorem cs_childCnt_zero {next : Nat} {g : Nat → Option RegSpan} {id : Nat}
    (h : cs_childCnt next g id = 0) {c : Nat} {sc : RegSpan} (hc : c < next) (hg : g c = some sc) :
    sc.parent ≠ some id := by
  have := cs_countP_range_zero h c hc
  simpa [cs_isChild, hg] using this

theorem cs_childCnt_pos {next : Nat} {g : Nat → Option RegSpan} {id : Nat}
    (h : 0 < cs_childCnt next g id) : ∃ c sc, c < next ∧ g c = some sc ∧ sc.parent = some id := by
  obtain ⟨c, hc, hp⟩ := cs_countP_range_pos h
  unfold cs_isChild at hp
  cases hg : g c with
  | none => simp [hg] at hp
  | some sc => exact ⟨c, sc, hc, hg, by simpa [hg] using hp⟩

/-! ### The invariant -/

/-- `x` : a release of span `x` is pending (its count is one too high). -/
structure cs_RI (stk : List (Nat × Bool)) (next : Nat) (g : Nat → Option RegSpan)
    (par : AMap Nat (Option Nat)) (H : Nat → Nat) (x : Option Nat) : Prop where
  sok : cs_StackOK stk
  ex : ∀ id s, g id = some s → 1 ≤ id ∧ id < next ∧ s.parent = (par.get id).join ∧ 1 ≤ s.refs ∧
    s.refs = H id + (if cs_onStack stk id then 1 else 0) + cs_childCnt next g id +
      (if x = some id then 1 else 0)
  pr : ∀ id s p, g id = some s → s.parent = some p → p < id ∧ (g p).isSome
  nex : ∀ id, g id = none → H id = 0 ∧ cs_onStack stk id = false
  pend : ∀ id, x = some id → (g id).isSome

theorem cs_RI_lt {stk next g par H x} (h : cs_RI stk next g par H x) {id : Nat}
    (hid : next ≤ id) : g id = none := by
  cases hg : g id with
  | none => rfl
  | some s => have := (h.ex id s hg).2.1; omega

/-- Only `ext` changes. -/
theorem cs_RI_congr {stk next g g' par H x} (h : cs_RI stk next g par H x)
    (hg : ∀ y, (g' y).map (fun s => (s.parent, s.refs)) = (g y).map (fun s => (s.parent, s.refs))) :
    cs_RI stk next g' par H x := by
  have hcc : ∀ id, cs_childCnt next g' id = cs_childCnt next g id := by
    intro id
    apply cs_childCnt_congr
    intro c _
    have := hg c
    cases h1 : g' c <;> cases h2 : g c <;> simp [h1, h2] at this ⊢
    exact this.1
  have hsome : ∀ y s', g' y = some s' → ∃ s, g y = some s ∧ s.parent = s'.parent ∧ s.refs = s'.refs := by
    intro y s' hy
    have := hg y
    cases h2 : g y with
    | none => simp [hy, h2] at this
    | some s =>
      simp [hy, h2] at this
      exact ⟨s, rfl, this.1.symm, this.2.symm⟩
  have hnone : ∀ y, g' y = none → g y = none := by
    intro y hy
    have := hg y
    cases h2 : g y with
    | none => rfl
    | some s => simp [hy, h2] at this
  have hisSome : ∀ y, (g y).isSome → (g' y).isSome := by
    intro y hy
    cases h1 : g' y with
    | none => rw [hnone y h1] at hy; exact hy
    | some _ => rfl
  refine ⟨h.sok, ?_, ?_, ?_, ?_⟩
  · intro id s' hs'
    obtain ⟨s, hs, hp, hr⟩ := hsome id s' hs'
    rw [hcc, ← hp, ← hr]
    exact h.ex id s hs
  · intro id s' p hs' hp'
    obtain ⟨s, hs, hp, _⟩ := hsome id s' hs'
    have := h.pr id s p hs (by rw [hp]; exact hp')
    exact ⟨this.1, hisSome p this.2⟩
  · intro id hid
    exact h.nex id (hnone id hid)
  · intro id hx
    exact hisSome id (h.pend id hx)

/-- Replace the entry of `id` keeping its parent; all counts are re-established by `hrefs`. -/
theorem cs_RI_set {stk stk' next g par H H' x x'} (h : cs_RI stk next g par H x)
    {id : Nat} {s s' : RegSpan} (hg : g id = some s) (hp : s'.parent = s.parent)
    (hsok : cs_StackOK stk')
    (hid : 1 ≤ s'.refs ∧ s'.refs = H' id + (if cs_onStack stk' id then 1 else 0) +
      cs_childCnt next g id + (if x' = some id then 1 else 0))
    (hoth : ∀ y, y ≠ id → H' y = H y ∧ cs_onStack stk' y = cs_onStack stk y ∧
      ((x' = some y) ↔ (x = some y)))
    (hx' : ∀ y, x' = some y → y = id ∨ x = some y) :
    cs_RI stk' next (cs_upd g id (some s')) par H' x' := by
  have hcc : ∀ y, cs_childCnt next (cs_upd g id (some s')) y = cs_childCnt next g y :=
    fun y => cs_childCnt_upd_same next g id s s' hg hp y
  refine ⟨hsok, ?_, ?_, ?_, ?_⟩
  · intro y sy hy
    by_cases hyi : y = id
    · subst hyi
      rw [cs_upd_same] at hy
      cases hy
      have := h.ex y s hg
      rw [hcc]
      exact ⟨this.1, this.2.1, by rw [hp]; exact this.2.2.1, hid.1, hid.2⟩
    · rw [cs_upd_ne _ _ _ hyi] at hy
      have := h.ex y sy hy
      obtain ⟨h1, h2, h3⟩ := hoth y hyi
      rw [hcc, h1, h2]
      refine ⟨this.1, this.2.1, this.2.2.1, this.2.2.2.1, ?_⟩
      have e : (if x' = some y then 1 else 0) = (if x = some y then 1 else 0) := by
        by_cases hxy : x = some y
        · rw [if_pos hxy, if_pos (h3.mpr hxy)]
        · rw [if_neg hxy, if_neg (fun h' => hxy (h3.mp h'))]
      rw [e]
      exact this.2.2.2.2
  · intro y sy p hy hpy
    have hsome : ∀ q, (g q).isSome → (cs_upd g id (some s') q).isSome := by
      intro q hq
      by_cases hqi : q = id
      · subst hqi; simp [cs_upd]
      · rw [cs_upd_ne _ _ _ hqi]; exact hq
    by_cases hyi : y = id
    · subst hyi
      rw [cs_upd_same] at hy
      cases hy
      have := h.pr y s p hg (by rw [← hp]; exact hpy)
      exact ⟨this.1, hsome p this.2⟩
    · rw [cs_upd_ne _ _ _ hyi] at hy
      have := h.pr y sy p hy hpy
      exact ⟨this.1, hsome p this.2⟩
  · intro y hy
    by_cases hyi : y = id
    · subst hyi; simp [cs_upd] at hy
    · rw [cs_upd_ne _ _ _ hyi] at hy
      obtain ⟨h1, h2, _⟩ := hoth y hyi
      rw [h1, h2]
      exact h.nex y hy
  · intro y hy
    by_cases hyi : y = id
    · subst hyi; simp [cs_upd]
    · rw [cs_upd_ne _ _ _ hyi]
      rcases hx' y hy with h1 | h1
      · exact absurd h1 hyi
      · exact h.pend y h1

/-- `clone_span`: one more handle. -/
theorem cs_RI_clone {stk next g par H H'} (h : cs_RI stk next g par H none) {id : Nat} {s : RegSpan}
    (hg : g id = some s) (hH : ∀ y, H' y = H y + if y = id then 1 else 0) :
    cs_RI stk next (cs_upd g id (some { s with refs := s.refs + 1 })) par H' none := by
  have := h.ex id s hg
  refine cs_RI_set (s' := { s with refs := s.refs + 1 }) h hg rfl h.sok ?_ ?_ ?_
  · simp only [hH id, if_true]
    simp only [reduceCtorEq, if_false] at this ⊢
    omega
  · intro y hy
    simp [hH y, hy]
  · intro y hy; simp at hy

/-- Stack or handle bookkeeping changes without touching the table. -/
theorem cs_RI_same {stk stk' next g par H H' x x'} (h : cs_RI stk next g par H x)
    (hsok : cs_StackOK stk')
    (hcnt : ∀ y s, g y = some s →
      H' y + (if cs_onStack stk' y then 1 else 0) + (if x' = some y then 1 else 0) =
      H y + (if cs_onStack stk y then 1 else 0) + (if x = some y then 1 else 0))
    (hnex : ∀ y, g y = none → H' y = 0 ∧ cs_onStack stk' y = false)
    (hx' : ∀ y, x' = some y → (g y).isSome) :
    cs_RI stk' next g par H' x' := by
  refine ⟨hsok, ?_, h.pr, hnex, hx'⟩
  intro y s hy
  have := h.ex y s hy
  have h2 := hcnt y s hy
  refine ⟨this.1, this.2.1, this.2.2.1, this.2.2.2.1, ?_⟩
  omega

/-- The last reference is released: the span disappears and its parent gets a pending release. -/
theorem cs_RI_erase {stk next g par H} {id : Nat} (h : cs_RI stk next g par H (some id))
    {s : RegSpan} (hg : g id = some s) (hr : ¬ s.refs > 1) :
    cs_RI stk next (cs_upd g id none) par H s.parent := by
  have hex := h.ex id s hg
  simp only [if_true] at hex
  have hH : H id = 0 := by omega
  have hS : cs_onStack stk id = false := by
    cases hb : cs_onStack stk id with
    | false => rfl
    | true => rw [hb] at hex; simp only [if_true] at hex; omega
  have hC : cs_childCnt next g id = 0 := by omega
  have hcc : ∀ y, cs_childCnt next (cs_upd g id none) y + (if s.parent = some y then 1 else 0) =
      cs_childCnt next g y := fun y => cs_childCnt_erase next g id s hg hex.2.1 y
  refine ⟨h.sok, ?_, ?_, ?_, ?_⟩
  · intro y sy hy
    have hyi : y ≠ id := by
      intro he; subst he; simp [cs_upd] at hy
    rw [cs_upd_ne _ _ _ hyi] at hy
    have := h.ex y sy hy
    have hne : ¬ some id = some y := by simpa using fun h' => hyi h'.symm
    rw [if_neg hne] at this
    refine ⟨this.1, this.2.1, this.2.2.1, this.2.2.2.1, ?_⟩
    have := hcc y
    omega
  · intro y sy p hy hpy
    have hyi : y ≠ id := by
      intro he; subst he; simp [cs_upd] at hy
    rw [cs_upd_ne _ _ _ hyi] at hy
    have := h.pr y sy p hy hpy
    have hpi : p ≠ id := by
      intro he
      subst he
      exact cs_childCnt_zero hC (h.ex y sy hy).2.1 hy hpy
    rw [cs_upd_ne _ _ _ hpi]
    exact this
  · intro y hy
    by_cases hyi : y = id
    · subst hyi; exact ⟨hH, hS⟩
    · rw [cs_upd_ne _ _ _ hyi] at hy
      exact h.nex y hy
  · intro p hp
    have := h.pr id s p hg hp
    have hpi : p ≠ id := by omega
    rw [cs_upd_ne _ _ _ hpi]
    exact this.2

/-- `new_span`: the parent (if any) is cloned, the new span gets the next id. -/
theorem cs_RI_new {stk next g par H H'} (h : cs_RI stk next g par H none) (hn : 1 ≤ next)
    (parent : Option Nat) (g1 : Nat → Option RegSpan)
    (hg1 : match parent with
      | none => g1 = g
      | some p => ∃ sp, g p = some sp ∧ g1 = cs_upd g p (some { sp with refs := sp.refs + 1 }))
    (snew : RegSpan) (hsp : snew.parent = parent) (hsr : snew.refs = 1)
    (hH : ∀ y, H' y = H y + if y = next then 1 else 0) :
    cs_RI stk (next + 1) (cs_upd g1 next (some snew)) (par.insert next parent) H' none := by
  have hgn : g next = none := cs_RI_lt h (Nat.le_refl _)
  have hHn : H next = 0 := (h.nex next hgn).1
  have hSn : cs_onStack stk next = false := (h.nex next hgn).2
  -- facts about g1
  have hg1n : g1 next = none := by
    cases parent with
    | none => simp only at hg1; rw [hg1]; exact hgn
    | some p =>
      obtain ⟨sp, hsp', he⟩ := hg1
      rw [he]
      have : next ≠ p := by intro he'; rw [← he', hgn] at hsp'; cases hsp'
      rw [cs_upd_ne _ _ _ this]; exact hgn
  have hg1some : ∀ y s1, g1 y = some s1 → ∃ s, g y = some s ∧ s1.parent = s.parent ∧
      s1.refs = s.refs + (if parent = some y then 1 else 0) := by
    intro y s1 hy
    cases parent with
    | none =>
      simp only at hg1; rw [hg1] at hy
      exact ⟨s1, hy, rfl, by simp⟩
    | some p =>
      obtain ⟨sp, hsp', he⟩ := hg1
      rw [he] at hy
      by_cases hyp : y = p
      · subst hyp
        rw [cs_upd_same] at hy
        cases hy
        exact ⟨sp, hsp', rfl, by simp⟩
      · rw [cs_upd_ne _ _ _ hyp] at hy
        have : ¬ some p = some y := by simpa using fun h' => hyp h'.symm
        exact ⟨s1, hy, rfl, by simp [this]⟩
  have hg1none : ∀ y, g1 y = none → g y = none := by
    intro y hy
    cases parent with
    | none => simp only at hg1; rw [hg1] at hy; exact hy
    | some p =>
      obtain ⟨sp, hsp', he⟩ := hg1
      rw [he] at hy
      by_cases hyp : y = p
      · subst hyp; simp [cs_upd] at hy
      · rw [cs_upd_ne _ _ _ hyp] at hy; exact hy
  have hg1isSome : ∀ y, (g y).isSome → (g1 y).isSome := by
    intro y hy
    cases h1 : g1 y with
    | none => rw [hg1none y h1] at hy; exact hy
    | some _ => rfl
  have hcc1 : ∀ y, cs_childCnt next g1 y = cs_childCnt next g y := by
    intro y
    apply cs_childCnt_congr
    intro c _
    cases h1 : g1 c with
    | none => rw [hg1none c h1]
    | some s1 =>
      obtain ⟨s, hs, hp, _⟩ := hg1some c s1 h1
      rw [hs]; simp [hp]
  have hcc : ∀ y, cs_childCnt (next + 1) (cs_upd g1 next (some snew)) y =
      cs_childCnt next g y + (if parent = some y then 1 else 0) := by
    intro y
    rw [cs_childCnt_new, hcc1, hsp]
  refine ⟨h.sok, ?_, ?_, ?_, ?_⟩
  · intro y sy hy
    by_cases hyn : y = next
    · subst hyn
      rw [cs_upd_same] at hy
      cases hy
      refine ⟨hn, Nat.lt_succ_self _, ?_, by omega, ?_⟩
      · rw [hsp, sd_get_insert]; simp
      · rw [hcc, hH y, hHn, hSn, hsr]
        have hc0 : cs_childCnt y g y = 0 := by
          cases hc : cs_childCnt y g y with
          | zero => rfl
          | succ k =>
            obtain ⟨c, sc, hc1, hc2, hc3⟩ := cs_childCnt_pos (by omega : 0 < cs_childCnt y g y)
            have := (h.pr c sc y hc2 hc3).1
            omega
        have hpy : ¬ parent = some y := by
          intro he
          cases parent with
          | none => cases he
          | some p =>
            cases he
            obtain ⟨sp, hsp', _⟩ := hg1
            rw [hgn] at hsp'; cases hsp'
        simp [hc0, hpy]
    · rw [cs_upd_ne _ _ _ hyn] at hy
      obtain ⟨s, hs, hp, hr⟩ := hg1some y sy hy
      have := h.ex y s hs
      refine ⟨this.1, by omega, ?_, by omega, ?_⟩
      · rw [hp, sd_get_insert, if_neg hyn]; exact this.2.2.1
      · rw [hcc, hH y, if_neg hyn, hr]
        simp only [reduceCtorEq, if_false] at this ⊢
        omega
  · intro y sy p hy hpy
    have hsome : ∀ q, (g q).isSome → (cs_upd g1 next (some snew) q).isSome := by
      intro q hq
      by_cases hqn : q = next
      · subst hqn; simp [cs_upd]
      · rw [cs_upd_ne _ _ _ hqn]; exact hg1isSome q hq
    by_cases hyn : y = next
    · subst hyn
      rw [cs_upd_same] at hy
      cases hy
      rw [hsp] at hpy
      subst hpy
      obtain ⟨sp, hsp', _⟩ := hg1
      exact ⟨(h.ex p sp hsp').2.1, hsome p (by rw [hsp']; rfl)⟩
    · rw [cs_upd_ne _ _ _ hyn] at hy
      obtain ⟨s, hs, hp, _⟩ := hg1some y sy hy
      have := h.pr y s p hs (by rw [← hp]; exact hpy)
      exact ⟨this.1, hsome p this.2⟩
  · intro y hy
    by_cases hyn : y = next
    · subst hyn; simp [cs_upd] at hy
    · rw [cs_upd_ne _ _ _ hyn] at hy
      rw [hH y, if_neg hyn]
      exact h.nex y (hg1none y hy)
  · intro y hy; cases hy

end TT
