/-
  Helper lemmas for C16, part B: the world invariant `CrInv`, the per-layer callbacks, and
  preservation of the invariant by every subscriber call of `capSub 0`.
-/
import TT.Lemmas.CapRegA

namespace TT

theorem cr_ite_np {α : Type} {w : CapWorld} (h : w.panicked = false) (a b : α) :
    (if w.panicked then a else b) = b := by simp [h]

theorem cr_stack_mk (spans : AMap Nat RegSpan) (next : Nat) (stacks : AMap Nat (List (Nat × Bool)))
    (l : List (Nat × Bool)) :
    Reg.stack { spans := spans, next := next, stacks := AMap.insert stacks 0 l } 0 = l := by
  simp [Reg.stack, sd_get_insert]

theorem cr_get_insert_self {α : Type} (m : AMap Nat α) (k : Nat) (v : α) :
    (AMap.insert m k v).get k = some v := by rw [sd_get_insert, if_pos rfl]

/-! ### The invariant -/

def CrExtOK (spans : AMap Nat RegSpan) (storages : List Storage) : Prop :=
  ∀ id s i c, spans.get id = some s → s.ext.get i = some c → c < (storages.getD i {}).spans.length

/-- `hc x` = number of references to span `x` held from outside the registry and the stack
    (live handles, plus a pending release). -/
structure CrInv (hc : Nat → Nat) (w : CapWorld) : Prop where
  np : w.panicked = false
  len : w.storages.length = w.filters.length
  acc : CrRegAcc (fun x => hc x + cr_sc (w.reg.stack 0) x) w.reg.spans w.reg.next
  ext : CrExtOK w.reg.spans w.storages

theorem cr_inv_mono {hc hc' : Nat → Nat} {w : CapWorld} (h : CrInv hc w) (he : ∀ x, hc' x ≤ hc x) :
    CrInv hc' w :=
  ⟨h.np, h.len, cr_regacc_mono h.acc (fun x => Nat.add_le_add_right (he x) _), h.ext⟩

theorem cr_inv_congr {hc hc' : Nat → Nat} {w : CapWorld} (h : CrInv hc w) (he : ∀ x, hc' x = hc x) :
    CrInv hc' w := cr_inv_mono h (fun x => Nat.le_of_eq (he x))

theorem cr_inv_get {hc : Nat → Nat} {w : CapWorld} (h : CrInv hc w) {x : Nat} (hx : 0 < hc x) :
    ∃ s, w.reg.spans.get x = some s :=
  cr_regacc_get h.acc (x := x) (Nat.lt_of_lt_of_le hx (Nat.le_add_right _ _))

theorem cr_inv_get_stack {hc : Nat → Nat} {w : CapWorld} (h : CrInv hc w) {x : Nat}
    (hx : 0 < cr_sc (w.reg.stack 0) x) : ∃ s, w.reg.spans.get x = some s :=
  cr_regacc_get h.acc (x := x) (Nat.lt_of_lt_of_le hx (Nat.le_add_left _ _))

theorem cr_extok_insert {spans : AMap Nat RegSpan} {storages : List Storage} {id : Nat}
    {s s' : RegSpan} (h : CrExtOK spans storages) (hg : spans.get id = some s)
    (he : s'.ext = s.ext) : CrExtOK (spans.insert id s') storages := by
  intro x t i c ht hc
  rw [sd_get_insert] at ht
  split at ht
  · rename_i hx
    subst hx
    simp only [Option.some.injEq] at ht
    subst ht
    rw [he] at hc
    exact h x s i c hg hc
  · exact h x t i c ht hc

theorem cr_extok_erase {spans : AMap Nat RegSpan} {storages : List Storage} {id : Nat}
    (h : CrExtOK spans storages) : CrExtOK (spans.erase id) storages := by
  intro x t i c ht hc
  rw [sd_get_erase] at ht
  split at ht
  · simp at ht
  · exact h x t i c ht hc

/-! ### Frames: a layer callback that only touches storages -/

structure CrFrame (w w' : CapWorld) : Prop where
  reg : w'.reg = w.reg
  filters : w'.filters = w.filters
  global : w'.global = w.global
  np : w'.panicked = false
  len : w'.storages.length = w.storages.length
  grow : ∀ j, (w.storages.getD j {}).spans.length ≤ (w'.storages.getD j {}).spans.length

theorem cr_frame_refl {w : CapWorld} (h : w.panicked = false) : CrFrame w w :=
  ⟨rfl, rfl, rfl, h, rfl, fun _ => Nat.le_refl _⟩

theorem cr_frame_trans {w w' w'' : CapWorld} (h1 : CrFrame w w') (h2 : CrFrame w' w'') :
    CrFrame w w'' :=
  ⟨h2.reg.trans h1.reg, h2.filters.trans h1.filters, h2.global.trans h1.global, h2.np,
    h2.len.trans h1.len, fun j => Nat.le_trans (h1.grow j) (h2.grow j)⟩

theorem cr_inv_frame {hc : Nat → Nat} {w w' : CapWorld} (h : CrInv hc w) (hf : CrFrame w w') :
    CrInv hc w' := by
  refine ⟨hf.np, by rw [hf.len, hf.filters]; exact h.len, by rw [hf.reg]; exact h.acc, ?_⟩
  intro id s i c hs hc'
  rw [hf.reg] at hs
  exact Nat.lt_of_lt_of_le (h.ext id s i c hs hc') (hf.grow i)

theorem cr_frame_setStorage {w : CapWorld} (i : Nat) (st : Storage) (hnp : w.panicked = false)
    (hl : (w.storages.getD i {}).spans.length ≤ st.spans.length) :
    CrFrame w (setStorage w i st) := by
  refine ⟨rfl, rfl, rfl, hnp, by simp [setStorage], ?_⟩
  intro j
  rw [cr_setStorage_getD]
  split
  · rename_i hj; rw [hj.1]; exact hl
  · exact Nat.le_refl _

/-! ### `forLayers` -/

theorem cr_forLayers_ind (P : CapWorld → Prop) (w : CapWorld)
    (f : CapWorld → Nat → LFilter → CapWorld) (h0 : P w)
    (hstep : ∀ w' i flt, P w' → w'.panicked = false → w.filters[i]? = some flt → P (f w' i flt)) :
    P (forLayers w f) := by
  unfold forLayers
  have key : ∀ (l : List (LFilter × Nat)), (∀ e ∈ l, w.filters[e.2]? = some e.1) →
      ∀ w', P w' → P (l.foldl (fun w x => if w.panicked then w else f w x.2 x.1) w') := by
    intro l
    induction l with
    | nil => intro _ w' h; exact h
    | cons e l ih =>
      intro hl w' h
      simp only [List.foldl_cons]
      apply ih (fun e' he' => hl e' (List.mem_cons_of_mem _ he'))
      cases hp : w'.panicked with
      | true => simpa [hp] using h
      | false =>
        simp only [Bool.false_eq_true, if_false]
        exact hstep w' e.2 e.1 h hp (hl e List.mem_cons_self)
  exact key _ (fun e he => List.mem_zipIdx_iff_getElem?.mp he) w h0

/-! ### The per-layer callbacks -/

def cr_notifyCb (id : Nat) (f : CapSpan → CapSpan) (w : CapWorld) (i : Nat) (_ : LFilter) : CapWorld :=
  match capturedOf w i id with
  | none => panic w
  | some none => w
  | some (some c) =>
    match (w.storages.getD i {}).update c f with
    | some st => setStorage w i st
    | none => panic w

theorem cr_notify_eq (w : CapWorld) (id : Nat) (f : CapSpan → CapSpan) :
    notifySpan w id f = forLayers w (cr_notifyCb id f) := rfl

def cr_followsCb (a b : Nat) (w : CapWorld) (i : Nat) (_ : LFilter) : CapWorld :=
  match capturedOf w i a with
  | none => panic w
  | some ca =>
    match capturedOf w i b with
    | none => w
    | some cb =>
      match ca, cb with
      | some ca, some cb =>
        (match (w.storages.getD i {}).update ca fun cs => { cs with follows := cs.follows ++ [cb] } with
          | some st => setStorage w i st
          | none => panic w)
      | _, _ => w

def cr_eventCb (k : Nat) (site : CallSite) (fields : Fields) (start : Option Nat)
    (w : CapWorld) (i : Nat) (flt : LFilter) : CapWorld :=
  if !flt.enabled site then w else
  let parentC := scopeCaptured w.reg i (w.reg.next + 1) start
  match (w.storages.getD i {}).pushEvent k (capture fields) parentC with
  | some st => setStorage w i st
  | none => panic w

def cr_newCb (k : Nat) (site : CallSite) (fields : Fields) (id : Nat)
    (w : CapWorld) (i : Nat) (flt : LFilter) : CapWorld :=
  if !flt.enabled site then w else
  let parentC := scopeCaptured w.reg i (w.reg.next + 1) (some id)
  match (w.storages.getD i {}).pushSpan k (capture fields) parentC with
  | none => panic w
  | some (st, c) =>
    let w := setStorage w i st
    match w.reg.spans.get id with
    | none => panic w
    | some s => { w with reg := { w.reg with spans := w.reg.spans.insert id { s with ext := s.ext.insert i c } } }

def cr_sparent (w : CapWorld) : SParent → Option Nat
  | .root => none
  | .ctx => w.reg.current 0
  | .explicit id => some id

theorem cr_follows_eq (w : CapWorld) (a b : Nat) :
    (capSub 0).follows w a b = if w.panicked then w else forLayers w (cr_followsCb a b) := rfl

theorem cr_event_eq (w : CapWorld) (k : Nat) (site : CallSite) (p : SParent) (fields : Fields) :
    (capSub 0).event w k site p fields =
      if w.panicked then w else forLayers w (cr_eventCb k site fields (cr_sparent w p)) := by
  cases p <;> rfl

/-- The world after the registry part of `new_span` (parent reference taken, span inserted). -/
def cr_newReg (reg : Reg) (k : Nat) (parent : Option Nat) : Reg :=
  { reg with next := reg.next + 1,
             spans := reg.spans.insert reg.next { mt := k, parent, refs := 1 } }

theorem cr_newSpan_eq (w : CapWorld) (k : Nat) (site : CallSite) (p : SParent) (fields : Fields) :
    (capSub 0).newSpan w k site p fields =
      match (match cr_sparent w p with
        | none => some w.reg
        | some pid => w.reg.cloneSpan pid) with
      | none => (panic w, w.reg.next)
      | some reg =>
        (forLayers { w with reg := cr_newReg reg k (cr_sparent w p) }
          (cr_newCb k site fields reg.next), reg.next) := by
  cases p <;> rfl

/-! ### What the callbacks do on a good world -/

theorem cr_notifyCb_none {w : CapWorld} {id i : Nat} {s : RegSpan} (f : CapSpan → CapSpan)
    (flt : LFilter) (hg : w.reg.spans.get id = some s) (he : s.ext.get i = none) :
    cr_notifyCb id f w i flt = w := by
  simp [cr_notifyCb, capturedOf, hg, he]

theorem cr_notifyCb_some {w : CapWorld} {id i c : Nat} {s : RegSpan} (f : CapSpan → CapSpan)
    (flt : LFilter) (hg : w.reg.spans.get id = some s) (he : s.ext.get i = some c)
    (hc : c < (w.storages.getD i {}).spans.length) :
    cr_notifyCb id f w i flt =
      setStorage w i { w.storages.getD i {} with spans := modifyAt (w.storages.getD i {}).spans c f } := by
  simp only [cr_notifyCb, capturedOf, hg, he, Option.map_some, cr_update_some _ _ _ hc]

theorem cr_notifyCb_frame {hc : Nat → Nat} {w : CapWorld} {id : Nat} (f : CapSpan → CapSpan)
    (i : Nat) (flt : LFilter) (h : CrInv hc w) (hg : ∃ s, w.reg.spans.get id = some s) :
    CrFrame w (cr_notifyCb id f w i flt) := by
  obtain ⟨s, hg⟩ := hg
  cases he : s.ext.get i with
  | none => rw [cr_notifyCb_none f flt hg he]; exact cr_frame_refl h.np
  | some c =>
    rw [cr_notifyCb_some f flt hg he (h.ext id s i c hg he)]
    apply cr_frame_setStorage _ _ h.np
    simp [cr_modifyAt_length]

theorem cr_forLayers_frame {hc : Nat → Nat} {w : CapWorld} (h : CrInv hc w)
    (f : CapWorld → Nat → LFilter → CapWorld)
    (hstep : ∀ w' i flt, CrInv hc w' → w'.reg = w.reg → CrFrame w' (f w' i flt)) :
    CrFrame w (forLayers w f) := by
  apply cr_forLayers_ind (fun w' => CrFrame w w') w f (cr_frame_refl h.np)
  intro w' i flt hf _ _
  exact cr_frame_trans hf (hstep w' i flt (cr_inv_frame h hf) hf.reg)

theorem cr_notify_frame {hc : Nat → Nat} {w : CapWorld} {id : Nat} (f : CapSpan → CapSpan)
    (h : CrInv hc w) (hg : ∃ s, w.reg.spans.get id = some s) :
    CrFrame w (notifySpan w id f) := by
  rw [cr_notify_eq]
  apply cr_forLayers_frame h
  intro w' i flt h' hr
  exact cr_notifyCb_frame f i flt h' (by rw [hr]; exact hg)

theorem cr_followsCb_frame {hc : Nat → Nat} {w : CapWorld} {a : Nat} (b : Nat)
    (i : Nat) (flt : LFilter) (h : CrInv hc w) (hg : ∃ s, w.reg.spans.get a = some s) :
    CrFrame w (cr_followsCb a b w i flt) := by
  obtain ⟨s, hg⟩ := hg
  unfold cr_followsCb
  simp only [capturedOf, hg, Option.map_some]
  cases hb : w.reg.spans.get b with
  | none => exact cr_frame_refl h.np
  | some t =>
    simp only [Option.map_some]
    cases hea : s.ext.get i with
    | none => exact cr_frame_refl h.np
    | some ca =>
      cases heb : t.ext.get i with
      | none => exact cr_frame_refl h.np
      | some cb =>
        simp only [cr_update_some _ _ _ (h.ext a s i ca hg hea)]
        apply cr_frame_setStorage _ _ h.np
        simp [cr_modifyAt_length]

theorem cr_scope_valid {hc : Nat → Nat} {w : CapWorld} (h : CrInv hc w) (i : Nat) :
    ∀ (fuel : Nat) (start : Option Nat) (c : Nat), scopeCaptured w.reg i fuel start = some c →
      c < (w.storages.getD i {}).spans.length := by
  intro fuel
  induction fuel with
  | zero => intro start c hc'; simp [scopeCaptured] at hc'
  | succ fuel ih =>
    intro start c hc'
    cases start with
    | none => simp [scopeCaptured] at hc'
    | some id =>
      simp only [scopeCaptured] at hc'
      cases hg : w.reg.spans.get id with
      | none => simp [hg] at hc'
      | some s =>
        simp only [hg] at hc'
        cases he : s.ext.get i with
        | none => simp only [he] at hc'; exact ih _ _ hc'
        | some c' =>
          simp only [he, Option.some.injEq] at hc'
          subst hc'
          exact h.ext id s i c' hg he

theorem cr_eventCb_frame {hc : Nat → Nat} {w : CapWorld} (k : Nat) (site : CallSite)
    (fields : Fields) (start : Option Nat) (i : Nat) (flt : LFilter) (h : CrInv hc w) :
    CrFrame w (cr_eventCb k site fields start w i flt) := by
  unfold cr_eventCb
  cases hen : flt.enabled site with
  | false => simp only [Bool.not_false, if_true]; exact cr_frame_refl h.np
  | true =>
    simp only [Bool.not_true, Bool.false_eq_true, if_false]
    obtain ⟨st', hst, hlen⟩ := cr_pushEvent_some (w.storages.getD i {}) k (capture fields)
      (scopeCaptured w.reg i (w.reg.next + 1) start)
      (fun c hc' => cr_scope_valid h i _ _ c hc')
    simp only [hst]
    exact cr_frame_setStorage _ _ h.np (Nat.le_of_eq hlen.symm)

/-! ### Subscriber calls that only notify layers -/

theorem cr_op_record {hc : Nat → Nat} {w : CapWorld} {id : Nat} (fields : Fields)
    (h : CrInv hc w) (hid : 0 < hc id) : CrInv hc ((capSub 0).record w id fields) := by
  show CrInv hc (if w.panicked then w else notifySpan w id _)
  rw [cr_ite_np h.np]
  exact cr_inv_frame h (cr_notify_frame _ h (cr_inv_get h hid))

theorem cr_follows_frame {hc : Nat → Nat} {w : CapWorld} {a : Nat} (b : Nat)
    (h : CrInv hc w) (hg : ∃ s, w.reg.spans.get a = some s) :
    CrFrame w ((capSub 0).follows w a b) := by
  rw [cr_follows_eq, cr_ite_np h.np]
  apply cr_forLayers_frame h
  intro w' i flt h' hr
  exact cr_followsCb_frame b i flt h' (by rw [hr]; exact hg)

theorem cr_op_follows {hc : Nat → Nat} {w : CapWorld} {a : Nat} (b : Nat)
    (h : CrInv hc w) (ha : 0 < hc a) : CrInv hc ((capSub 0).follows w a b) :=
  cr_inv_frame h (cr_follows_frame b h (cr_inv_get h ha))

theorem cr_event_frame {hc : Nat → Nat} {w : CapWorld} (k : Nat) (site : CallSite) (p : SParent)
    (fields : Fields) (h : CrInv hc w) : CrFrame w ((capSub 0).event w k site p fields) := by
  rw [cr_event_eq, cr_ite_np h.np]
  apply cr_forLayers_frame h
  intro w' i flt h' _
  exact cr_eventCb_frame k site fields _ i flt h'

theorem cr_op_event {hc : Nat → Nat} {w : CapWorld} (k : Nat) (site : CallSite) (p : SParent)
    (fields : Fields) (h : CrInv hc w) : CrInv hc ((capSub 0).event w k site p fields) :=
  cr_inv_frame h (cr_event_frame k site p fields h)

/-! ### Registry updates -/

theorem cr_inv_setSpans {hc hc' : Nat → Nat} {w : CapWorld} (h : CrInv hc w)
    (spans : AMap Nat RegSpan)
    (hacc : CrRegAcc (fun x => hc' x + cr_sc (w.reg.stack 0) x) spans w.reg.next)
    (hext : CrExtOK spans w.storages) :
    CrInv hc' { w with reg := { w.reg with spans := spans } } :=
  ⟨h.np, h.len, hacc, hext⟩

/-- One more reference to an existing span. -/
theorem cr_inv_clone {hc : Nat → Nat} {w : CapWorld} {id : Nat} {s : RegSpan} (h : CrInv hc w)
    (hg : w.reg.spans.get id = some s) :
    CrInv (fun x => hc x + if x = id then 1 else 0)
      { w with reg := { w.reg with spans := w.reg.spans.insert id { s with refs := s.refs + 1 } } } := by
  apply cr_inv_setSpans h
  · apply cr_regacc_insert h.acc hg
    · rfl
    · intro x hx; simp [hx]
    · simp only [if_true]; omega
  · exact cr_extok_insert h.ext hg rfl

theorem cr_cloneSpan_some {reg : Reg} {id : Nat} {s : RegSpan} (hg : reg.spans.get id = some s) :
    reg.cloneSpan id = some { reg with spans := reg.spans.insert id { s with refs := s.refs + 1 } } := by
  simp [Reg.cloneSpan, hg]

theorem cr_op_clone {hc : Nat → Nat} {w : CapWorld} {id : Nat} (h : CrInv hc w) (hid : 0 < hc id) :
    CrInv (fun x => hc x + if x = id then 1 else 0) ((capSub 0).clone w id) := by
  obtain ⟨s, hg⟩ := cr_inv_get h hid
  show CrInv _ (if w.panicked then w else match w.reg.cloneSpan id with
    | some reg => { w with reg }
    | none => panic w)
  rw [cr_ite_np h.np, cr_cloneSpan_some hg]
  exact cr_inv_clone h hg

theorem cr_inv_dec {hc : Nat → Nat} {w : CapWorld} {id : Nat} {s : RegSpan}
    (h : CrInv (fun x => hc x + if x = id then 1 else 0) w)
    (hg : w.reg.spans.get id = some s) (hr : s.refs > 1) :
    CrInv hc
      { w with reg := { w.reg with spans := w.reg.spans.insert id { s with refs := s.refs - 1 } } } := by
  apply cr_inv_setSpans h
  · apply cr_regacc_insert h.acc hg
    · rfl
    · intro x hx; simp [hx]
    · simp only [if_true]; omega
  · exact cr_extok_insert h.ext hg rfl

theorem cr_inv_zero {hc : Nat → Nat} {w : CapWorld} {id : Nat} {s : RegSpan}
    (h : CrInv (fun x => hc x + if x = id then 1 else 0) w)
    (hg : w.reg.spans.get id = some s) (hr : ¬ s.refs > 1) :
    CrInv hc
      { w with reg := { w.reg with spans := w.reg.spans.insert id { s with refs := 0 } } } := by
  apply cr_inv_setSpans h
  · apply cr_regacc_insert h.acc hg
    · rfl
    · intro x hx; simp [hx]
    · have := h.acc.acc id
      simp only [if_true, cr_refs, hg] at this
      simp only [if_true]; omega
  · exact cr_extok_insert h.ext hg rfl

theorem cr_inv_erase {hc : Nat → Nat} {w : CapWorld} {id : Nat} {s : RegSpan}
    (h : CrInv hc w) (hg : w.reg.spans.get id = some s) (hr : s.refs = 0) :
    CrInv (fun x => hc x + if s.parent = some x then 1 else 0)
      { w with reg := { w.reg with spans := w.reg.spans.erase id } } := by
  apply cr_inv_setSpans h
  · have := cr_regacc_erase h.acc hg hr
    refine cr_regacc_mono this ?_
    intro x; omega
  · exact cr_extok_erase h.ext

/-! ### `try_close` -/

/-- Last reference: tell the layers, remove the span. -/
def cr_closeLast (w : CapWorld) (id : Nat) (s : RegSpan) : CapWorld :=
  let w1 := notifySpan
    { w with reg := { w.reg with spans := w.reg.spans.insert id { s with refs := 0 } } }
    id fun cs => { cs with closed := true }
  { w1 with reg := { w1.reg with spans := w1.reg.spans.erase id } }

theorem cr_tryCloseFuel_dec (fuel : Nat) (w : CapWorld) (id : Nat) (s : RegSpan)
    (hg : w.reg.spans.get id = some s) (hr : s.refs > 1) :
    tryCloseFuel (fuel + 1) w id =
      { w with reg := { w.reg with spans := w.reg.spans.insert id { s with refs := s.refs - 1 } } } := by
  simp only [tryCloseFuel, hg, hr, if_true]

theorem cr_tryCloseFuel_last (fuel : Nat) (w : CapWorld) (id : Nat) (s : RegSpan)
    (hg : w.reg.spans.get id = some s) (hr : ¬ s.refs > 1) :
    tryCloseFuel (fuel + 1) w id =
      match s.parent with
      | none => cr_closeLast w id s
      | some p =>
        if (cr_closeLast w id s).panicked then cr_closeLast w id s
        else tryCloseFuel fuel (cr_closeLast w id s) p := by
  simp only [tryCloseFuel, hg, hr, if_false]
  rfl

theorem cr_inv_closeLast {hc : Nat → Nat} {w : CapWorld} {id : Nat} {s : RegSpan}
    (h : CrInv (fun x => hc x + if x = id then 1 else 0) w)
    (hg : w.reg.spans.get id = some s) (hr : ¬ s.refs > 1) :
    CrInv (fun x => hc x + if s.parent = some x then 1 else 0) (cr_closeLast w id s) := by
  have h1 := cr_inv_zero h hg hr
  have hg1 : ({ w with reg := { w.reg with spans := w.reg.spans.insert id { s with refs := 0 } } } :
      CapWorld).reg.spans.get id = some { s with refs := 0 } := by
    simp [sd_get_insert]
  have hf := cr_notify_frame (fun cs => { cs with closed := true }) h1 ⟨_, hg1⟩
  have h2 := cr_inv_frame h1 hf
  have hg2 : (notifySpan
      { w with reg := { w.reg with spans := w.reg.spans.insert id { s with refs := 0 } } }
      id fun cs => { cs with closed := true }).reg.spans.get id = some { s with refs := 0 } := by
    rw [hf.reg]; exact hg1
  have h3 := cr_inv_erase h2 hg2 rfl
  exact h3

theorem cr_tryCloseFuel_inv : ∀ (fuel : Nat) (w : CapWorld) (id : Nat) (hc : Nat → Nat),
    CrInv (fun x => hc x + if x = id then 1 else 0) w → CrInv hc (tryCloseFuel fuel w id) := by
  intro fuel
  induction fuel with
  | zero =>
    intro w id hc h
    exact cr_inv_mono h (fun x => Nat.le_add_right _ _)
  | succ fuel ih =>
    intro w id hc h
    obtain ⟨s, hg⟩ := cr_inv_get h (x := id) (by simp)
    by_cases hr : s.refs > 1
    · rw [cr_tryCloseFuel_dec fuel w id s hg hr]
      exact cr_inv_dec h hg hr
    · rw [cr_tryCloseFuel_last fuel w id s hg hr]
      have h3 := cr_inv_closeLast h hg hr
      cases hp : s.parent with
      | none =>
        simp only
        exact cr_inv_mono h3 (fun x => Nat.le_add_right _ _)
      | some p =>
        simp only [cr_ite_np h3.np]
        apply ih
        refine cr_inv_congr h3 ?_
        intro x
        simp only [hp, Option.some.injEq]
        by_cases hx : x = p
        · subst hx; simp
        · have : ¬ p = x := fun h' => hx h'.symm
          simp [hx, this]

theorem cr_tryClose_inv {hc : Nat → Nat} {w : CapWorld} {id : Nat}
    (h : CrInv (fun x => hc x + if x = id then 1 else 0) w) : CrInv hc (w.tryClose id) :=
  cr_tryCloseFuel_inv _ w id hc h

theorem cr_op_tryClose {hc : Nat → Nat} {w : CapWorld} {id : Nat}
    (h : CrInv (fun x => hc x + if x = id then 1 else 0) w) :
    CrInv hc ((capSub 0).tryClose w id) := by
  show CrInv hc (if w.panicked then w else w.tryClose id)
  rw [cr_ite_np h.np]
  exact cr_tryClose_inv h

/-! ### `enter` / `exit` -/

/-- The registry part of `enter`. -/
def cr_enterReg (w : CapWorld) (id : Nat) : Option Reg :=
  let stack := w.reg.stack 0
  let dup := stack.any (·.1 == id)
  let reg := { w.reg with stacks := w.reg.stacks.insert 0 ((id, dup) :: stack) }
  if dup then some reg else reg.cloneSpan id

theorem cr_enter_eq (w : CapWorld) (id : Nat) :
    (capSub 0).enter w id =
      if w.panicked then w else
      match cr_enterReg w id with
      | none => panic w
      | some reg => notifySpan { w with reg } id fun cs => { cs with entered := cs.entered + 1 } := rfl

theorem cr_enterReg_inv {hc : Nat → Nat} {w : CapWorld} {id : Nat} (h : CrInv hc w)
    (hid : 0 < hc id) :
    ∃ reg, cr_enterReg w id = some reg ∧ CrInv hc { w with reg } ∧
      ∃ s, reg.spans.get id = some s := by
  obtain ⟨s, hg⟩ := cr_inv_get h hid
  cases hd : (w.reg.stack 0).any (·.1 == id) with
  | true =>
    have he : cr_enterReg w id = some { w.reg with
        stacks := w.reg.stacks.insert 0 ((id, true) :: w.reg.stack 0) } := by
      simp only [cr_enterReg, hd, if_true]
    refine ⟨_, he, ⟨h.np, h.len, ?_, h.ext⟩, s, hg⟩
    simp only [cr_stack_mk]
    refine cr_regacc_mono h.acc ?_
    intro x; rw [cr_sc_cons]; simp
  | false =>
    have he : cr_enterReg w id = some { w.reg with
        stacks := w.reg.stacks.insert 0 ((id, false) :: w.reg.stack 0),
        spans := w.reg.spans.insert id { s with refs := s.refs + 1 } } := by
      simp only [cr_enterReg, hd, Bool.false_eq_true, if_false]
      exact cr_cloneSpan_some (reg := { w.reg with stacks := _ }) hg
    refine ⟨_, he, ⟨h.np, h.len, ?_, cr_extok_insert h.ext hg rfl⟩, _, cr_get_insert_self _ _ _⟩
    simp only [cr_stack_mk]
    apply cr_regacc_insert h.acc hg
    · rfl
    · intro x hx; rw [cr_sc_cons]; simp [hx]
    · rw [cr_sc_cons]; simp only [and_self, if_true]; omega

theorem cr_op_enter {hc : Nat → Nat} {w : CapWorld} {id : Nat} (h : CrInv hc w) (hid : 0 < hc id) :
    CrInv hc ((capSub 0).enter w id) := by
  obtain ⟨reg, hreg, h1, hg⟩ := cr_enterReg_inv h hid
  rw [cr_enter_eq, cr_ite_np h.np, hreg]
  exact cr_inv_frame h1 (cr_notify_frame _ h1 hg)

/-- The registry part of `exit`. -/
def cr_exitW (w : CapWorld) (id : Nat) : CapWorld :=
  let stack := w.reg.stack 0
  let popped : Option Bool := (stack.find? (·.1 == id)).map (·.2)
  let w := { w with reg := { w.reg with stacks := w.reg.stacks.insert 0 (stackPop stack id) } }
  match popped with
  | some false => w.tryClose id
  | _ => w

theorem cr_exit_eq (w : CapWorld) (id : Nat) :
    (capSub 0).exit w id =
      if w.panicked then w else
      if (cr_exitW w id).panicked then cr_exitW w id
      else notifySpan (cr_exitW w id) id fun cs => { cs with exited := cs.exited + 1 } := rfl

def cr_popW (w : CapWorld) (id : Nat) : CapWorld :=
  { w with reg := { w.reg with stacks := w.reg.stacks.insert 0 (stackPop (w.reg.stack 0) id) } }

theorem cr_exitW_close {w : CapWorld} {id : Nat}
    (hp : ((w.reg.stack 0).find? (·.1 == id)).map (·.2) = some false) :
    cr_exitW w id = (cr_popW w id).tryClose id := by
  simp only [cr_exitW, hp]; rfl

theorem cr_exitW_keep {w : CapWorld} {id : Nat}
    (hp : ¬ ((w.reg.stack 0).find? (·.1 == id)).map (·.2) = some false) :
    cr_exitW w id = cr_popW w id := by
  simp only [cr_exitW]
  rfl

theorem cr_exitW_inv {hc : Nat → Nat} {w : CapWorld} {id : Nat} (h : CrInv hc w) :
    CrInv hc (cr_exitW w id) := by
  have hpop := cr_sc_pop (w.reg.stack 0) id
  by_cases hp : ((w.reg.stack 0).find? (·.1 == id)).map (·.2) = some false
  · rw [cr_exitW_close hp]
    apply cr_tryClose_inv
    refine ⟨h.np, h.len, ?_, h.ext⟩
    simp only [cr_popW, cr_stack_mk]
    refine cr_regacc_mono h.acc ?_
    intro x
    have := hpop x
    simp only [hp, and_true] at this
    omega
  · rw [cr_exitW_keep hp]
    refine ⟨h.np, h.len, ?_, h.ext⟩
    simp only [cr_popW, cr_stack_mk]
    refine cr_regacc_mono h.acc ?_
    intro x
    have := hpop x
    simp only [hp, and_false, if_false, Nat.add_zero] at this
    omega

theorem cr_op_exit {hc : Nat → Nat} {w : CapWorld} {id : Nat} (h : CrInv hc w) (hid : 0 < hc id) :
    CrInv hc ((capSub 0).exit w id) := by
  have h1 := cr_exitW_inv (id := id) h
  rw [cr_exit_eq, cr_ite_np h.np, cr_ite_np h1.np]
  exact cr_inv_frame h1 (cr_notify_frame _ h1 (cr_inv_get h1 hid))

/-! ### `new_span` -/

theorem cr_newCb_inv {hc : Nat → Nat} {w : CapWorld} (k : Nat) (site : CallSite) (fields : Fields)
    {id : Nat} (i : Nat) (flt : LFilter) (h : CrInv hc w) (hi : i < w.storages.length)
    (hg : ∃ s, w.reg.spans.get id = some s) :
    CrInv hc (cr_newCb k site fields id w i flt) ∧
      (cr_newCb k site fields id w i flt).filters = w.filters ∧
      (cr_newCb k site fields id w i flt).global = w.global ∧
      ∃ s, (cr_newCb k site fields id w i flt).reg.spans.get id = some s := by
  obtain ⟨s, hg⟩ := hg
  cases hen : flt.enabled site with
  | false =>
    have hcb : cr_newCb k site fields id w i flt = w := by simp [cr_newCb, hen]
    rw [hcb]; exact ⟨h, rfl, rfl, s, hg⟩
  | true =>
    obtain ⟨st', hst, hlen⟩ := cr_pushSpan_some (w.storages.getD i {}) k (capture fields)
      (scopeCaptured w.reg i (w.reg.next + 1) (some id))
      (fun c hc' => cr_scope_valid h i _ _ c hc')
    have hg' : (setStorage w i st').reg.spans.get id = some s := hg
    have hcb : cr_newCb k site fields id w i flt =
        { setStorage w i st' with reg := { (setStorage w i st').reg with
            spans := (setStorage w i st').reg.spans.insert id
              { s with ext := s.ext.insert i (w.storages.getD i {}).spans.length } } } := by
      simp only [cr_newCb, hen, Bool.not_true, Bool.false_eq_true, if_false, hst, hg']
    rw [hcb]
    have hf : CrFrame w (setStorage w i st') := cr_frame_setStorage _ _ h.np (by omega)
    have h1 := cr_inv_frame h hf
    refine ⟨?_, rfl, rfl, _, cr_get_insert_self _ _ _⟩
    refine ⟨h1.np, h1.len, ?_, ?_⟩
    · apply cr_regacc_insert h1.acc hg'
      · rfl
      · exact fun x _ => Nat.le_refl _
      · exact Nat.le_refl _
    · intro x t j c ht hc'
      show c < ((setStorage w i st').storages.getD j {}).spans.length
      change AMap.get (AMap.insert (setStorage w i st').reg.spans id _) x = some t at ht
      rw [sd_get_insert] at ht
      split at ht
      · rename_i hx
        subst hx
        simp only [Option.some.injEq] at ht
        subst ht
        simp only [sd_get_insert] at hc'
        split at hc'
        · rename_i hj
          subst hj
          simp only [Option.some.injEq] at hc'
          subst hc'
          rw [cr_setStorage_getD, if_pos ⟨rfl, hi⟩]
          omega
        · exact h1.ext x s j c hg' hc'
      · exact h1.ext x t j c ht hc'

theorem cr_newLayers_inv {hc : Nat → Nat} {w : CapWorld} (k : Nat) (site : CallSite)
    (fields : Fields) {id : Nat} (h : CrInv hc w) (hg : ∃ s, w.reg.spans.get id = some s) :
    CrInv hc (forLayers w (cr_newCb k site fields id)) := by
  have := cr_forLayers_ind
    (fun w' => CrInv hc w' ∧ w'.filters = w.filters ∧ ∃ s, w'.reg.spans.get id = some s) w
    (cr_newCb k site fields id) ⟨h, rfl, hg⟩
    (by
      intro w' i flt ⟨h', hfl, hg'⟩ _ hi
      have hi' : i < w'.storages.length := by
        rw [h'.len, hfl]
        exact (List.getElem?_eq_some_iff.mp hi).1
      obtain ⟨r1, r2, _, r4⟩ := cr_newCb_inv k site fields i flt h' hi' hg'
      exact ⟨r1, r2.trans hfl, r4⟩)
  exact this.1

theorem cr_sparent_get {hc : Nat → Nat} {w : CapWorld} (h : CrInv hc w) (p : SParent)
    (hp : ∀ pid, p = .explicit pid → 0 < hc pid) (pid : Nat) (hpid : cr_sparent w p = some pid) :
    ∃ s, w.reg.spans.get pid = some s := by
  cases p with
  | root => simp [cr_sparent] at hpid
  | ctx =>
    simp only [cr_sparent, Reg.current] at hpid
    exact cr_inv_get_stack h (cr_sc_current _ _ hpid)
  | explicit id =>
    simp only [cr_sparent, Option.some.injEq] at hpid
    subst hpid
    exact cr_inv_get h (hp id rfl)

/-- The registry part of `new_span` keeps the invariant, with one more handle for the new id. -/
theorem cr_newReg_inv {hc : Nat → Nat} {w : CapWorld} (k : Nat) (parent : Option Nat)
    (h : CrInv hc w) (hpar : ∀ pid, parent = some pid → ∃ s, w.reg.spans.get pid = some s) :
    ∃ reg, (match parent with
        | none => some w.reg
        | some pid => w.reg.cloneSpan pid) = some reg ∧ reg.next = w.reg.next ∧
      CrInv (fun x => hc x + if x = w.reg.next then 1 else 0)
        { w with reg := cr_newReg reg k parent } ∧
      ∃ s, (cr_newReg reg k parent).spans.get w.reg.next = some s := by
  cases parent with
  | none =>
    refine ⟨w.reg, rfl, rfl, ⟨h.np, h.len, ?_, ?_⟩, _, cr_get_insert_self _ _ _⟩
    · have := cr_regacc_new (e := fun x => hc x + cr_sc (w.reg.stack 0) x)
        { mt := k, parent := none, refs := 1 }
        (cr_regacc_mono h.acc (fun x => by simp)) rfl
      refine cr_regacc_mono this ?_
      intro x
      show hc x + (if x = w.reg.next then 1 else 0) + cr_sc (w.reg.stack 0) x ≤ _
      omega
    · intro x t j c ht hc'
      change AMap.get (AMap.insert w.reg.spans w.reg.next _) x = some t at ht
      rw [sd_get_insert] at ht
      split at ht
      · simp only [Option.some.injEq] at ht
        subst ht
        simp [AMap.get] at hc'
      · exact h.ext x t j c ht hc'
  | some pid =>
    obtain ⟨s, hg⟩ := hpar pid rfl
    have h1 := cr_inv_clone h hg
    refine ⟨_, cr_cloneSpan_some hg, rfl, ⟨h.np, h.len, ?_, ?_⟩, _, cr_get_insert_self _ _ _⟩
    · have := cr_regacc_new (e := fun x => hc x + cr_sc (w.reg.stack 0) x) (next := w.reg.next)
        (spans := w.reg.spans.insert pid { s with refs := s.refs + 1 })
        { mt := k, parent := some pid, refs := 1 }
        (cr_regacc_mono h1.acc (fun x => by
          show hc x + cr_sc (w.reg.stack 0) x + (if some pid = some x then 1 else 0) ≤
            hc x + (if x = pid then 1 else 0) + cr_sc (w.reg.stack 0) x
          by_cases hx : x = pid
          · subst hx; simp; omega
          · have : ¬ pid = x := fun h' => hx h'.symm
            simp [hx, this])) rfl
      refine cr_regacc_mono this ?_
      intro x
      show hc x + (if x = w.reg.next then 1 else 0) + cr_sc (w.reg.stack 0) x ≤ _
      omega
    · intro x t j c ht hc'
      change AMap.get (AMap.insert (AMap.insert w.reg.spans pid _) w.reg.next _) x = some t at ht
      rw [sd_get_insert] at ht
      split at ht
      · simp only [Option.some.injEq] at ht
        subst ht
        simp [AMap.get] at hc'
      · exact h1.ext x t j c ht hc'

theorem cr_op_newSpan {hc : Nat → Nat} {w : CapWorld} (k : Nat) (site : CallSite) (p : SParent)
    (fields : Fields) (h : CrInv hc w) (hp : ∀ pid, p = .explicit pid → 0 < hc pid) :
    ((capSub 0).newSpan w k site p fields).2 = w.reg.next ∧
    CrInv (fun x => hc x + if x = w.reg.next then 1 else 0)
      ((capSub 0).newSpan w k site p fields).1 := by
  obtain ⟨reg, hreg, hnext, h1, hg⟩ := cr_newReg_inv k (cr_sparent w p) h (cr_sparent_get h p hp)
  rw [cr_newSpan_eq, hreg]
  refine ⟨hnext, ?_⟩
  show CrInv _ (forLayers _ (cr_newCb k site fields reg.next))
  rw [hnext]
  exact cr_newLayers_inv k site fields h1 hg

end TT
