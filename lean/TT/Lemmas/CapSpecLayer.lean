/-
  The invariant between the layered subscriber model (`CapWorld`) and the reference description of
  the call log so far; `forLayers`, `notifySpan`, `scopeCaptured` and the `try_close` cascade.
-/
import TT.Lemmas.CapSpecStore
import TT.Lemmas.CapSpecCalls
import TT.Lemmas.CapSpecReg

namespace TT

/-- "Closed" as the model sees it: the span is no longer in the registry. -/
def cs_clOf (reg : Reg) : Nat → Bool := fun id => (reg.spans.get id).isNone

structure cs_LayerInv (sites : List CallSite) (flt : LFilter) (i : Nat) (calls : List SubCall)
    (w : CapWorld) : Prop where
  st : w.storages.getD i {} = cs_mk (cs_refSpans flt sites calls) (cs_refEvents flt sites calls)
    (cs_fns flt sites calls (cs_clOf w.reg))
  ext : ∀ id s, w.reg.spans.get id = some s → s.ext.get i = (cs_cap flt sites calls).get id

structure cs_WInv (filters : List LFilter) (global : Option Nat) (sites : List CallSite)
    (calls : List SubCall) (hier : cs_Hier) (H : Nat → Nat) (x : Option Nat) (w : CapWorld) : Prop where
  np : w.panicked = false
  fl : w.filters = filters
  gl : w.global = global
  len : w.storages.length = filters.length
  ok : cs_CallsOK calls
  next : w.reg.next = cs_maxId calls + 1
  stk : w.reg.stack 0 = hier.stack
  ri : cs_RI hier.stack w.reg.next w.reg.spans.get hier.parent H x
  lay : ∀ i (hi : i < filters.length), cs_LayerInv sites filters[i] i calls w

/-! ### `forLayers` -/

theorem cs_forLayers_inv (w : CapWorld) (f : CapWorld → Nat → LFilter → CapWorld)
    (P : Nat → CapWorld → Prop) (hnp : w.panicked = false) (h0 : P 0 w)
    (hstep : ∀ j (hj : j < w.filters.length) w', w'.panicked = false → P j w' →
      (f w' j w.filters[j]).panicked = false ∧ P (j + 1) (f w' j w.filters[j])) :
    (forLayers w f).panicked = false ∧ P w.filters.length (forLayers w f) := by
  unfold forLayers
  have := cs_foldl_zipIdx_inv
    (fun (w : CapWorld) (x : LFilter × Nat) => if w.panicked then w else f w x.2 x.1)
    (fun k b => b.panicked = false ∧ P k b) w.filters 0 w (by simpa using ⟨hnp, h0⟩) (by
      intro j hj b' hb'
      simp only [Nat.zero_add] at hb' ⊢
      rw [hb'.1]
      simp only [Bool.false_eq_true, if_false]
      exact hstep j hj b' hb'.1 hb'.2)
  simp only [Nat.zero_add] at this
  exact this

theorem cs_setStorage_self (w : CapWorld) (j : Nat) (hj : j < w.storages.length) :
    setStorage w j (w.storages.getD j {}) = w := by
  unfold setStorage
  rw [cs_set_getD_self _ _ _ hj]

/-- Every layer replaces its own storage by `T j` and touches nothing else. -/
theorem cs_forLayers_pure (w : CapWorld) (f : CapWorld → Nat → LFilter → CapWorld) (T : Nat → Storage)
    (hnp : w.panicked = false) (hlen : w.storages.length = w.filters.length)
    (hf : ∀ j (hj : j < w.filters.length) w', w'.panicked = false → w'.reg = w.reg →
      w'.storages.length = w.storages.length → w'.storages.getD j {} = w.storages.getD j {} →
      f w' j w.filters[j] = setStorage w' j (T j)) :
    (forLayers w f).panicked = false ∧ (forLayers w f).reg = w.reg ∧
    (forLayers w f).filters = w.filters ∧ (forLayers w f).global = w.global ∧
    (forLayers w f).storages.length = w.storages.length ∧
    ∀ i, i < w.filters.length → (forLayers w f).storages.getD i {} = T i := by
  have := cs_forLayers_inv w f
    (fun j w' => w'.reg = w.reg ∧ w'.filters = w.filters ∧ w'.global = w.global ∧
      w'.storages.length = w.storages.length ∧
      (∀ i, i < j → w'.storages.getD i {} = T i) ∧
      (∀ i, j ≤ i → w'.storages.getD i {} = w.storages.getD i {}))
    hnp ⟨rfl, rfl, rfl, rfl, fun i hi => by omega, fun i _ => rfl⟩ (by
      intro j hj w' hnp' ⟨h1, h2, h3, h4, h5, h6⟩
      rw [hf j hj w' hnp' h1 h4 (h6 j (Nat.le_refl _))]
      refine ⟨hnp', h1, h2, h3, by simp [setStorage, h4], ?_, ?_⟩
      · intro i hi
        simp only [setStorage, cs_getD_set]
        by_cases hij : j = i
        · subst hij
          rw [if_pos ⟨rfl, by omega⟩]
        · rw [if_neg (fun h' => hij h'.1)]
          exact h5 i (by omega)
      · intro i hi
        simp only [setStorage, cs_getD_set]
        have hij : ¬ j = i := by omega
        rw [if_neg (fun h' => hij h'.1)]
        exact h6 i (by omega))
  obtain ⟨a, b, c, d, e, f', _⟩ := this
  exact ⟨a, b, c, d, e, fun i hi => f' i hi⟩

/-! ### `notifySpan` -/

theorem cs_notifySpan_spec (w : CapWorld) (id : Nat) (g : CapSpan → CapSpan) (s : RegSpan)
    (hnp : w.panicked = false) (hlen : w.storages.length = w.filters.length)
    (hs : w.reg.spans.get id = some s)
    (hval : ∀ i c, i < w.filters.length → s.ext.get i = some c →
      c < (w.storages.getD i {}).spans.length) :
    (notifySpan w id g).panicked = false ∧ (notifySpan w id g).reg = w.reg ∧
    (notifySpan w id g).filters = w.filters ∧ (notifySpan w id g).global = w.global ∧
    (notifySpan w id g).storages.length = w.storages.length ∧
    ∀ i, i < w.filters.length → (notifySpan w id g).storages.getD i {} =
      match s.ext.get i with
      | none => w.storages.getD i {}
      | some c => { w.storages.getD i {} with spans := modifyAt (w.storages.getD i {}).spans c g } := by
  unfold notifySpan
  apply cs_forLayers_pure w _ _ hnp hlen
  intro j hj w' hnp' hreg hl hst
  simp only [capturedOf, hreg, hs, Option.map_some]
  cases hc : s.ext.get j with
  | none =>
    simp only
    rw [← hst, cs_setStorage_self w' j (by omega)]
  | some c =>
    simp only
    have := hval j c hj hc
    rw [hst]
    simp only [Storage.update, this, if_true]

/-! ### `scopeCaptured` -/

theorem cs_scope_none (reg : Reg) (i fuel : Nat) : scopeCaptured reg i fuel none = none := by
  cases fuel <;> rfl

theorem cs_scope_eq (reg : Reg) (i : Nat) (par : AMap Nat (Option Nat)) (cap : AMap Nat Nat)
    (h : ∀ id s, reg.spans.get id = some s → s.parent = (par.get id).join ∧
      s.ext.get i = cap.get id ∧ ∀ p, s.parent = some p → p < id ∧ (reg.spans.get p).isSome) :
    ∀ fuel id, id < fuel → (reg.spans.get id).isSome →
      scopeCaptured reg i fuel (some id) = cs_nearest par cap fuel (some id) := by
  intro fuel
  induction fuel with
  | zero => intro id h; omega
  | succ n ih =>
    intro id hid hsome
    cases hs : reg.spans.get id with
    | none => simp [hs] at hsome
    | some s =>
      obtain ⟨h1, h2, h3⟩ := h id s hs
      simp only [scopeCaptured, cs_nearest, hs, h2]
      cases cap.get id with
      | some c => rfl
      | none =>
        simp only
        rw [← h1]
        cases hp : s.parent with
        | none => rw [cs_scope_none, cs_nearest_none]
        | some p =>
          have := h3 p hp
          exact ih p (by omega) this.2

theorem cs_scope_eq_opt (reg : Reg) (i : Nat) (par : AMap Nat (Option Nat)) (cap : AMap Nat Nat)
    (h : ∀ id s, reg.spans.get id = some s → s.parent = (par.get id).join ∧
      s.ext.get i = cap.get id ∧ ∀ p, s.parent = some p → p < id ∧ (reg.spans.get p).isSome)
    (fuel : Nat) (start : Option Nat)
    (hs : ∀ q, start = some q → q < fuel ∧ (reg.spans.get q).isSome) :
    scopeCaptured reg i fuel start = cs_nearest par cap fuel start := by
  cases start with
  | none => rw [cs_scope_none, cs_nearest_none]
  | some q => exact cs_scope_eq reg i par cap h fuel q (hs q rfl).1 (hs q rfl).2

/-! ### Consequences of the invariant -/

theorem cs_WInv_scopeHyp {filters global sites calls hier H x w}
    (h : cs_WInv filters global sites calls hier H x w) (i : Nat) (hi : i < filters.length) :
    ∀ id s, w.reg.spans.get id = some s → s.parent = (hier.parent.get id).join ∧
      s.ext.get i = (cs_cap filters[i] sites calls).get id ∧
      ∀ p, s.parent = some p → p < id ∧ (w.reg.spans.get p).isSome := by
  intro id s hs
  exact ⟨(h.ri.ex id s hs).2.2.1, (h.lay i hi).ext id s hs, fun p hp => h.ri.pr id s p hs hp⟩

theorem cs_WInv_spansLen {filters global sites calls hier H x w}
    (h : cs_WInv filters global sites calls hier H x w) (i : Nat) (hi : i < filters.length) :
    (w.storages.getD i {}).spans.length = (cs_refSpans filters[i] sites calls).length := by
  rw [(h.lay i hi).st, cs_mk_spans_length]

theorem cs_WInv_hval {filters global sites calls hier H x w}
    (h : cs_WInv filters global sites calls hier H x w) {id : Nat} {s : RegSpan}
    (hs : w.reg.spans.get id = some s) :
    ∀ i c, i < filters.length → s.ext.get i = some c → c < (w.storages.getD i {}).spans.length := by
  intro i c hi hc
  rw [cs_WInv_spansLen h i hi]
  rw [(h.lay i hi).ext id s hs] at hc
  exact cs_cap_get_lt hc

theorem cs_fns_agree_cl (flt : LFilter) (sites : List CallSite) (calls : List SubCall)
    (cl cl' : Nat → Bool) (id : Nat) (h : cl id = cl' id) :
    (cs_fns flt sites calls cl).AgreeAt (cs_fns flt sites calls cl') id :=
  ⟨rfl, rfl, rfl, h, rfl⟩

/-- `update` as a record update. -/
theorem cs_mk_modify (S : List cs_SI) (E : List cs_EI) (F F' : cs_Fns) (ci : Nat) (s : cs_SI)
    (g : CapSpan → CapSpan) (hs : S[ci]? = some s)
    (huniq : ∀ j s', S[j]? = some s' → s'.id = s.id → j = ci)
    (hag : ∀ id, id ≠ s.id → F.AgreeAt F' id)
    (hg : g (cs_span S E F s ci) = cs_span S E F' s ci) :
    { cs_mk S E F with spans := modifyAt (cs_mk S E F).spans ci g } = cs_mk S E F' := by
  have := cs_mk_update S E F F' ci s g hs huniq hag hg
  unfold Storage.update at this
  split at this
  · exact Option.some.inj this
  · cases this

/-- Storage of layer `i` after notifying span `id` with `g`, when `g` realises the step from the
    attribute family `F` to `F'` at `id`. -/
theorem cs_layer_notify {flt : LFilter} {sites : List CallSite} {calls : List SubCall}
    (hok : cs_CallsOK calls) (F F' : cs_Fns) (id : Nat) (g : CapSpan → CapSpan)
    (hag : ∀ y, y ≠ id → F.AgreeAt F' y)
    (hg : ∀ S E s ci, s.id = id → g (cs_span S E F s ci) = cs_span S E F' s ci) :
    (match (cs_cap flt sites calls).get id with
      | none => cs_mk (cs_refSpans flt sites calls) (cs_refEvents flt sites calls) F
      | some c => { cs_mk (cs_refSpans flt sites calls) (cs_refEvents flt sites calls) F with
          spans := modifyAt (cs_mk (cs_refSpans flt sites calls) (cs_refEvents flt sites calls) F).spans c g })
      = cs_mk (cs_refSpans flt sites calls) (cs_refEvents flt sites calls) F' := by
  cases hc : (cs_cap flt sites calls).get id with
  | none =>
    simp only
    apply cs_mk_congr
    intro s hs
    exact hag s.id (cs_cap_none_not_mem hc s hs)
  | some c =>
    simp only
    obtain ⟨s, hs, hsid⟩ := cs_cap_get_span hc
    apply cs_mk_modify _ _ F F' c s g hs
    · intro j s' hj he
      exact cs_refSpans_uniq hok hc j s' hj (by rw [he, hsid])
    · intro y hy; exact hag y (by rw [← hsid]; exact hy)
    · exact hg _ _ s c hsid

/-! ### The `try_close` cascade -/

/-- Last reference dropped: tell the layers, remove the span. -/
def cs_closeStep (w : CapWorld) (id : Nat) (s : RegSpan) : CapWorld :=
  let w1 := notifySpan { w with reg := { w.reg with spans := w.reg.spans.insert id { s with refs := 0 } } }
    id fun cs => { cs with closed := true }
  { w1 with reg := { w1.reg with spans := w1.reg.spans.erase id } }

theorem cs_tryCloseFuel_succ (fuel : Nat) (w : CapWorld) (id : Nat) :
    tryCloseFuel (fuel + 1) w id =
      match w.reg.spans.get id with
      | none => panic w
      | some s =>
        if s.refs > 1 then
          { w with reg := { w.reg with spans := w.reg.spans.insert id { s with refs := s.refs - 1 } } }
        else
          match s.parent with
          | none => cs_closeStep w id s
          | some p =>
            if (cs_closeStep w id s).panicked then cs_closeStep w id s
            else tryCloseFuel fuel (cs_closeStep w id s) p := rfl

theorem cs_upd_upd (g : Nat → Option RegSpan) (id : Nat) (a b : Option RegSpan) :
    cs_upd (cs_upd g id a) id b = cs_upd g id b := by
  funext y
  by_cases h : y = id <;> simp [cs_upd, h]

theorem cs_closeStep_inv {filters global sites calls hier H} {w : CapWorld} {id : Nat} {s : RegSpan}
    (h : cs_WInv filters global sites calls hier H (some id) w) (hs : w.reg.spans.get id = some s)
    (hr : ¬ s.refs > 1) :
    cs_WInv filters global sites calls hier H s.parent (cs_closeStep w id s) := by
  -- the world handed to `notifySpan`
  let w0 : CapWorld :=
    { w with reg := { w.reg with spans := w.reg.spans.insert id { s with refs := 0 } } }
  have hs0 : w0.reg.spans.get id = some { s with refs := 0 } := by
    simp [w0, sd_get_insert]
  have hst0 : ∀ i, w0.storages.getD i {} = w.storages.getD i {} := fun _ => rfl
  have hspec := cs_notifySpan_spec w0 id (fun cs => { cs with closed := true }) { s with refs := 0 }
    h.np (by show w.storages.length = w.filters.length; rw [h.len, h.fl]) hs0 (by
      intro i c hi hc
      rw [hst0]
      exact cs_WInv_hval h hs i c (by rw [← h.fl]; exact hi) hc)
  obtain ⟨hnp1, hreg1, hfl1, hgl1, hlen1, hst1⟩ := hspec
  have hget : (cs_closeStep w id s).reg.spans.get = cs_upd w.reg.spans.get id none := by
    show (AMap.erase (notifySpan w0 id _).reg.spans id).get = _
    rw [hreg1, cs_get_erase_upd]
    show cs_upd (AMap.insert w.reg.spans id _).get id none = _
    rw [cs_get_insert_upd, cs_upd_upd]
  have hnext : (cs_closeStep w id s).reg.next = w.reg.next := by
    show (notifySpan w0 id _).reg.next = _
    rw [hreg1]
  have hstacks : (cs_closeStep w id s).reg.stacks = w.reg.stacks := by
    show (notifySpan w0 id _).reg.stacks = _
    rw [hreg1]
  refine ⟨hnp1, ?_, ?_, ?_, h.ok, ?_, ?_, ?_, ?_⟩
  · show (notifySpan w0 id _).filters = filters
    rw [hfl1]; exact h.fl
  · show (notifySpan w0 id _).global = global
    rw [hgl1]; exact h.gl
  · show (notifySpan w0 id _).storages.length = filters.length
    rw [hlen1]; exact h.len
  · rw [hnext]; exact h.next
  · unfold Reg.stack
    rw [hstacks]
    exact h.stk
  · rw [hnext, hget]
    exact cs_RI_erase h.ri hs hr
  · intro i hi
    have hcl : ∀ y, y ≠ id → cs_clOf (cs_closeStep w id s).reg y = cs_clOf w.reg y := by
      intro y hy
      unfold cs_clOf
      rw [hget, cs_upd_ne _ _ _ hy]
    have hclid : cs_clOf (cs_closeStep w id s).reg id = true := by
      unfold cs_clOf
      rw [hget, cs_upd_same]; rfl
    constructor
    · show (notifySpan w0 id _).storages.getD i {} = _
      rw [hst1 i (by show i < w.filters.length; rw [h.fl]; exact hi), hst0, (h.lay i hi).st]
      have hext : ({ s with refs := 0 } : RegSpan).ext.get i = (cs_cap filters[i] sites calls).get id :=
        (h.lay i hi).ext id s hs
      rw [hext]
      apply cs_layer_notify h.ok
      · intro y hy
        exact cs_fns_agree_cl _ _ _ _ _ y (hcl y hy).symm
      · intro S E s' ci hid
        simp only [cs_span_def, cs_fns, hid, hclid]
    · intro y sy hy
      rw [hget] at hy
      have hyi : y ≠ id := by
        intro he; subst he; simp [cs_upd] at hy
      rw [cs_upd_ne _ _ _ hyi] at hy
      exact (h.lay i hi).ext y sy hy

theorem cs_tryClose_inv {filters global sites calls hier H} :
    ∀ (fuel : Nat) (w : CapWorld) (id : Nat),
      cs_WInv filters global sites calls hier H (some id) w → id < fuel →
      cs_WInv filters global sites calls hier H none (tryCloseFuel fuel w id) := by
  intro fuel
  induction fuel with
  | zero => intro w id _ h; omega
  | succ n ih =>
    intro w id h hid
    rw [cs_tryCloseFuel_succ]
    have hsome := h.ri.pend id rfl
    cases hs : w.reg.spans.get id with
    | none => simp [hs] at hsome
    | some s =>
      simp only
      by_cases hr : s.refs > 1
      · rw [if_pos hr]
        have hget : (AMap.insert w.reg.spans id { s with refs := s.refs - 1 }).get =
            cs_upd w.reg.spans.get id (some { s with refs := s.refs - 1 }) := cs_get_insert_upd _ _ _
        have hex := h.ri.ex id s hs
        refine ⟨h.np, h.fl, h.gl, h.len, h.ok, h.next, h.stk, ?_, ?_⟩
        · show cs_RI _ w.reg.next (AMap.insert w.reg.spans id _).get _ H none
          rw [hget]
          refine cs_RI_set (s' := { s with refs := s.refs - 1 }) h.ri hs rfl h.ri.sok ?_ ?_ ?_
          · simp only [if_true, reduceCtorEq, if_false] at hex ⊢
            omega
          · intro y hy
            have : ¬ some id = some y := by simpa using fun h' => hy h'.symm
            simp [this]
          · intro y hy; cases hy
        · intro i hi
          have hcl : cs_clOf { w.reg with spans := AMap.insert w.reg.spans id { s with refs := s.refs - 1 } }
              = cs_clOf w.reg := by
            funext y
            unfold cs_clOf
            show ((AMap.insert w.reg.spans id _).get y).isNone = _
            rw [hget]
            by_cases hy : y = id
            · subst hy; simp [cs_upd, hs]
            · rw [cs_upd_ne _ _ _ hy]
          constructor
          · show w.storages.getD i {} = _
            rw [hcl]
            exact (h.lay i hi).st
          · intro y sy hy
            have hy' : cs_upd w.reg.spans.get id (some { s with refs := s.refs - 1 }) y = some sy := by
              rw [← hget]; exact hy
            by_cases hyi : y = id
            · subst hyi
              rw [cs_upd_same] at hy'
              cases hy'
              exact (h.lay i hi).ext y s hs
            · rw [cs_upd_ne _ _ _ hyi] at hy'
              exact (h.lay i hi).ext y sy hy'
      · rw [if_neg hr]
        have hstep := cs_closeStep_inv h hs hr
        cases hp : s.parent with
        | none =>
          simp only
          rw [hp] at hstep
          exact hstep
        | some p =>
          simp only
          rw [hp] at hstep
          rw [hstep.np]
          simp only [Bool.false_eq_true, if_false]
          have := (h.ri.pr id s p hs hp).1
          exact ih _ p hstep (by omega)

end TT
