/-
  TT.Lemmas.TunnelInv — helper lemmas for C01 (part 4): the invariant of a first-lifetime
  receiver fed with the stream of a well-formed program, and the host calls it makes per
  subscriber call.
-/
import TT.Lemmas.TunnelRecv

namespace TT

/-- Handle counts after a subscriber call (what `rcNormalizeFrom` of C01 tracks). -/
def cstep (counts : AMap Nat Nat) : SubCall → AMap Nat Nat
  | .newSpan id _ _ _ => counts.insert id 1
  | .clone id => counts.insert id ((counts.get id).getD 0 + 1)
  | .tryClose id =>
    if (counts.get id).getD 0 - 1 = 0 then counts.erase id
    else counts.insert id ((counts.get id).getD 0 - 1)
  | _ => counts

/-- Parent as it arrives through the tunnel. -/
def tpar : SParent → HParent
  | .explicit id => .explicit id
  | _ => .ctx

/-- Values as a host visitor is shown them through the tunnel. -/
def tvals (f : Fields) : RawVals := (presentRaw f).map fun kv => (kv.1, (visit kv.2).toRaw)

/-- The host calls the receiver makes for one subscriber call. -/
def Shape (sites : List CallSite) (w' : World) (counts : AMap Nat Nat) : SubCall → List HostCall → Prop
  | .register _ _, new => new = [] ∨ ∃ i, new = [.register i]
  | .newSpan id k p f, new => ∃ idx, idx < w'.arena.length ∧ siteOf w' idx = sites.getD k default ∧
      new = [.newSpan id idx (tpar p) (tvals f)]
  | .record id f, new => new = [.record id (tvals f)]
  | .follows a b, new => new = [.follows a b]
  | .enter id, new => new = [.enter id]
  | .exit id, new => new = [.exit id]
  | .clone _, new => new = []
  | .tryClose id, new => new = if (counts.get id).getD 0 - 1 = 0 then [.tryClose id] else []
  | .event k p f, new => ∃ idx, idx < w'.arena.length ∧ siteOf w' idx = sites.getD k default ∧
      new = [.event idx (tpar p) (tvals f)]

/-- Bookkeeping side of the invariant. -/
structure SInv (sites : List CallSite) (sp : Spec) (g : GSt) (counts : AMap Nat Nat) : Prop where
  knownS : ∀ k d, AMap.get sp.known k = some d → d = sites.getD k default
  cnt : ∀ id, AMap.get counts id = (AMap.get sp.alive id).map (·.refCount)
  site : ∀ id d, AMap.get sp.alive id = some d → AMap.get g.ss id = some d.mt

/-- Receiver side of the invariant: every alive guest span is presented, under its own id. -/
structure RInv (σ : Sigma) (sp : Spec) (g : GSt) : Prop where
  inv : InvCur σ sp
  locA : ∀ id, AMap.contains sp.alive id = true → AMap.get σ.r.loc id = some id
  next : σ.w.host.next = g.n

/-! ### Validity of one event -/

theorem tn_reasonMany_nil {vs : TVals} (h : reasonMany vs = []) : ¬ vs.length > maxValues := by
  unfold reasonMany at h
  split at h
  · cases h
  · assumption

theorem tn_reasonMeta_nil {sp : Spec} {k : Nat} (h : reasonMeta sp k = []) :
    AMap.contains sp.known k = true := by
  unfold reasonMeta at h
  split at h
  · assumption
  · cases h

theorem tn_reasonSpan_nil {sp : Spec} {id : Nat} (h : reasonSpan sp id = []) :
    AMap.contains sp.alive id = true := by
  unfold reasonSpan at h
  split at h
  · assumption
  · cases h

theorem tn_reasonOptSpan_nil {sp : Spec} {par : Option Nat} (h : reasonOptSpan sp par = [])
    (p : Nat) (hp : par = some p) : AMap.contains sp.alive p = true := by
  subst hp
  exact tn_reasonSpan_nil h

theorem tn_inv_of_ok {σ : Sigma} {sp : Spec} (h : InvCur σ sp) (e : Event)
    (he : evOK sp e = true) (hv : sp.invalid e = []) (σ' : Sigma)
    (ht : tryReceive σ e = .ok σ') : InvCur σ' (sp.apply e) := by
  rcases step_ev h e he with ⟨_, σ'', ht', hinv⟩ | ⟨r, rest, hi, _⟩
  · rw [ht] at ht'
    cases ht'
    exact hinv
  · rw [hv] at hi
    cases hi

/-! ### Bookkeeping step -/

theorem tn_sinv_step (sites : List CallSite) (sp : Spec) (g : GSt) (counts : AMap Nat Nat)
    (c : SubCall) (h : SInv sites sp g counts) (hv : sp.invalid (callToEvent c) = [])
    (hg : gok sites g c) :
    SInv sites (sp.apply (callToEvent c)) (gstep g c) (cstep counts c) := by
  cases c with
  | register k site =>
    simp only [gok] at hg
    refine ⟨?_, h.cnt, h.site⟩
    intro k' d hd
    simp only [callToEvent, Spec.apply, AMap.get_insert] at hd
    split at hd
    · cases hd; subst_vars; rfl
    · exact h.knownS k' d hd
  | newSpan id k p f =>
    refine ⟨h.knownS, ?_, ?_⟩
    · intro id'
      simp only [callToEvent, Spec.apply, cstep, AMap.get_insert]
      split
      · rfl
      · exact h.cnt id'
    · intro id' d hd
      simp only [callToEvent, Spec.apply, AMap.get_insert] at hd
      simp only [gstep, AMap.get_insert]
      split
      · rename_i he
        rw [if_pos he] at hd
        cases hd
        rfl
      · rename_i he
        rw [if_neg he] at hd
        exact h.site id' d hd
  | record id f =>
    simp only [callToEvent, Spec.invalid, List.append_eq_nil_iff] at hv
    obtain ⟨d, hd⟩ := alive_get_of_contains (tn_reasonSpan_nil hv.2)
    simp only [callToEvent, Spec.apply, hd, gstep, cstep]
    refine ⟨h.knownS, ?_, ?_⟩
    · intro id'
      simp only [AMap.get_insert]
      split
      · rename_i heq; rw [heq, h.cnt, hd]; rfl
      · exact h.cnt id'
    · intro id' d' hd'
      simp only [AMap.get_insert] at hd'
      split at hd'
      · rename_i heq; cases hd'; rw [heq]; exact h.site id d hd
      · exact h.site id' d' hd'
  | follows a b => exact h
  | enter id => exact h
  | exit id => exact h
  | event k p f => exact h
  | clone id =>
    simp only [callToEvent, Spec.invalid] at hv
    obtain ⟨d, hd⟩ := alive_get_of_contains (tn_reasonSpan_nil hv)
    have hc : AMap.get counts id = some d.refCount := by rw [h.cnt, hd]; rfl
    simp only [callToEvent, Spec.apply, hd, gstep, cstep, hc, Option.getD_some]
    refine ⟨h.knownS, ?_, ?_⟩
    · intro id'
      simp only [AMap.get_insert]
      split
      · rfl
      · exact h.cnt id'
    · intro id' d' hd'
      simp only [AMap.get_insert] at hd'
      split at hd'
      · rename_i heq; cases hd'; rw [heq]; exact h.site id d hd
      · exact h.site id' d' hd'
  | tryClose id =>
    simp only [callToEvent, Spec.invalid] at hv
    obtain ⟨d, hd⟩ := alive_get_of_contains (tn_reasonSpan_nil hv)
    have hc : AMap.get counts id = some d.refCount := by rw [h.cnt, hd]; rfl
    simp only [callToEvent, Spec.apply, hd, gstep, cstep, hc, Option.getD_some]
    by_cases h1 : d.refCount - 1 = 0
    · simp only [h1, if_true]
      refine ⟨h.knownS, ?_, ?_⟩
      · intro id'
        simp only [AMap.get_erase]
        split
        · rfl
        · exact h.cnt id'
      · intro id' d' hd'
        simp only [AMap.get_erase] at hd'
        split at hd'
        · cases hd'
        · exact h.site id' d' hd'
    · simp only [h1, if_false]
      refine ⟨h.knownS, ?_, ?_⟩
      · intro id'
        simp only [AMap.get_insert]
        split
        · rfl
        · exact h.cnt id'
      · intro id' d' hd'
        simp only [AMap.get_insert] at hd'
        split at hd'
        · rename_i heq; cases hd'; rw [heq]; exact h.site id d hd
        · exact h.site id' d' hd'

/-! ### Receiver step -/

theorem tn_arenaAlloc_prefix (a : List CallSite) (d : CallSite) : a <+: (arenaAlloc a d).1 := by
  unfold arenaAlloc
  cases indexOf? d a with
  | none => exact List.prefix_append _ _
  | some i => exact List.prefix_refl _

theorem tn_mt_site {sites : List CallSite} {σ : Sigma} {sp : Spec} {g : GSt}
    {counts : AMap Nat Nat} (hr : RInv σ sp g) (hs : SInv sites sp g counts) {k : Nat}
    (hk : AMap.contains sp.known k = true) :
    ∃ idx, AMap.get σ.r.mt k = some idx ∧ idx < σ.w.arena.length ∧
      siteOf σ.w idx = sites.getD k default := by
  obtain ⟨idx, hidx⟩ := mt_some_of_known hr.inv hk
  refine ⟨idx, hidx, hr.inv.mtok.lt k idx hidx, ?_⟩
  have := hr.inv.mtok.get k
  rw [hidx] at this
  exact hs.knownS k _ this.symm

theorem tn_tpar (p : SParent) : tparO (sparentId p) = tpar p := by
  cases p <;> rfl

theorem tn_alive_insert_same {sp : Spec} {id : Nat} {d : SpanData} (d' : SpanData)
    (hd : AMap.get sp.alive id = some d) (id' : Nat) :
    AMap.contains (AMap.insert sp.alive id d') id' = AMap.contains sp.alive id' := by
  rw [AMap.contains_insert]
  by_cases he : id' = id
  · subst he; simp [AMap.contains_eq, hd]
  · simp [he]

theorem tn_step (sites : List CallSite) (σ : Sigma) (sp : Spec) (g : GSt) (counts : AMap Nat Nat)
    (c : SubCall) (hr : RInv σ sp g) (hs : SInv sites sp g counts)
    (hv : sp.invalid (callToEvent c) = []) (he : evOK sp (callToEvent c) = true)
    (hg : gok sites g c) :
    ∃ σ' new, tryReceive σ (callToEvent c) = .ok σ' ∧
      σ'.w.host.log = new.reverse ++ σ.w.host.log ∧ σ.w.arena <+: σ'.w.arena ∧
      RInv σ' (sp.apply (callToEvent c)) (gstep g c) ∧ Shape sites σ'.w counts c new := by
  cases c with
  | register k site =>
    have ht : tryReceive σ (callToEvent (.register k site)) = .ok (onNewCallSite σ k site) := rfl
    have hinv := tn_inv_of_ok hr.inv _ he hv _ ht
    have hh : (onNewCallSite σ k site).w.host
        = if (arenaAlloc σ.w.arena site).2.2 = true
          then σ.w.host.emit (.register (arenaAlloc σ.w.arena site).2.1) else σ.w.host := rfl
    by_cases hnew : (arenaAlloc σ.w.arena site).2.2 = true
    · rw [if_pos hnew] at hh
      refine ⟨_, [.register (arenaAlloc σ.w.arena site).2.1], ht, by rw [hh]; rfl,
        tn_arenaAlloc_prefix _ _, ⟨hinv, hr.locA, by rw [hh]; exact hr.next⟩, Or.inr ⟨_, rfl⟩⟩
    · rw [if_neg hnew] at hh
      refine ⟨_, [], ht, by rw [hh]; rfl,
        tn_arenaAlloc_prefix _ _, ⟨hinv, hr.locA, by rw [hh]; exact hr.next⟩, Or.inl rfl⟩
  | newSpan id k p f =>
    simp only [callToEvent] at hv he ⊢
    have hv' := hv
    simp only [Spec.invalid, List.append_eq_nil_iff] at hv'
    obtain ⟨⟨h1, h2⟩, h3⟩ := hv'
    have hlen := tn_reasonMany_nil h1
    obtain ⟨idx, hmt, hlt, hsite⟩ := tn_mt_site hr hs (tn_reasonMeta_nil h2)
    have hfresh : AMap.contains sp.alive id = false := by simpa [evOK] using he
    have hloc : AMap.contains σ.r.loc id = false := by
      rw [AMap.contains_eq]
      cases hgl : AMap.get σ.r.loc id with
      | none => rfl
      | some hh =>
        have := hr.inv.locSub id hh hgl
        rw [hfresh] at this
        cases this
    have hpar : ∀ q, sparentId p = some q → AMap.get σ.r.loc q = some q :=
      fun q hq => hr.locA q (tn_reasonOptSpan_nil h3 q hq)
    obtain ⟨hid, hk, hgood⟩ := hg
    have hc := tn_recv_newSpan σ id k idx (sparentId p) (capture f) hlen hloc hmt hpar
    have hinv := tn_inv_of_ok hr.inv _ he hv _ hc
    have hnext : σ.w.host.next = id := by rw [hr.next, hid]
    rw [tn_tpar, hsite, tn_generateFields_capture _ f hgood, hnext] at hc hinv
    refine ⟨_, [.newSpan id idx (tpar p) (tvals f)], hc,
      (by show HostCall.newSpan σ.w.host.next idx (tpar p) _ :: σ.w.host.log = _; rw [hnext]; rfl),
      List.prefix_refl _, ⟨hinv, ?_, ?_⟩,
      ⟨idx, hlt, hsite, rfl⟩⟩
    · intro id' hid'
      simp only [Spec.apply, AMap.contains_insert, Bool.or_eq_true, decide_eq_true_eq] at hid'
      show AMap.get (AMap.insert σ.r.loc id id) id' = some id'
      rw [AMap.get_insert]
      split
      · subst_vars; rfl
      · rename_i hne
        exact hr.locA id' (hid'.resolve_left hne)
    · show σ.w.host.next + 1 = g.n + 1
      rw [hr.next]
  | record id f =>
    simp only [callToEvent] at hv he ⊢
    have hv' := hv
    simp only [Spec.invalid, List.append_eq_nil_iff] at hv'
    have hlen := tn_reasonMany_nil hv'.1
    have ha := tn_reasonSpan_nil hv'.2
    obtain ⟨d, hd⟩ := alive_get_of_contains ha
    have hd' : AMap.get σ.r.spans id = some d := (hr.inv.spansEq id).trans hd
    obtain ⟨idx, hmt, hlt, hsite⟩ := tn_mt_site hr hs (hr.inv.wf.known id d hd)
    obtain ⟨k, hk, hgood⟩ := hg
    have hkd : k = d.mt := by
      have := hs.site id d hd
      rw [hk] at this
      exact Option.some.inj this
    subst hkd
    have hc := tn_recv_record σ id idx d (capture f) hlen (hr.locA id ha) hd' hmt
    have hinv := tn_inv_of_ok hr.inv _ he hv _ hc
    rw [hsite, tn_generateFields_capture _ f hgood] at hc hinv
    refine ⟨_, [.record id (tvals f)], hc, rfl, List.prefix_refl _, ⟨hinv, ?_, hr.next⟩, rfl⟩
    intro id' hid'
    simp only [Spec.apply, hd] at hid'
    rw [tn_alive_insert_same _ hd] at hid'
    exact hr.locA id' hid'
  | follows a b =>
    simp only [callToEvent] at hv he ⊢
    have hv' := hv
    simp only [Spec.invalid, List.append_eq_nil_iff] at hv'
    have hc := tn_recv_follows σ a b (hr.locA a (tn_reasonSpan_nil hv'.1))
      (hr.locA b (tn_reasonSpan_nil hv'.2))
    have hinv := tn_inv_of_ok hr.inv _ he hv _ hc
    exact ⟨_, [.follows a b], hc, rfl, List.prefix_refl _, ⟨hinv, hr.locA, hr.next⟩, rfl⟩
  | enter id =>
    simp only [callToEvent] at hv he ⊢
    have hc := tn_recv_entered σ id (hr.locA id (tn_reasonSpan_nil hv))
    have hinv := tn_inv_of_ok hr.inv _ he hv _ hc
    exact ⟨_, [.enter id], hc, rfl, List.prefix_refl _, ⟨hinv, hr.locA, hr.next⟩, rfl⟩
  | exit id =>
    simp only [callToEvent] at hv he ⊢
    have hc := tn_recv_exited σ id (hr.locA id (tn_reasonSpan_nil hv))
    have hinv := tn_inv_of_ok hr.inv _ he hv _ hc
    exact ⟨_, [.exit id], hc, rfl, List.prefix_refl _, ⟨hinv, hr.locA, hr.next⟩, rfl⟩
  | clone id =>
    simp only [callToEvent] at hv he ⊢
    have ha := tn_reasonSpan_nil hv
    obtain ⟨d, hd⟩ := alive_get_of_contains ha
    have hd' : AMap.get σ.r.spans id = some d := (hr.inv.spansEq id).trans hd
    have hc := tn_recv_cloned σ id d hd'
    have hinv := tn_inv_of_ok hr.inv _ he hv _ hc
    refine ⟨_, [], hc, rfl, List.prefix_refl _, ⟨hinv, ?_, hr.next⟩, rfl⟩
    intro id' hid'
    simp only [Spec.apply, hd] at hid'
    rw [tn_alive_insert_same _ hd] at hid'
    exact hr.locA id' hid'
  | tryClose id =>
    simp only [callToEvent] at hv he ⊢
    have ha := tn_reasonSpan_nil hv
    obtain ⟨d, hd⟩ := alive_get_of_contains ha
    have hd' : AMap.get σ.r.spans id = some d := (hr.inv.spansEq id).trans hd
    have hrc := hr.inv.wf.rc id d hd
    have h0 : ¬ d.refCount = 0 := by omega
    have hcnt : AMap.get counts id = some d.refCount := by rw [hs.cnt, hd]; rfl
    by_cases h1 : d.refCount - 1 = 0
    · have hc := tn_recv_dropped_close σ id d hd' h0 h1 (hr.locA id ha)
      have hinv := tn_inv_of_ok hr.inv _ he hv _ hc
      refine ⟨_, [.tryClose id], hc, rfl, List.prefix_refl _, ⟨hinv, ?_, hr.next⟩, ?_⟩
      · intro id' hid'
        simp only [Spec.apply, hd, h1, if_true, AMap.contains_erase, Bool.and_eq_true,
          Bool.not_eq_true', decide_eq_false_iff_not] at hid'
        show AMap.get (AMap.erase σ.r.loc id) id' = some id'
        rw [AMap.get_erase, if_neg hid'.1]
        exact hr.locA id' hid'.2
      · simp only [Shape, hcnt, Option.getD_some, h1, if_true]
    · have hc := tn_recv_dropped_keep σ id d hd' h0 h1
      have hinv := tn_inv_of_ok hr.inv _ he hv _ hc
      refine ⟨_, [], hc, rfl, List.prefix_refl _, ⟨hinv, ?_, hr.next⟩, ?_⟩
      · intro id' hid'
        simp only [Spec.apply, hd, h1, if_false] at hid'
        rw [tn_alive_insert_same _ hd] at hid'
        exact hr.locA id' hid'
      · simp only [Shape, hcnt, Option.getD_some, h1, if_false]
  | event k p f =>
    simp only [callToEvent] at hv he ⊢
    have hv' := hv
    simp only [Spec.invalid, List.append_eq_nil_iff] at hv'
    obtain ⟨⟨h1, h2⟩, h3⟩ := hv'
    have hlen := tn_reasonMany_nil h1
    obtain ⟨idx, hmt, hlt, hsite⟩ := tn_mt_site hr hs (tn_reasonMeta_nil h2)
    have hpar : ∀ q, sparentId p = some q → AMap.get σ.r.loc q = some q :=
      fun q hq => hr.locA q (tn_reasonOptSpan_nil h3 q hq)
    obtain ⟨hk, hgood⟩ := hg
    have hc := tn_recv_newEvent σ k idx (sparentId p) (capture f) hlen hmt hpar
    have hinv := tn_inv_of_ok hr.inv _ he hv _ hc
    rw [tn_tpar, hsite, tn_generateFields_capture _ f hgood] at hc hinv
    exact ⟨_, [.event idx (tpar p) (tvals f)], hc, rfl, List.prefix_refl _,
      ⟨hinv, hr.locA, hr.next⟩, ⟨idx, hlt, hsite, rfl⟩⟩

end TT
