/-
  TT.Lemmas.Pred — helper lemmas for C18 (predicates and scanner helpers).
-/
import TT.Model.Pred

namespace TT

theorem beq_true' (b : Bool) : (b == true) = b := by cases b <;> rfl
theorem beq_false' (b : Bool) : (b == false) = !b := by cases b <;> rfl

theorem stripPrefix_eq_some (p t r : Str) : stripPrefix p t = some r ↔ t = p ++ r := by
  induction p generalizing t with
  | nil => simp [stripPrefix, eq_comm]
  | cons a as ih =>
    cases t with
    | nil => simp [stripPrefix]
    | cons b bs =>
      by_cases h : a = b
      · subst h; simp [stripPrefix, ih]
      · have h' : ¬ b = a := fun e => h e.symm
        simp [stripPrefix, h, h']

theorem isPrefix_iff (a b : Str) : isPrefix a b = true ↔ ∃ r, b = a ++ r := by
  induction a generalizing b with
  | nil => simp [isPrefix]
  | cons x xs ih =>
    cases b with
    | nil => simp [isPrefix]
    | cons y ys =>
      by_cases h : x = y
      · subst h; simp [isPrefix, ih]
      · have h' : ¬ y = x := fun e => h e.symm
        simp [isPrefix, h, h']

theorem any_hasCase_dual {α} (l : List α) (g : α → Bool) :
    (l.all fun a => !(g a)) = !(l.any g) := by
  induction l with
  | nil => rfl
  | cons a l ih => simp [ih]

/-- `scanSingle` is determined by the list of matches. -/
theorem scanSingle_eq (items : List Item) (m : Item → Bool) :
    scanSingle items m = match items.filter m with | [x] => some x | _ => none := by
  induction items with
  | nil => rfl
  | cons a rest ih =>
    by_cases h : m a = true
    · have hd : (List.dropWhile (fun x => !m x) (a :: rest)) = a :: rest := by
        simp [h]
      unfold scanSingle
      rw [hd]
      simp only [List.find?_cons, h, List.drop_one, List.tail_cons, List.filter_cons, if_true]
      rw [← List.head?_filter]
      cases List.filter m rest <;> simp
    · have h' : m a = false := by simpa using h
      have hd : (List.dropWhile (fun x => !m x) (a :: rest)) = List.dropWhile (fun x => !m x) rest := by
        simp [h']
      have : scanSingle (a :: rest) m = scanSingle rest m := by
        unfold scanSingle
        rw [hd]
        simp [h']
      rw [this, ih]
      simp [h']

end TT
