/-
  Driver.Prog — suite `prog`: sender stream, native host log and tunnelled host log of a program.
-/
import Driver.Recv
import TT.Model.Program

open TT

namespace Driver

def parsePParent (t : String) : Option PParent :=
  if t = "ctx" then some .ctx
  else if t = "root" then some .root
  else if t.startsWith "p:" then (t.drop 2).toString.toNat?.map .handle
  else none

def pPVals : P PVals := do
  let n ← pNat
  pRepeat (do let i ← pNat; let t ← tok; let p ← P.ofOpt (parsePrim t); pure (i, p)) n

def pPOp : P POp := do
  let t ← tok
  match t with
  | "reg" => do let k ← pNat; pure (.reg k)
  | "new" => do
    let k ← pNat; let pt ← tok; let p ← P.ofOpt (parsePParent pt); let vs ← pPVals
    pure (.new k p vs)
  | "rec" => do let s ← pNat; let vs ← pPVals; pure (.record s vs)
  | "fol" => do let a ← pNat; let b ← pNat; pure (.fol a b)
  | "ent" => do let s ← pNat; pure (.ent s)
  | "ext" => do let s ← pNat; pure (.ext s)
  | "cln" => do let s ← pNat; pure (.cln s)
  | "drp" => do let s ← pNat; pure (.drp s)
  | "evt" => do
    let k ← pNat; let pt ← tok; let p ← P.ofOpt (parsePParent pt); let vs ← pPVals
    pure (.evt k p vs)
  | _ => P.fail

structure ProgState where
  active : Bool := false
  sites : List CallSite := []
  ops : List POp := []       -- newest first
  filter : Option Nat := none
  bad : Bool := false
  oracleOnly : Bool := false

/-- First pool index with the same description. -/
def canonK (sites : List CallSite) (k : Nat) : Nat :=
  match indexOf? (sites.getD k default) sites with
  | some i => i
  | none => k

def canonSite (sites : List CallSite) (d : CallSite) : String :=
  match indexOf? d sites with
  | some i => s!"k{i}"
  | none => "k?"

/-- Print a host log (oldest first) with metadata shown through `showM`, tracking the stack. -/
def showLog (showM : Nat → String) (regSite : Nat → String) (calls : List HostCall) : List String :=
  let rec go (stack : List (Nat × Bool)) : List HostCall → List String
    | [] => []
    | c :: cs =>
      let stack' := match c with
        | .enter h => stackPush stack h
        | .exit h => stackPop stack h
        | .base h => stackPush stack h
        | _ => stack
      let line := match c with
        | .register m => s!"reg {showM m} {regSite m}"
        | .newSpan h m p vals => s!"new h{h} {showM m} {showHParent p} {showRawVals vals}"
        | .record h vals => s!"rec h{h} {showRawVals vals}"
        | .follows a b => s!"fol h{a} h{b}"
        | .enter h => s!"ent h{h}"
        | .exit h => s!"ext h{h}"
        | .clone h => s!"cln h{h}"
        | .tryClose h => s!"cls h{h}"
        | .event m p vals =>
          let c := match stackCurrent stack with | some h => s!"h{h}" | none => "-"
          s!"evt {showM m} {showHParent p} {showRawVals vals} cur={c}"
        | .base h => s!"base h{h}"
      line :: go stack' cs
  go [] calls

def opSiteOk (n : Nat) : POp → Bool
  | .reg k => decide (k < n)
  | .new k _ _ => decide (k < n)
  | .evt k _ _ => decide (k < n)
  | _ => true

def progFlush (st : ProgState) : List String :=
  if !st.active then [] else
  if st.bad || !(st.ops.all (opSiteOk st.sites.length)) then ["bad-input"] else
  if st.oracleOnly then [] else
  let sites := st.sites
  let ops := st.ops.reverse
  let stream := senderStream sites ops
  let sLines := stream.map fun e =>
    let e' := match e with
      | .newCallSite id d => Event.newCallSite (canonK sites id) d
      | .newSpan id p mt vs => Event.newSpan id p (canonK sites mt) vs
      | .newEvent mt p vs => Event.newEvent (canonK sites mt) p vs
      | e => e
    "s " ++ showEvent e'
  let nh := nativeRun st.filter sites ops
  let nLines := (showLog (fun m => s!"k{canonK sites m}") (fun m => showCallSite (sites.getD m default)) nh.log.reverse).map ("n " ++ ·)
  -- tunnelled: fold the stream through the receiver, counting rejections
  let (σ, rejected) := stream.foldl (fun (acc : Sigma × Nat) e =>
    match tryReceive acc.1 e with
    | .ok σ' => (σ', acc.2)
    | .err _ σ' => (σ', acc.2 + 1)
    | .panic _ σ' => (σ', acc.2 + 1)) (({ r := {}, w := { arena := [], host := {} } } : Sigma), 0)
  let tcalls := σ.w.host.log.reverse
  let tAll := showLog (fun m => canonSite sites (siteOf σ.w m)) (fun _ => "") tcalls
  let tLines := (tAll.filter fun l => !l.startsWith "reg ").map ("t " ++ ·)
  sLines ++ nLines ++ tLines ++ [s!"r {rejected}"]

def progStep (st : ProgState) (ts : List String) : ProgState × List String :=
  match ts with
  | "case" :: _ => ({ active := true }, progFlush st ++ [" ".intercalate ts])
  | ["__end__"] => ({}, progFlush st)
  | "site" :: k :: rest =>
    match pCallSite rest with
    | some (d, []) =>
      if k.toNat? = some st.sites.length then ({ st with sites := st.sites ++ [d] }, [])
      else ({ st with bad := true }, [])
    | _ => ({ st with bad := true }, [])
  | ["filter", l] => ({ st with filter := l.toNat? }, [])
  | ["sender", "start", _] => ({ st with oracleOnly := true }, [])
  | ["threads", _, _] => (st, [])
  | ["prehost", _] => (st, [])
  | ["direct", _] => (st, [])
  | ["nestedtracing", _] => ({ st with oracleOnly := true }, [])   -- values whose Debug impl uses tracing: judged by the harness oracles only
  | "p" :: rest =>
    match pPOp rest with
    | some (op, []) => ({ st with ops := op :: st.ops }, [])
    | _ => ({ st with bad := true }, [])
  | [] => (st, [])
  | _ => ({ st with bad := true }, [])

end Driver
