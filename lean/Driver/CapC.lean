/-
  Driver.CapC — suite `capconc`: forced schedules of several threads on the capture model.
-/
import Driver.PredD
import TT.Model.CaptureConc

open TT

namespace Driver

structure CapCState where
  active : Bool := false
  sites : List CallSite := []
  filter : LFilter := .all
  shared : Nat × Nat := (0, 0)
  work : AMap Nat (List POp) := []
  sched : Option (List Nat) := none
  bad : Bool := false

def capcFlush (st : CapCState) : List String :=
  if !st.active then [] else
  if st.bad then ["bad-input"] else
  match st.sched with
  | none => []
  | some sched =>
    let s0 := ConcSt.setup [st.filter] none st.sites st.shared.1 st.shared.2
    let s := runSchedule st.sites s0 st.work sched
    (if s.w.panicked then ["panic"] else []) ++ dumpStorage st.sites 0 (s.w.storages.getD 0 {})

def capcStep (st : CapCState) (ts : List String) : CapCState × List String :=
  match ts with
  | "case" :: _ => ({ active := true }, capcFlush st ++ [" ".intercalate ts])
  | ["__end__"] => ({}, capcFlush st)
  | "site" :: k :: rest =>
    match pCallSite rest with
    | some (d, []) =>
      if k.toNat? = some st.sites.length then ({ st with sites := st.sites ++ [d] }, [])
      else ({ st with bad := true }, [])
    | _ => ({ st with bad := true }, [])
  | ["lfilter", _, f] =>
    match parseLFilter f with
    | some f => ({ st with filter := f }, [])
    | none => ({ st with bad := true }, [])
  | ["shared", n, k] => ({ st with shared := (n.toNat?.getD 0, k.toNat?.getD 0) }, [])
  | "tp" :: tid :: rest =>
    match tid.toNat?, pPOp rest with
    | some t, some (op, []) => ({ st with work := st.work.insert t (((st.work.get t).getD []) ++ [op]) }, [])
    | _, _ => ({ st with bad := true }, [])
  | "sched" :: rest => ({ st with sched := some (rest.filterMap String.toNat?) }, [])
  | ["free"] => ({ st with sched := none }, [])
  | ["storm", _, _] => ({ st with sched := none }, [])
  | ["hold", _, _] => ({ st with sched := none }, [])    -- storage locked elsewhere for a while: implementation-side oracle only   -- free-running record storm: implementation-side oracle only
  | [] => (st, [])
  | _ => ({ st with bad := true }, [])

/-! ### suite `forest`: derived queries computed by the model from the REAL storage's raw links -/

structure ForestState where
  st : Storage := {}
  active : Bool := false

def parseIdxs (t : String) : List Nat :=
  let body := ((t.dropWhile (· != '[')).drop 1).toString
  let body := (body.splitOn "]").headD ""
  (body.splitOn ",").filterMap String.toNat?

def kvNat (t : String) : Option Nat := ((t.splitOn "=").getD 1 "").toNat?

def forestFlush (st : Storage) : List String :=
  let sp := (List.range st.spans.length).flatMap fun i =>
    [s!"Q desc {i} {showIdxs (st.descendants i)}", s!"Q anc {i} {showIdxs (st.ancestors i)}",
     s!"Q dev {i} {showIdxs (st.descendantEvents i)}"]
  let ev := (List.range st.events.length).map fun j => s!"Q eanc {j} {showIdxs (st.eventAncestors j)}"
  sp ++ ev

def forestStep (fs : ForestState) (ts : List String) : ForestState × List String :=
  match ts with
  | "F" :: "begin" :: _ => ({ st := {}, active := true }, [" ".intercalate ts])
  | ["F", "sp", _, par, ch, ev, ff] =>
    let sp : CapSpan := { mt := 0, values := [], parent := kvNat par,
                          children := parseIdxs ch, events := parseIdxs ev, follows := parseIdxs ff }
    ({ fs with st := { fs.st with spans := fs.st.spans ++ [sp] } }, [])
  | ["F", "evn", _, par] =>
    let ev : CapEvent := { mt := 0, values := [], parent := kvNat par }
    ({ fs with st := { fs.st with events := fs.st.events ++ [ev] } }, [])
  | ["F", "roots", sp, ev] =>
    ({ fs with st := { fs.st with rootSpans := parseIdxs sp, rootEvents := parseIdxs ev } }, [])
  | ["F", "end"] => ({}, forestFlush fs.st ++ ["F end"])
  | "Q" :: _ => (fs, [])
  | "X" :: kind :: la :: i :: lb :: j :: _ =>
    -- identity / order of two handles (storages named L<n> or R<n>)
    let key (l : String) : Nat := (if l.startsWith "R" then 100 else 0) + ((l.drop 1).toString.toNat?.getD 0)
    match i.toNat?, j.toNat? with
    | some i, some j =>
      let a : ItemRef := ⟨key la, i⟩
      let b : ItemRef := ⟨key lb, j⟩
      let c := match a.partialCmp b with
        | none => "none" | some .lt => "lt" | some .eq => "eq" | some .gt => "gt"
      (fs, [s!"X {kind} {la} {i} {lb} {j} eq={if a.beq b then 1 else 0} cmp={c}"])
    | _, _ => (fs, ["X bad"])
  | _ => (fs, [])

end Driver
