/-
  Driver.CapC — suite `capconc`: forced schedules of several threads on the capture model.
-/
import Driver.PredD
import TT.Model.CaptureConc

open TT

namespace Driver

structure CapCState where
  active : Bool := false
  sites : List CallSite := []
  filter : LFilter := .all
  shared : Nat × Nat := (0, 0)
  work : AMap Nat (List POp) := []
  sched : Option (List Nat) := none
  bad : Bool := false

def capcFlush (st : CapCState) : List String :=
  if !st.active then [] else
  if st.bad then ["bad-input"] else
  match st.sched with
  | none => []
  | some sched =>
    let s0 := ConcSt.setup [st.filter] none st.sites st.shared.1 st.shared.2
    let s := runSchedule st.sites s0 st.work sched
    (if s.w.panicked then ["panic"] else []) ++ dumpStorage st.sites 0 (s.w.storages.getD 0 {})

def capcStep (st : CapCState) (ts : List String) : CapCState × List String :=
  match ts with
  | "case" :: _ => ({ active := true }, capcFlush st ++ [" ".intercalate ts])
  | ["__end__"] => ({}, capcFlush st)
  | "site" :: k :: rest =>
    match pCallSite rest with
    | some (d, []) =>
      if k.toNat? = some st.sites.length then ({ st with sites := st.sites ++ [d] }, [])
      else ({ st with bad := true }, [])
    | _ => ({ st with bad := true }, [])
  | ["lfilter", _, f] =>
    match parseLFilter f with
    | some f => ({ st with filter := f }, [])
    | none => ({ st with bad := true }, [])
  | ["shared", n, k] => ({ st with shared := (n.toNat?.getD 0, k.toNat?.getD 0) }, [])
  | "tp" :: tid :: rest =>
    match tid.toNat?, pPOp rest with
    | some t, some (op, []) => ({ st with work := st.work.insert t (((st.work.get t).getD []) ++ [op]) }, [])
    | _, _ => ({ st with bad := true }, [])
  | "sched" :: rest => ({ st with sched := some (rest.filterMap String.toNat?) }, [])
  | ["free"] => ({ st with sched := none }, [])
  | [] => (st, [])
  | _ => ({ st with bad := true }, [])

end Driver
