/-
  Driver.Arena — suite `arenaconc`: forced schedules on the concurrent arena model.
-/
import Driver.Cap
import TT.Model.ArenaConc

open TT

namespace Driver

structure ArenaState where
  arena : CArena := {}
  work : List (Nat × List CallSite) := []

def addWork (work : List (Nat × List CallSite)) (t : Nat) (d : CallSite) : List (Nat × List CallSite) :=
  if work.any (·.1 == t) then work.map fun kv => if kv.1 == t then (kv.1, kv.2 ++ [d]) else kv
  else work ++ [(t, [d])]

/-- Run thread `t` to completion (at most two steps per pending announcement). -/
def finishThread (s : CState) (t : Nat) : CState :=
  let n := ((s.threads.get t).map fun th => 2 * th.todo.length + 2).getD 0
  (List.replicate n t).foldl (cstep fun _ => 0) s

def arenaStep (st : ArenaState) (ts : List String) : ArenaState × List String :=
  match ts with
  | "case" :: _ => ({ st with work := [] }, [" ".intercalate ts])
  | ["__end__"] => (st, [])
  | "t" :: tid :: rest =>
    match tid.toNat?, pCallSite rest with
    | some t, some (d, []) => ({ st with work := addWork st.work t d }, [])
    | _, _ => (st, ["bad-op"])
  | "sched" :: rest =>
    let sched := rest.filterMap String.toNat?
    let s := crun (fun _ => 0) (CState.init st.arena st.work) sched
    let tids := sortNat (st.work.map (·.1))
    -- name objects by first appearance
    let (lines, _) := tids.foldl (fun (acc : List String × List Nat) t =>
      let (toks, names) := (s.resultsOf t).foldl (fun (a : List String × List Nat) r =>
        let names := if a.2.contains r.1 then a.2 else a.2 ++ [r.1]
        let k := (names.idxOf r.1)
        (a.1 ++ [s!"o{k}:{bit r.2}"], names)) ([], acc.2)
      (acc.1 ++ [(" ".intercalate (s!"res {t}" :: toks))], names)) ([], [])
    let s' := tids.foldl finishThread s
    ({ arena := s'.arena, work := [] }, lines)
  | "stress" :: _ => (st, [])
  | ["weakhash"] => (st, [])   -- the real hash is degraded to a constant for this case; the model's hash is arbitrary
  | [] => (st, [])
  | _ => (st, ["bad-op"])

end Driver
