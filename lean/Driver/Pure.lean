/-
  Driver.Pure — suites `values`, `wire`, `normalize`: run the model on operation lines.
-/
import Driver.Proto

open TT

namespace Driver

def bit (b : Bool) : String := if b then "1" else "0"

structure ValState where
  cur : TVals := []
  evs : List Event := []      -- accumulator for the normalize suite
  collecting : Bool := false

def showOptNatTok : Option Nat → String | none => "-" | some n => toString n
def showOptIntTok : Option Int → String | none => "-" | some n => toString n
def showOptF : Option Nat → String | none => "-" | some n => natToHexPad n 16
def showOptS : Option Str → String | none => "-" | some s => showStr s
def showOptB : Option Bool → String | none => "-" | some b => bit b

def cmpLine (v : TVal) (ty : String) (c : String) : Option String :=
  match ty with
  | "bool" => (if c = "1" then some true else if c = "0" then some false else none).map fun x =>
      bit (v.eqBool x) ++ bit (v.eqBool x) ++ bit (v.asBool == some x)
  | "i128" => c.toInt?.map fun x => bit (v.eqI128 x) ++ bit (v.eqI128 x) ++ bit (v.asInt == some x)
  | "i64" => c.toInt?.map fun x => bit (v.eqI64 x) ++ bit (v.eqI64 x) ++ bit (v.asI64 == some x)
  | "u128" => c.toNat?.map fun x => bit (v.eqU128 x) ++ bit (v.eqU128 x) ++ bit (v.asUInt == some x)
  | "u64" => c.toNat?.map fun x => bit (v.eqU64 x) ++ bit (v.eqU64 x) ++ bit (v.asU64 == some x)
  | "f64" => (parseHexNat c).map fun x =>
      bit (v.eqF64 x) ++ bit (v.eqF64 x) ++ bit (optF64Eq v.asFloat (some x))
  | "str" => (parseStrTok c).map fun x => bit (v.eqStr x) ++ bit (v.eqStr x) ++ bit (v.asStr == some x)
  | _ => none

def valuesStep (st : ValState) (ts : List String) : ValState × List String :=
  match ts with
  | ["__end__"] => (st, [])
  | "case" :: _ => ({}, [" ".intercalate ts])
  | ["v", "new"] => ({ st with cur := [] }, ["st " ++ showEntries []])
  | ["v", "insert", k, v] =>
    match parseStrTok k, parseVal v with
    | some k, some v =>
      let r := st.cur.insert k v
      ({ st with cur := r.1 }, [s!"ret {showOptVal r.2}", "st " ++ showEntries r.1])
    | _, _ => (st, ["bad-op"])
  | ["v", "get", k] =>
    match parseStrTok k with
    | some k => (st, [s!"ret {showOptVal (st.cur.get k)}"])
    | none => (st, ["bad-op"])
  | "v" :: "extend" :: rest =>
    match pEntries rest with
    | some (es, []) => let r := st.cur.extend es; ({ st with cur := r }, ["st " ++ showEntries r])
    | _ => (st, ["bad-op"])
  | "v" :: "collect" :: rest =>
    match pEntries rest with
    | some (es, []) => let r := TVals.ofList es; ({ st with cur := r }, ["st " ++ showEntries r])
    | _ => (st, ["bad-op"])
  | "v" :: "mapde" :: rest =>
    -- the same map handed over by a deserializer that reports its exact length (not JSON text)
    match pEntries rest with
    | some (es, []) =>
      match decodeVals 64 (.obj (es.map fun kv => (kv.1, encodeVal kv.2))) with
      | some r => ({ st with cur := r }, ["st " ++ showEntries r])
      | none => (st, ["st err"])
    | _ => (st, ["bad-op"])
  | "v" :: "json" :: rest =>
    match pEntries rest with
    | some (es, []) =>
      -- deserialization of a JSON object with these entries, through the wire model
      match decodeVals 64 (.obj (es.map fun kv => (kv.1, encodeVal kv.2))) with
      | some r => ({ st with cur := r }, ["st " ++ showEntries r])
      | none => (st, ["st err"])
    | _ => (st, ["bad-op"])
  | ["v", "len"] => (st, [s!"n {st.cur.len}"])
  | ["v", "iter"] => (st, ["it " ++ showEntries st.cur.iter])
  | ["v", "iterrev"] => (st, ["it " ++ showEntries st.cur.iterRev])
  | ["v", "into"] => (st, ["it " ++ showEntries st.cur.intoIter])
  | "cap" :: rest =>
    match pPrimFields rest with
    | some (fs, []) =>
      let r := capture (fs.map fun f => (f.1, f.2.map Prim.toRaw))
      (st, ["st " ++ showEntries r, "st " ++ showEntries r, "st " ++ showEntries r])
    | _ => (st, ["bad-op"])
  | ["cmp", v, ty, c] =>
    match parseVal v with
    | some v => (st, [match cmpLine v ty c with | some s => "c " ++ s | none => "bad-op"])
    | none => (st, ["bad-op"])
  | ["view", v] =>
    match parseVal v with
    | some v => (st, [" ".intercalate ["vw", showOptB v.asBool, showOptIntTok v.asInt, showOptNatTok v.asUInt,
        showOptF v.asFloat, showOptS v.asStr, showOptS v.asDebugStr, showOptIntTok v.asI64,
        showOptNatTok v.asU64]])
    | none => (st, ["bad-op"])
  | [] => (st, [])
  | _ => (st, ["bad-op"])

def pSpansEntries : P PersistedSpans := do
  let n ← pNat
  pRepeat (do
    let id ← pNat; let mt ← pNat; let parent ← pOptNat; let rc ← pNat; let vs ← pEntries
    pure (id, { mt, parent, refCount := rc, values := vs : SpanData })) n

def pMetaEntries : P PersistedMeta := do
  let n ← pNat
  pRepeat (do let id ← pNat; let d ← pCallSite; pure (id, d)) n

def showSpans (m : PersistedSpans) : String :=
  let m := sortBy (·.1) m
  " ".intercalate (toString m.length :: m.map fun kv =>
    s!"{kv.1} {kv.2.mt} {showOptNat kv.2.parent} {kv.2.refCount} {showEntries kv.2.values}")

def showMeta (m : PersistedMeta) : String :=
  let m := sortBy (·.1) m
  " ".intercalate (toString m.length :: m.map fun kv => s!"{kv.1} {showCallSite kv.2}")

def wireStep (st : ValState) (ts : List String) : ValState × List String :=
  match ts with
  | ["__end__"] => (st, [])
  | "case" :: _ => ({}, [" ".intercalate ts])
  | "w" :: "enc" :: "evc" :: rest =>
    -- values assembled through `FromIterator` from entries that may repeat a name
    match pEvent rest with
    | some (e, []) =>
      let e' := match e with
        | .newSpan id p mt vs => Event.newSpan id p mt (TVals.ofList vs)
        | .valuesRecorded id vs => Event.valuesRecorded id (TVals.ofList vs)
        | .newEvent mt p vs => Event.newEvent mt p (TVals.ofList vs)
        | e => e
      (st, ["j " ++ showJson (encodeEvent e')])
    | _ => (st, ["bad-op"])
  | "w" :: "enc" :: "ev" :: rest =>
    match pEvent rest with
    | some (e, []) => (st, ["j " ++ showJson (encodeEvent e)])
    | _ => (st, ["bad-op"])
  | "w" :: "enc" :: "ps" :: rest =>
    match pSpansEntries rest with
    | some (m, []) => (st, ["j " ++ showJson (encodeSpans m)])
    | _ => (st, ["bad-op"])
  | "w" :: "enc" :: "pm" :: rest =>
    match pMetaEntries rest with
    | some (m, []) => (st, ["j " ++ showJson (encodeMeta m)])
    | _ => (st, ["bad-op"])
  | "w" :: "dec" :: "ev" :: canon :: rest =>
    match pJson rest with
    | some (j, []) =>
      let d := match decodeEvent 64 j with | some e => showEvent e | none => "err"
      let c := if canon = "1" then bit (conformsEvent 64 j) else "-"
      (st, [s!"d {d}", s!"c {c}"])
    | _ => (st, ["bad-op"])
  | "w" :: "dec" :: "ps" :: canon :: rest =>
    match (pJson rest).bind fun (j, r) => (objToMapN j).map (·, r) with
    | some (j, []) =>
      let d := match decodeSpans 64 j with | some m => showSpans m | none => "err"
      let c := if canon = "1" then bit (conformsSpans 64 j) else "-"
      (st, [s!"d {d}", s!"c {c}"])
    | _ => (st, ["bad-op"])
  | "w" :: "dec" :: "pm" :: canon :: rest =>
    match (pJson rest).bind fun (j, r) => (objToMapN j).map (·, r) with
    | some (j, []) =>
      let d := match decodeMeta j with | some m => showMeta m | none => "err"
      let c := if canon = "1" then bit (conformsMeta j) else "-"
      (st, [s!"d {d}", s!"c {c}"])
    | _ => (st, ["bad-op"])
  | [] => (st, [])
  | _ => (st, ["bad-op"])

def normalizeStep (st : ValState) (ts : List String) : ValState × List String :=
  match ts with
  | ["__end__"] => (st, [])
  | "case" :: _ => ({}, [" ".intercalate ts])
  | "ev" :: rest =>
    match pEvent rest with
    | some (e, []) => ({ st with evs := e :: st.evs }, [])
    | _ => (st, ["bad-op"])
  | ["normalize"] =>
    let out := normalize st.evs.reverse
    ({ st with evs := [] }, out.map fun e => "ev " ++ showEvent e)
  | [] => (st, [])
  | _ => (st, ["bad-op"])

end Driver
