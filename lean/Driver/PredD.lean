/-
  Driver.PredD — suite `pred`: predicate evaluation / case existence / scanner helpers.
-/
import Driver.Arena
import TT.Model.Pred

open TT

namespace Driver

/-- Split `a,b` at the top-level comma. -/
def splitTop (cs : List Char) : Option (List Char × List Char) :=
  let rec go (depth : Nat) (acc : List Char) : List Char → Option (List Char × List Char)
    | [] => none
    | ',' :: rest => if depth = 0 then some (acc.reverse, rest) else go depth (',' :: acc) rest
    | '(' :: rest => go (depth + 1) ('(' :: acc) rest
    | ')' :: rest => go (depth - 1) (')' :: acc) rest
    | c :: rest => go depth (c :: acc) rest
  go 0 [] cs

def parseStrP (kind : String) (x : String) : Option StrP :=
  match kind, parseStrTok x with
  | "eq", some s => some (.eq s)
  | "sw", some s => some (.startsWith s)
  | _, _ => none

def parseCmp : String → Option Cmp
  | "eq" => some .eq | "lt" => some .lt | "gt" => some .gt | _ => none

def parseLevelOpt (s : String) : Option (Option Level) :=
  if s = "off" then some none else (parseLevel s).map some

def parseAtom (s : String) : Option Pred :=
  match s.splitOn ":" with
  | ["lvl", l] => (parseLevel l).map fun l => .level (.exact l)
  | ["lvc", l] => (parseLevel l).map fun l => .level (.exact l)   -- `level([eq(..)])`: same meaning, other code path
  | ["lvf", l] => (parseLevelOpt l).map fun l => .level (.atMost l)
  | ["tgt", x] => (parseStrTok x).map fun p => .target (.pfx p)
  | ["tgp", k, x] => (parseStrP k x).map fun p => .target (.custom p)
  | ["name", k, x] => (parseStrP k x).map .name
  | ["msg", k, x] => (parseStrP k x).map .message
  | ["fld", n, "i64", v] => do let n ← parseStrTok n; let v ← v.toInt?; pure (.field n (.i64 v))
  | ["fld", n, "i128", v] => do let n ← parseStrTok n; let v ← v.toInt?; pure (.field n (.i128 v))
  | ["fld", n, "u64", v] => do let n ← parseStrTok n; let v ← v.toNat?; pure (.field n (.u64 v))
  | ["fld", n, "u128", v] => do let n ← parseStrTok n; let v ← v.toNat?; pure (.field n (.u128 v))
  | ["fld", n, "cint", v] => do let n ← parseStrTok n; let v ← v.toInt?; pure (.field n (.i128 v))   -- `[eq(TracedValue::Int(v))]`
  | ["fld", n, "cuint", v] => do let n ← parseStrTok n; let v ← v.toNat?; pure (.field n (.u128 v))
  | ["fld", n, "bool", v] => do let n ← parseStrTok n; pure (.field n (.bool (v = "1")))
  | ["fld", n, "f64", v] => do let n ← parseStrTok n; let b ← parseHexNat v; pure (.field n (.f64 b))
  | ["fld", n, "str", v] => do let n ← parseStrTok n; let s ← parseStrTok v; pure (.field n (.str s))
  | ["fld", n, "vi64", c, v] => do let n ← parseStrTok n; let c ← parseCmp c; let v ← v.toInt?; pure (.field n (.asI64 c v))
  | ["fld", n, "vu64", c, v] => do let n ← parseStrTok n; let c ← parseCmp c; let v ← v.toNat?; pure (.field n (.asU64 c v))
  | ["fld", n, "vstr", k, v] => do let n ← parseStrTok n; let p ← parseStrP k v; pure (.field n (.asStr p))
  | _ => none

partial def parsePred (cs : List Char) : Option Pred :=
  let s := String.ofList cs
  let inner (pre : Nat) : List Char := (cs.drop pre).dropLast
  if s.startsWith "and(" && s.endsWith ")" then do
    let (a, b) ← splitTop (inner 4); let a ← parsePred a; let b ← parsePred b; pure (.and a b)
  else if s.startsWith "or(" && s.endsWith ")" then do
    let (a, b) ← splitTop (inner 3); let a ← parsePred a; let b ← parsePred b; pure (.or a b)
  else if s.startsWith "par(" && s.endsWith ")" then (parsePred (inner 4)).map .parent
  else if s.startsWith "anc(" && s.endsWith ")" then (parsePred (inner 4)).map .ancestor
  else parseAtom s

structure PredState where
  active : Bool := false
  sites : List CallSite := []
  ops : List POp := []
  queries : List (List String) := []   -- newest first
  bad : Bool := false

def showItemRes : Option Item → String
  | some (.span i) => s!"r {i}"
  | some (.event j) => s!"r {j}"
  | none => "panic"

def showUnitRes : Option Unit → String
  | some () => "r ok"
  | none => "panic"

def runScan (kind : String) (items : List Item) (m : Item → Bool) (doubleEnded : Bool) : String :=
  match kind with
  | "single" => showItemRes (scanSingle items m)
  | "first" => showItemRes (scanFirst items m)
  | "last" => if doubleEnded then showItemRes (scanLast items m) else showItemRes (scanLast items m)
  | "all" => showUnitRes (scanAll items m)
  | _ => showUnitRes (scanNone items m)

def predFlush (st : PredState) : List String :=
  if !st.active then [] else
  if st.bad || !(st.ops.all (opSiteOk st.sites.length)) then ["bad-input"] else
  let w := captureRun [.all] none st.sites st.ops.reverse
  if w.panicked then ["panic"] else
  let storage := w.storages.getD 0 {}
  let c : PCtx := { sites := st.sites, st := storage }
  st.queries.reverse.map fun q =>
    match q with
    | ["q", what, i, tok] =>
      match i.toNat?, parsePred tok.toList with
      | some i, some p =>
        let item? : Option Item :=
          if what = "sp" then (if i < storage.spans.length then some (.span i) else none)
          else (if i < storage.events.length then some (.event i) else none)
        match item? with
        | some x => s!"e {bit (p.eval c x)} t {bit (p.hasCase c true x)} f {bit (p.hasCase c false x)}"
        | none => "na"
      | _, _ => "bad-op"
    | ["scan", kind, whr, tok] =>
      match parsePred tok.toList with
      | none => "bad-op"
      | some p =>
        let (place, arg) := match whr.splitOn ":" with
          | [a, b] => (a, b.toNat?)
          | _ => (whr, none)
        let rootOk := match arg with | some i => decide (i < storage.spans.length) | none => true
        if !rootOk then "na" else
        let r := arg.getD 0
        let items : List Item := match place, arg with
          | "spans", _ => storage.allSpans.map .span
          | "children", _ => (storage.childrenOf r).map .span
          | "desc", _ => (storage.descendants r).map .span
          | "events", none => storage.allEvents.map .event
          | "events", some _ => (storage.eventsOf r).map .event
          | _, _ => (storage.eventsOf r ++ storage.descendantEvents r).map .event
        runScan kind items (p.eval c) true
    | _ => "bad-op"

def predStep (st : PredState) (ts : List String) : PredState × List String :=
  match ts with
  | "case" :: _ => ({ active := true }, predFlush st ++ [" ".intercalate ts])
  | ["__end__"] => ({}, predFlush st)
  | "site" :: k :: rest =>
    match pCallSite rest with
    | some (d, []) =>
      if k.toNat? = some st.sites.length then ({ st with sites := st.sites ++ [d] }, [])
      else ({ st with bad := true }, [])
    | _ => ({ st with bad := true }, [])
  | "p" :: rest =>
    match pPOp rest with
    | some (op, []) => ({ st with ops := op :: st.ops }, [])
    | _ => ({ st with bad := true }, [])
  | "q" :: _ => ({ st with queries := ts :: st.queries }, [])
  | "scan" :: _ => ({ st with queries := ts :: st.queries }, [])
  | [] => (st, [])
  | _ => ({ st with bad := true }, [])

end Driver
