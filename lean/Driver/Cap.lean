/-
  Driver.Cap — suite `capture`: a program under Registry + capture layers; storage dumps.
-/
import Driver.Prog
import TT.Model.Capture

open TT

namespace Driver

structure CapState where
  active : Bool := false
  sites : List CallSite := []
  ops : List POp := []       -- newest first
  filters : List LFilter := [.all]
  global : Option Nat := none
  bad : Bool := false
  oracleOnly : Bool := false   -- a filter that looks at the context: judged by the harness's reference interpreter only

def parseLFilter (t : String) : Option LFilter :=
  if t = "-" then some .all
  else match t.splitOn ":" with
    | ["level", l] => l.toNat?.map .level
    | ["name", x] => (parseStrTok x).map .nameNot
    | ["target", x] => (parseStrTok x).map .targetPrefix
    | _ => none

def showIdxs (xs : List Nat) : String := "[" ++ ",".intercalate (xs.map toString) ++ "]"

def showOptIdx : Option Nat → String
  | some i => toString i
  | none => "-"

def dumpStorage (sites : List CallSite) (li : Nat) (st : Storage) : List String :=
  let k (m : Nat) : String := s!"k{canonK sites m}"
  let sp := st.spans.zipIdx.map fun (s, i) =>
    s!"L{li} sp {i} {k s.mt} {showEntries s.values} e={s.entered} x={s.exited} c={bit s.closed} par={showOptIdx s.parent} ch={showIdxs s.children} ev={showIdxs s.events} ff={showIdxs s.follows}"
  let ev := st.events.zipIdx.map fun (e, j) =>
    s!"L{li} evn {j} {k e.mt} {showEntries e.values} par={showOptIdx e.parent}"
  sp ++ ev ++ [s!"L{li} roots sp={showIdxs st.rootSpans} ev={showIdxs st.rootEvents}"]

def capFlush (st : CapState) : List String :=
  if !st.active then [] else
  if st.bad || !(st.ops.all (opSiteOk st.sites.length)) then ["bad-input"] else
  if st.oracleOnly then [] else
  let w := captureRun st.filters st.global st.sites st.ops.reverse
  (if w.panicked then ["panic"] else []) ++
    (w.storages.zipIdx.flatMap fun (s, i) => dumpStorage st.sites i s)

def capStep (st : CapState) (ts : List String) : CapState × List String :=
  match ts with
  | "case" :: _ => ({ active := true }, capFlush st ++ [" ".intercalate ts])
  | ["__end__"] => ({}, capFlush st)
  | "site" :: k :: rest =>
    match pCallSite rest with
    | some (d, []) =>
      if k.toNat? = some st.sites.length then ({ st with sites := st.sites ++ [d] }, [])
      else ({ st with bad := true }, [])
    | _ => ({ st with bad := true }, [])
  | ["layers", n] => ({ st with filters := List.replicate (n.toNat?.getD 1) .all }, [])
  | ["lfilter", _, "inspan"] => ({ st with oracleOnly := true }, [])
  | ["lfilter", i, f] =>
    match i.toNat?, parseLFilter f with
    | some i, some f => ({ st with filters := if i < st.filters.length then st.filters.set i f else st.filters }, [])
    | _, _ => ({ st with bad := true }, [])
  | ["gfilter", l] => ({ st with global := l.toNat? }, [])
  | ["pass", _] => (st, [])
  | ["nestedtracing", _] => ({ st with oracleOnly := true }, [])   -- values whose Debug impl uses tracing: judged by the harness only
  | ["probe", _, _] => (st, [])    -- the storage is read in mid-run: reading changes nothing
  | ["nested", _] => (st, [])     -- nested `Layered` values instead of a `Vec` of layers: the same stack
  | ["perlayer", _] => (st, [])   -- per-layer `Filtered` with an unfiltered layer present ≡ the layer's own filter
  | "p" :: rest =>
    match pPOp rest with
    | some (op, []) => ({ st with ops := op :: st.ops }, [])
    | _ => ({ st with bad := true }, [])
  | [] => (st, [])
  | _ => ({ st with bad := true }, [])

end Driver
