/-
  Driver.Recv — suite `receiver`: runs the receiver model on event / history lines.
-/
import Std.Data.HashSet
import Driver.Pure
import TT.Model.History

open TT

namespace Driver

def showRaw : Raw → String
  | .f64 b => "f64:" ++ natToHexPad b 16
  | .i64 i => s!"i64:{i}"
  | .u64 n => s!"u64:{n}"
  | .i128 i => s!"i128:{i}"
  | .u128 n => s!"u128:{n}"
  | .bool b => "bool:" ++ bit b
  | .str s => "str:" ++ toHex s
  | .error m ss => "err:" ++ showChain m ss
  | .debug s => "dbg:" ++ toHex s

def showRawVals (vs : RawVals) : String :=
  " ".intercalate (toString vs.length :: vs.flatMap fun kv => [showStr kv.1, showRaw kv.2])

def showHParent : HParent → String
  | .ctx => "ctx"
  | .root => "root"
  | .explicit h => s!"p:h{h}"

def showCall (w : World) (cur : Option Nat) : HostCall → String
  | .register m => s!"c reg m{m} {showCallSite (siteOf w m)}"
  | .newSpan h m p vals => s!"c new h{h} m{m} {showHParent p} {showRawVals vals}"
  | .record h vals => s!"c rec h{h} {showRawVals vals}"
  | .follows a b => s!"c fol h{a} h{b}"
  | .enter h => s!"c ent h{h}"
  | .exit h => s!"c ext h{h}"
  | .clone h => s!"c cln h{h}"
  | .tryClose h => s!"c cls h{h}"
  | .event m p vals =>
    let c := match cur with | some h => s!"h{h}" | none => "-"
    s!"c evt m{m} {showHParent p} {showRawVals vals} cur={c}"
  | .base h => s!"c base h{h}"

def showStack (s : List (Nat × Bool)) : String :=
  " ".intercalate ("sk" :: s.reverse.map fun e => s!"h{e.1}" ++ (if e.2 then "d" else ""))

/-- Calls emitted between two host states, oldest first. -/
def delta (before after : World) : List String :=
  let n := after.host.log.length - before.host.log.length
  ((after.host.log.take n).reverse).map (showCall after (stackCurrent after.host.stack))

def sortLines (ls : List String) : List String := (ls.toArray.qsort (· < ·)).toList

structure RecvState where
  active : Bool := false
  sys : Sys := {}

def showErr : RErr → String
  | .unknownMeta id => s!"r err um {id}"
  | .unknownSpan id => s!"r err us {id}"
  | .tooMany n => s!"r err tm {n}"

/-- persisted state after its serde round trip (identity by C11, executed nevertheless) -/
def rtSpans (ps : PersistedSpans) : PersistedSpans := (decodeSpans 100000 (encodeSpans ps)).getD []
def rtMeta (pm : PersistedMeta) : PersistedMeta := (decodeMeta (encodeMeta pm)).getD []

def endCase (st : RecvState) : List String :=
  if !st.active then [] else
    let w := dropR st.sys.σ
    sortLines (delta st.sys.σ.w w) ++ [showStack w.host.stack]

def freshSys (arena : List CallSite) : Sys := { σ := { r := {}, w := { arena, host := {} } } }

def parseMode : String → Option PMode
  | "keep" => some .keep
  | "lose" => some .lose
  | "losenew" => some .loseNew
  | _ => none

def recvStepCore (st : RecvState) (ts : List String) : RecvState × List String :=
  let s := st.sys
  match ts with
  | "case" :: _ =>
    let out := endCase st
    ({ active := true, sys := freshSys s.σ.w.arena }, out ++ [" ".intercalate ts])
  | ["__end__"] => ({ st with active := false }, endCase st)
  | ["host", "filter", _] => ({ st with sys := freshSys s.σ.w.arena }, [])
  | ["host", "weakhash"] => (st, [])   -- the real arena's hash is degraded for this case; the model has no hash
  | ["host", "base", k] =>
    let n := k.toNat?.getD 1
    let w0 := s.σ.w
    let host := (List.range n).foldl (fun h _ => h.pushBase) w0.host
    let w1 := { w0 with host }
    ({ st with sys := { s with σ := { s.σ with w := w1 } } }, delta w0 w1)
  | "ev" :: rest =>
    match pEvent rest with
    | some (e, []) =>
      let head := match tryReceive s.σ e with
        | .ok _ => "r ok"
        | .err e _ => showErr e
        | .panic _ _ => "r panic"
      let s' := s.step (.ev e)
      ({ st with sys := s' }, head :: delta s.σ.w s'.σ.w)
    | _ => (st, ["bad-op"])
  | ["h", "persist", mode] =>
    match parseMode mode with
    | none =>
      if mode.startsWith "cold:" then
        -- cold start: persisted state brought up where these call sites were never seen (their
        -- names get the suffix `#<nonce>`), local map lost, same host
        let suffix : Str := ("#" ++ (mode.drop 5).toString).toUTF8.toList.map (·.toNat)
        let pm := persistMeta s.σ
        let (ps, _, w) := persist s.σ
        let out1 := sortLines (delta s.σ.w w) ++ [showStack w.host.stack, "pm " ++ showMeta pm, "ps " ++ showSpans ps]
        -- (re-interned in ascending id order: the harness does the same before it builds the receiver)
        let pmSorted := (pm.toArray.qsort (fun a b => a.1 < b.1)).toList
        let pm' : PersistedMeta := pmSorted.map fun kv => (kv.1, { kv.2 with name := kv.2.name ++ suffix })
        let σ' := restore pm' ps [] w
        -- the receiver is built before the host is installed: the registrations of the new
        -- descriptions go to whatever subscriber is current then, not to the host
        ({ st with sys := { σ := σ', lastPm := pm', lastPs := ps } },
          out1 ++ (delta w σ'.w).filter fun l => !l.startsWith "c reg ")
      else if mode = "stale" then
        -- the receiver is persisted, but what it wrote is lost: the next receiver starts from the
        -- state of the previous persist together with the local span map of this one
        let pm := persistMeta s.σ
        let (ps, loc, w) := persist s.σ
        let out1 := sortLines (delta s.σ.w w) ++ [showStack w.host.stack, "pm " ++ showMeta pm, "ps " ++ showSpans ps]
        let σ' := restore s.lastPm s.lastPs loc w
        ({ st with sys := { s with σ := σ' } }, out1 ++ delta w σ'.w)
      else (st, ["bad-op"])
    | some m =>
      let pm := persistMeta s.σ
      let (ps, _, w) := persist s.σ
      let rtOk := decide (rtSpans ps = ps) && decide (rtMeta pm = pm)
      let out1 := sortLines (delta s.σ.w w) ++ [showStack w.host.stack, "pm " ++ showMeta pm, "ps " ++ showSpans ps]
        ++ (if rtOk then [] else ["model-serde-roundtrip-mismatch"])
      let s' := s.step (.persist m)
      let w' := match m with
        | .loseNew => { w with host := {} }
        | _ => w
      ({ st with sys := s' }, out1 ++ delta w' s'.σ.w)
  | ["regprobe", _] =>
    -- harness-only probe (a discarded execution on a Registry host); it interns one description
    let d : CallSite :=
      { kind := .span, name := "reg".toUTF8.toList.map (·.toNat), target := "regprobe".toUTF8.toList.map (·.toNat),
        level := .info, modulePath := none, file := none, line := none, fields := ["a".toUTF8.toList.map (·.toNat)] }
    let arena := if s.σ.w.arena.contains d then s.σ.w.arena else s.σ.w.arena ++ [d]
    ({ st with sys := { s with σ := { s.σ with w := { s.σ.w with arena } } } }, [])
  | ["leakprobe", _, tgt] =>
    -- harness-only probe (heap growth over repeated executions); it interns six descriptions
    -- `leak0..leak5` in the process-wide arena, which the `stats` lines count
    let mk (i : Nat) : CallSite :=
      { kind := if i % 2 = 0 then .span else .event, name := ("leak" ++ toString i).toUTF8.toList.map (·.toNat),
        target := tgt.toUTF8.toList.map (·.toNat), level := .info, modulePath := none,
        file := some ("src/leak.rs".toUTF8.toList.map (·.toNat)), line := some i,
        fields := ["a".toUTF8.toList.map (·.toNat), "b".toUTF8.toList.map (·.toNat)] }
    let arena := (List.range 6).foldl (fun (a : List CallSite) i => if a.contains (mk i) then a else a ++ [mk i]) s.σ.w.arena
    ({ st with sys := { s with σ := { s.σ with w := { s.σ.w with arena } } } }, [])
  | ["stats"] =>
    let arena := s.σ.w.arena
    let strs := arena.flatMap fun d => [d.name, d.target] ++ d.modulePath.toList ++ d.file.toList ++ d.fields
    -- (distinct strings counted through a hash set: `eraseDups` is quadratic in the arena's size)
    let distinct := (strs.foldl (fun (acc : Std.HashSet (List Nat)) x => acc.insert x) {}).size
    (st, [s!"stats {distinct} {arena.length}"])
  | ["h", "discard"] =>
    let w := dropR s.σ
    let out1 := sortLines (delta s.σ.w w) ++ [showStack w.host.stack]
    let s' := s.step .discard
    ({ st with sys := s' }, out1 ++ delta w s'.σ.w)
  | [] => (st, [])
  | _ => (st, ["bad-op"])

/-- Adds the operation markers (`@<op> <kind>`) that precede each operation's observations. -/
def recvStep (st : RecvState) (ts : List String) : RecvState × List String :=
  match ts with
  | "case" :: _ => recvStepCore st ts |> fun (st', out) =>
      -- the implicit drop at the end of the previous case is marked `@end`
      (st', (if st.active then ["@end"] else []) ++ out)
  | ["__end__"] => recvStepCore st ts |> fun (st', out) => (st', (if st.active then ["@end"] else []) ++ out)
  | [] => (st, [])
  | a :: rest =>
    let marker := ("@" ++ a ++ " " ++ (rest.head?.getD "")).trimAscii.toString
    let (st', out) := recvStepCore st ts
    (st', marker :: out)

end Driver
