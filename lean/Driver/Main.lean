import Driver.Pure
import Driver.Recv
import Driver.Prog
import Driver.Cap
import Driver.Arena
import Driver.PredD
import Driver.CapC

open Driver

partial def loop {σ : Type} (h : IO.FS.Stream) (out : IO.FS.Stream) (st : σ)
    (step : σ → List String → σ × List String) : IO Unit := do
  let line ← h.getLine
  if line.isEmpty then
    let (_, outs) := step st ["__end__"]
    for o in outs do out.putStrLn o
    return ()
  let (st', outs) := step st (tokens line)
  for o in outs do out.putStrLn o
  loop h out st' step

def main (args : List String) : IO UInt32 := do
  let stdin ← IO.getStdin
  let stdout ← IO.getStdout
  match args with
  | ["values"] => loop stdin stdout ({} : ValState) valuesStep; return 0
  | ["wire"] => loop stdin stdout ({} : ValState) wireStep; return 0
  | ["forest"] => loop stdin stdout ({} : ForestState) forestStep; return 0
  | ["capconc"] => loop stdin stdout ({} : CapCState) capcStep; return 0
  | ["pred"] => loop stdin stdout ({} : PredState) predStep; return 0
  | ["arenaconc"] => loop stdin stdout ({} : ArenaState) arenaStep; return 0
  | ["capture"] => loop stdin stdout ({} : CapState) capStep; return 0
  | ["prog"] => loop stdin stdout ({} : ProgState) progStep; return 0
  | ["receiver"] => loop stdin stdout ({} : RecvState) recvStep; return 0
  | ["normalize"] => loop stdin stdout ({} : ValState) normalizeStep; return 0
  | _ => IO.eprintln "usage: driver <suite>"; return 2
