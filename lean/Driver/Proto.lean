/-
  Driver.Proto — line protocol: tokens ↔ model values. Not part of the model; trusted as part of
  the correspondence check.
-/
import TT.Model.Normalize

open TT

namespace Driver

abbrev P (α : Type) := List String → Option (α × List String)

instance : Monad P where
  pure a := fun ts => some (a, ts)
  bind m f := fun ts => match m ts with
    | none => none
    | some (a, ts') => f a ts'

def P.fail {α} : P α := fun _ => none
def tok : P String := fun ts => match ts with | [] => none | t :: r => some (t, r)
def P.ofOpt {α} (o : Option α) : P α := fun ts => o.map (·, ts)

def hexDigit (c : Char) : Option Nat :=
  if '0' ≤ c ∧ c ≤ '9' then some (c.toNat - '0'.toNat)
  else if 'a' ≤ c ∧ c ≤ 'f' then some (c.toNat - 'a'.toNat + 10)
  else none

def parseHexChars : List Char → Option (List Nat)
  | [] => some []
  | a :: b :: rest => do
    let x ← hexDigit a
    let y ← hexDigit b
    let r ← parseHexChars rest
    pure ((x * 16 + y) :: r)
  | _ => none

def parseHex (s : String) : Option Str := parseHexChars s.toList

def hexChar (n : Nat) : Char := if n < 10 then Char.ofNat (n + 48) else Char.ofNat (n + 87)

def toHex (bs : Str) : String :=
  String.ofList (bs.flatMap fun b => [hexChar (b / 16 % 16), hexChar (b % 16)])

def parseHexNat (s : String) : Option Nat :=
  s.toList.foldl (fun acc c => do let a ← acc; let d ← hexDigit c; pure (a * 16 + d)) (some 0)

def natToHexPad (n : Nat) (width : Nat) : String :=
  let rec go (n : Nat) (w : Nat) (acc : List Char) : List Char :=
    match w with
    | 0 => acc
    | w + 1 => go (n / 16) w (hexChar (n % 16) :: acc)
  String.ofList (go n width [])

/-- `x<hex>` -/
def parseStrTok (t : String) : Option Str :=
  if t.startsWith "x" then parseHex (t.drop 1).toString else none

def pStr : P Str := do let t ← tok; P.ofOpt (parseStrTok t)
def showStr (s : Str) : String := "x" ++ toHex s

def pNat : P Nat := do let t ← tok; P.ofOpt t.toNat?
def pInt : P Int := do let t ← tok; P.ofOpt t.toInt?
def pOptNat : P (Option Nat) := do
  let t ← tok
  if t = "-" then pure none else P.ofOpt (t.toNat?.map some)

def showOptNat : Option Nat → String | none => "-" | some n => toString n
def showOptStr : Option Str → String | none => "-" | some s => showStr s

def pRepeat {α} (p : P α) : Nat → P (List α)
  | 0 => pure []
  | n + 1 => do let a ← p; let r ← pRepeat p n; pure (a :: r)

def splitComma (s : String) : List String := s.splitOn ","

def parseChain (payload : String) : Option (Str × List Str) :=
  match (splitComma payload).mapM parseHex with
  | some (m :: ss) => some (m, ss)
  | _ => none

def showChain (m : Str) (ss : List Str) : String := ",".intercalate ((m :: ss).map toHex)

/-- value token: `b0|b1`, `i<int>`, `u<nat>`, `f<16 hex>`, `s<hex>`, `o<hex>`, `e<hex>,<hex>…` -/
def parseVal (t : String) : Option TVal :=
  let body := (t.drop 1).toString
  match t.toList.head? with
  | some 'b' => if body = "1" then some (.bool true) else if body = "0" then some (.bool false) else none
  | some 'i' => body.toInt?.map .int
  | some 'u' => body.toNat?.map .uint
  | some 'f' => (parseHexNat body).map .float
  | some 's' => (parseHex body).map .str
  | some 'o' => (parseHex body).map .obj
  | some 'e' => (parseChain body).map fun (m, ss) => .err m ss
  | _ => none

def showVal : TVal → String
  | .bool b => if b then "b1" else "b0"
  | .int i => "i" ++ toString i
  | .uint n => "u" ++ toString n
  | .float b => "f" ++ natToHexPad b 16
  | .str s => "s" ++ toHex s
  | .obj s => "o" ++ toHex s
  | .err m ss => "e" ++ showChain m ss

def pVal : P TVal := do let t ← tok; P.ofOpt (parseVal t)

def pEntries : P (List (Str × TVal)) := do
  let n ← pNat
  pRepeat (do let k ← pStr; let v ← pVal; pure (k, v)) n

def showEntries (vs : List (Str × TVal)) : String :=
  " ".intercalate (toString vs.length :: vs.flatMap fun kv => [showStr kv.1, showVal kv.2])

def showOptVal : Option TVal → String | none => "-" | some v => showVal v

/-- prim token `<ty>:<payload>` or `empty` -/
def parsePrim (t : String) : Option (Option Prim) :=
  if t = "empty" ∨ t = "emptyv" then some none else
  match t.splitOn ":" with
  | [ty, p] =>
    (match ty with
    | "i8" => p.toInt?.map Prim.i8 | "i16" => p.toInt?.map Prim.i16 | "i32" => p.toInt?.map Prim.i32
    | "i64" => p.toInt?.map Prim.i64 | "isize" => p.toInt?.map Prim.isize | "i128" => p.toInt?.map Prim.i128
    | "u8" => p.toNat?.map Prim.u8 | "u16" => p.toNat?.map Prim.u16 | "u32" => p.toNat?.map Prim.u32
    | "u64" => p.toNat?.map Prim.u64 | "usize" => p.toNat?.map Prim.usize | "u128" => p.toNat?.map Prim.u128
    | "f32" => (parseHexNat p).map Prim.f32 | "f64" => (parseHexNat p).map Prim.f64
    | "bool" => if p = "1" then some (Prim.bool true) else if p = "0" then some (Prim.bool false) else none
    | "str" => (parseHex p).map Prim.str | "string" => (parseHex p).map Prim.string
    | "disp" => (parseHex p).map Prim.display | "dbg" => (parseHex p).map Prim.debugFmt
    | "bytes" => (parseHex p).map Prim.bytes
    | "err" => (parseChain p).map fun (m, ss) => Prim.error m ss
    | "erri" => (parseChain p).map fun (m, ss) => Prim.error m ss   -- sources stored inline: the same value
    | "dbgev" =>
      -- a Debug object whose rendering also emits an event (`<site>.<hex text>`); such programs are
      -- oracle-only (line `nestedtracing 1`), the value itself is the rendered text
      (match p.splitOn "." with
       | [_, h] => (parseHex h).map Prim.debugFmt
       | _ => none)
    | _ => none).map some
  | _ => none

def pPrimFields : P (List (Str × Option Prim)) := do
  let n ← pNat
  pRepeat (do let k ← pStr; let t ← tok; let p ← P.ofOpt (parsePrim t); pure (k, p)) n

def parseLevel : String → Option Level
  | "error" => some .error | "warn" => some .warn | "info" => some .info
  | "debug" => some .debug | "trace" => some .trace | _ => none
def showLevel : Level → String
  | .error => "error" | .warn => "warn" | .info => "info" | .debug => "debug" | .trace => "trace"
def parseKind : String → Option Kind
  | "span" => some .span | "event" => some .event | _ => none
def showKind : Kind → String | .span => "span" | .event => "event"

def pOptStr' : P (Option Str) := do
  let t ← tok
  if t = "-" then pure none else do let s ← P.ofOpt (parseStrTok t); pure (some s)

/-- `<kind> <level> <name> <target> <module|-> <file|-> <line|-> <n> <field>…` -/
def pCallSite : P CallSite := do
  let k ← tok; let kind ← P.ofOpt (parseKind k)
  let l ← tok; let level ← P.ofOpt (parseLevel l)
  let name ← pStr
  let target ← pStr
  let modulePath ← pOptStr'
  let file ← pOptStr'
  let line ← pOptNat
  let n ← pNat
  let fields ← pRepeat pStr n
  pure { kind, name, target, level, modulePath, file, line, fields }

def showCallSite (c : CallSite) : String :=
  " ".intercalate ([showKind c.kind, showLevel c.level, showStr c.name, showStr c.target,
    showOptStr c.modulePath, showOptStr c.file, showOptNat c.line, toString c.fields.length]
    ++ c.fields.map showStr)

/-- event tokens (after the leading `ev`) -/
def pEvent : P Event := do
  let t ← tok
  match t with
  | "ncs" => do let id ← pNat; let d ← pCallSite; pure (.newCallSite id d)
  | "nsp" => do
    let id ← pNat; let p ← pOptNat; let m ← pNat; let vs ← pEntries
    pure (.newSpan id p m vs)
  | "ff" => do let id ← pNat; let f ← pNat; pure (.followsFrom id f)
  | "ent" => do let id ← pNat; pure (.entered id)
  | "ext" => do let id ← pNat; pure (.exited id)
  | "cln" => do let id ← pNat; pure (.cloned id)
  | "drp" => do let id ← pNat; pure (.dropped id)
  | "rec" => do let id ← pNat; let vs ← pEntries; pure (.valuesRecorded id vs)
  | "nev" => do let m ← pNat; let p ← pOptNat; let vs ← pEntries; pure (.newEvent m p vs)
  | _ => P.fail

def showEvent : Event → String
  | .newCallSite id d => s!"ncs {id} {showCallSite d}"
  | .newSpan id p m vs => s!"nsp {id} {showOptNat p} {m} {showEntries vs}"
  | .followsFrom id f => s!"ff {id} {f}"
  | .entered id => s!"ent {id}"
  | .exited id => s!"ext {id}"
  | .cloned id => s!"cln {id}"
  | .dropped id => s!"drp {id}"
  | .valuesRecorded id vs => s!"rec {id} {showEntries vs}"
  | .newEvent m p vs => s!"nev {m} {showOptNat p} {showEntries vs}"

/-! canonical JSON tree text: `N`, `T`/`F`, `#<int>`, `~<16hex>`, `"<hex>`, `[ … ]`, `{ "<hex> v … }` -/

partial def showJson : Json → String
  | .null => "N"
  | .bool b => if b then "T" else "F"
  | .num i => "#" ++ toString i
  | .float b => "~" ++ natToHexPad b 16
  | .str s => "\"" ++ toHex s
  | .arr xs => " ".intercalate (["["] ++ xs.map showJson ++ ["]"])
  | .obj kvs => " ".intercalate (["{"] ++ kvs.flatMap (fun kv => ["\"" ++ toHex kv.1, showJson kv.2]) ++ ["}"])
  | .mapN kvs =>
    let kvs := sortBy (·.1) kvs
    " ".intercalate (["{"] ++ kvs.flatMap (fun kv =>
      ["\"" ++ toHex ((toString kv.1).toUTF8.toList.map (·.toNat)), showJson kv.2]) ++ ["}"])

partial def pJson : P Json := do
  let t ← tok
  if t = "N" then pure .null
  else if t = "T" then pure (.bool true)
  else if t = "F" then pure (.bool false)
  else if t.startsWith "#" then do let i ← P.ofOpt (t.drop 1).toString.toInt?; pure (.num i)
  else if t.startsWith "~" then do let b ← P.ofOpt (parseHexNat (t.drop 1).toString); pure (.float b)
  else if t.startsWith "\"" then do let s ← P.ofOpt (parseHex (t.drop 1).toString); pure (.str s)
  else if t = "[" then
    let rec items (acc : List Json) : P (List Json) := fun ts =>
      match ts with
      | "]" :: r => some (acc.reverse, r)
      | _ => match pJson ts with
        | none => none
        | some (j, r) => items (j :: acc) r
    do let xs ← items []; pure (.arr xs)
  else if t = "{" then
    let rec fields (acc : List (Str × Json)) : P (List (Str × Json)) := fun ts =>
      match ts with
      | "}" :: r => some (acc.reverse, r)
      | k :: r =>
        if k.startsWith "\"" then
          match parseHex (k.drop 1).toString, pJson r with
          | some ks, some (j, r') => fields ((ks, j) :: acc) r'
          | _, _ => none
        else none
      | [] => none
    do let kvs ← fields []; pure (.obj kvs)
  else P.fail

/-- Reinterpret an object whose keys are decimal numerals as `mapN`. -/
def objToMapN : Json → Option Json
  | .obj kvs => (kvs.mapM fun kv =>
      (String.ofList (kv.1.map Char.ofNat)).toNat?.map fun n => (n, kv.2)).map .mapN
  | _ => none

def tokens (line : String) : List String :=
  (line.trimAscii.toString.splitOn " ").filter (· ≠ "")

end Driver
