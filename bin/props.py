"""Per-property configuration of bin/check."""

TRUSTED_BASE = [
    "Lean 4.33.0 kernel (theorems re-checked by `lake build`; `leanchecker` in the thorough tier)",
    "axioms allowed in property theorems: propext, Classical.choice, Quot.sound (audited by #print axioms on every run); no sorry/admit/native_decide/bv_decide/own axioms (scanned)",
    "the hand-written Lean model of the code (TT/Model/*.lean) — tied to /repo by the correspondence check run on every invocation (Rust harness executes the real crates, Lean driver executes the model, observations diffed per case)",
    "the correspondence machinery itself: /verif/harness (generators, hosts, canonicalisation), lean/Driver (line protocol), bin/check",
]

Q = "quick"
T = "thorough"

PROPS = {
    "C14": dict(
        suites=[("values", {Q: 2000, T: 60000})],
        rule="values suite, capture cases only: real ValueSet/Record/Event objects over dynamic field sets "
             "(arity 0, 32, 1..8; duplicate names, also with signed-zero pairs and identical values; every primitive kind incl. Empty; "
             "error chains with boxed and with inline (same-address) sources) captured through "
             "from_values/from_record/from_event; non-trivial = a case with a duplicate field name and >= 3 lines; "
             "distinct by input text",
        trusted=["tracing-core 0.1.33 Value impls (which Visit callback each primitive triggers, f32->f64 widening, "
                 "HexBytes rendering) are modelled as Prim.toRaw and exercised for real by the harness"],
        assumptions=["ValueSet visiting order = array order (tracing-core)"],
    ),
    "C15": dict(
        suites=[("values", {Q: 2000, T: 60000})],
        rule="values suite: exhaustive insert/get sequences over 3 names x 3 values up to length 3 (quick) / 4 "
             "(thorough), random operation sequences (insert/get/extend/collect/JSON text/serde MapDeserializer with exact size hint/"
             "iterators with every positional adapter: nth, nth_back, rev().nth, rev().skip, last, len/size_hint/count, both ends; "
             "indexing vs get; every operation mirrored on a collection whose names are slices of shared buffers, so that a name which "
             "is a prefix of another one starts at the same address) up to 25/60 ops, one case in forty a collection of 257..700 distinct names, bulk extend / collect / JSON batches of 33..90 entries with names repeated inside the batch,  strings that end in line breaks, error chains of up to 40 entries, NaNs with sign / "
             "payload / signalling bit, typed comparisons on boundary-biased values incl. neighbouring bit patterns, signed zeros "
             "and NaNs; non-trivial = sequence that re-inserts an existing name "
             "and has >= 3 lines; distinct by input text",
        assumptions=["serde_json text layer (the `v json` op builds the document text itself and feeds it to the real deserializer)"],
    ),
}

NOT_APPLICABLE = {}

_BASE_NOTE = ("Trusted: Lean kernel; axioms propext/Classical.choice/Quot.sound only (audited every run); the hand-written model "
              "(tied to /repo only by the per-run correspondence check: real crates vs compiled Lean driver on identical "
              "operation lines); the harness/driver/bin/check machinery. ")

MANIFEST_TEXT = {
    "C14": dict(
        text="Theorems (all field lists, all primitive kinds, no bound on arity): capture = insert the provided fields one "
             "by one in declaration order; names appear once at their first position (Nodup); a repeated name keeps its last "
             "value; Empty fields are absent; the stored variant and content for every primitive kind. The model's `capture`, "
             "`visit` and `Prim.toRaw` are tied to the real from_values/from_record/from_event by running real "
             "ValueSet/Record/Event objects of every arity 0..=32 and kind through both on every run.",
        note=_BASE_NOTE + "Environment modelled, not verified: tracing-core's Value impls (which Visit callback a primitive triggers, "
             "f32 widening, byte-slice rendering) and ValueSet visiting order.",
        technique="Lean 4 proof (induction over field lists) + differential correspondence with the real visitor",
    ),
    "C15": dict(
        text="Theorems (all operation sequences, all values): refinement of TracedValues to a reference ordered map "
             "(insert in place / append, returned old value, get = latest, names Nodup invariant, len = distinct names, "
             "first-insertion order), build/extend/collect = fold of insert, iterator laws, and for every value and typed "
             "constant `v == x`, `x == v` and the typed accessor agree (IEEE for f64; i64/u64 views succeed iff the 128-bit "
             "number fits). Tied to the real TracedValues<String> by exhaustive short and random long operation sequences "
             "and boundary-biased comparisons on every run.",
        note=_BASE_NOTE + "serde_json's text layer is environment (the `v json` documents are written by the harness and read by the real deserializer).",
        technique="Lean 4 proof (refinement to a reference ordered map, case analysis on value kinds) + differential correspondence",
    ),
}

PROPS["C20"] = dict(
    suites=[("normalize", {Q: 1500, T: 40000})],
    rule="normalize suite: exhaustive sequences of announcements/uses over 3 call-site ids up to length 4 (quick) / 6 "
         "(thorough); random sender-like streams (1..6 call sites; random 64-bit, address-like or small dense ids that may coincide with the canonical ones; duplicate announcements at "
         "arbitrary positions, uses before announcement) up to 30/120 events; each case is also run under two injective "
         "relabellings with changed lines and event names; non-trivial = >= 1 duplicate announcement and >= 2 distinct "
         "call sites; distinct by input text",
    assumptions=["path::MAIN_SEPARATOR == '/' (the file-path branch of normalize is the identity on this platform)"],
)
MANIFEST_TEXT["C20"] = dict(
    text="Theorems (all event sequences, any ids): normalize = map (scrub ∘ rename rank) where rank numbers call sites by first "
         "occurrence; rank is injective on the mentioned ids (collision-free, duplicate announcements included); the result is "
         "invariant under every relabelling injective on the occurring ids, any line changes and any event call-site names; "
         "idempotent; span ids, parents, values, other call-site data and order untouched. The pre-repair behaviour is kept as "
         "normalizeOld with a kernel-checked counterexample. Tied to the real TracingEvent::normalize by exhaustive short and "
         "random long streams on every run.",
    note=_BASE_NOTE + "The Windows-only path-separator branch is not modelled.",
    technique="Lean 4 proof (simulation over the id map, invariant by induction) + differential correspondence",
)

_RECV_RULE = ("receiver suite: streams from a guest simulator (announcements incl. repeats and second ids for a known "
              "description, descriptions alternately built from owned and borrowed strings, names with separators / "
              "raw-identifier prefixes / duplicates; spans with contextual/explicit parents, span ids mostly increasing but also "
              "smaller, far away or recycled after death; nested / re-entrant / non-LIFO enters, overlapping enters before "
              "quiescent cuts, clones, drops, records with fields in stored, reversed or permuted order, follows-from, events; "
              "call sites with up to 130 fields), invalid events mixed in (unknown call sites, dead spans, 33..40 values), history "
              "operations persist keep|lose|losenew|cold|stale (cold = descriptions new to the process, receiver built before the host "
              "is installed; stale = what was persisted is lost and the next receiver starts from the previous state with the current "
              "local map; every other restore decodes the span state from a reader) and discard at random positions (every second receiver drop happens while its thread unwinds), "
              "retry-after-discard shapes, wide call sites with 33..130 accumulated values across a restart; exhaustive sequences "
              "over a 15-symbol alphabet up to length 3 (quick) / 5 (thorough). ")
for _p in ["C02", "C03", "C04", "C06", "C07", "C08"]:
    PROPS[_p] = dict(suites=[("receiver", {Q: 1500, T: 40000})], rule=_RECV_RULE)
PROPS["C02"]["rule"] += "non-trivial = >= 1 cut with an alive guest span and >= 4 events; distinct by input text"
PROPS["C03"]["rule"] += "non-trivial = as C02 (cut with alive span), counted over cases; restored presentations are counted in input_distribution"
PROPS["C04"]["rule"] += "one case in five also discards a small execution with nested spans on a tracing-subscriber Registry host with a capture layer (every span born in it must end up closed, no span current); non-trivial = as C02; cases with a span entered at the abort point are counted in input_distribution (nt:entered-at-abort)"
PROPS["C06"]["rule"] += "non-trivial = >= 1 rejected event while >= 1 span is alive, or a cut with an alive span"
PROPS["C07"]["rule"] += "non-trivial = >= 1 rejected event while >= 1 span is alive, or a cut with an alive span"
PROPS["C08"]["rule"] += "non-trivial = as C02"

def _c11_post(prop, results, root):
    """Validates every JSON document the real serializers produced against the frozen schema."""
    import subprocess
    docs = [str(r["dir"] / "wire.docs") for r in results if (r["dir"] / "wire.docs").exists()]
    if not docs:
        return [], {}
    p = subprocess.run([str(root / "bin" / "validate_wire.py")] + docs, capture_output=True, text=True)
    fails = [l for l in p.stdout.splitlines() if l.startswith("invalid ")]
    n = [l for l in p.stdout.splitlines() if l.startswith("validated ")]
    if p.returncode != 0 and not fails:
        fails = ["invalid schema validator crashed: " + p.stderr[-300:]]
    return fails, {"schema_validated_documents": int(n[0].split()[1]) if n else 0}

PROPS["C11"] = dict(
    suites=[("wire", {Q: 1500, T: 60000})],
    post=_c11_post,
    rule="wire suite: grammar-generated events (every variant), persisted span sets and metadata sets; ids from "
         "{0, u64::MAX, random 64-bit, small}; values of every kind with 128-bit extremes, 64-bit boundaries, finite floats "
         "incl. ±0 / subnormals / max / random bit patterns, strings empty / Unicode / escapes / NUL, error chains of depth "
         "1..5, value sets with 0 and 32 entries, persisted spans with 33..70 accumulated values, events whose values are collected "
         "from entries that repeat a name; forward: real serde_json::to_string vs model encode (tree comparison); "
         "backward: real from_str of the canonical document, of field-permuted documents and of documents with duplicate "
         "keys inside `values` vs model decode; every real document validated against wire/wire-0.2.schema.json and by the "
         "model's conforms*; non-trivial = an event whose value set has >= 3 entries of >= 3 kinds; distinct by input text",
    assumptions=["serde_json 1.0.134 with float_roundtrip (exact float round-tripping) is the reference encoding; its text layer "
                 "(number/string printing and parsing, map-key stringification) is environment; the harness tokenizes the text itself"],
)
MANIFEST_TEXT["C11"] = dict(
    text="Theorems (all ids within 64 bits, all 128-bit integers, all strings, error chains of any depth, value sets of any "
         "size with distinct names): decode(encode x) = some x for events, value collections, persisted spans and persisted "
         "metadata (so re-encoding is identical and value order preserved); duplicate keys inside `values` decode by insertion; "
         "every encoding satisfies the frozen 0.2 shape (conforms*). Model encode/decode tied to the real serde impls by tree "
         "comparison of real JSON text in both directions, incl. permuted and duplicate-key documents; every real document is "
         "also validated against the JSON schema kept under /verif/wire.",
    note=_BASE_NOTE + "The text layer of serde_json is environment (model stops at an abstract JSON tree). Non-finite floats are outside the property (not JSON-representable).",
    technique="Lean 4 proof (round-trip by structural induction, fuel for error chains) + differential correspondence + JSON-schema validation",
)

_RECV_NOTE = (_BASE_NOTE + "Environment modelled, not verified: the host subscriber (fresh ids 1,2,3…, Registry-style span stack), "
              "tracing-core's ValueSet/Attributes/Event plumbing, the process-wide arena in its sequential view, HashMap/HashSet as "
              "finite maps (finalize batches are compared sorted). The serde round trip at a cut is the identity by C11 and is "
              "executed for real by harness and driver at every cut. ")
MANIFEST_TEXT["C06"] = dict(
    text="Theorem over every history (any events, persist with kept/lost map/new host, discard) under the proviso that a span id "
         "is not re-announced while alive: try_receive never panics, returns ok iff the reference bookkeeping (known call sites, "
         "alive spans) gives no reason to reject, and otherwise reports the first applicable reason (C06_total_exact and "
         "corollaries). Proved by a simulation invariant between receiver state and bookkeeping (TT/Lemmas/RecvSim*). The model "
         "keeps explicit panic outcomes (unreachable!(), indexing, underflow), so totality is a theorem about reachable states. "
         "Tied to the real receiver by exhaustive sequences over a 15-symbol alphabet and long random / mutated streams with "
         "up to 64-field call sites across restore histories.",
    note=_RECV_NOTE, technique="Lean 4 proof (simulation invariant over histories) + differential correspondence + reference-bookkeeping oracle")
MANIFEST_TEXT["C07"] = dict(
    text="Theorems: whenever tryReceive returns an error the entire state (receiver, arena, host log, host stack) is unchanged "
         "(C07_reject_no_effect, by case analysis of every arm: all fallible lookups precede the first mutation or host call), and "
         "running any history equals running it with the rejected events removed (C07_filter). Correspondence as C06; the harness "
         "additionally replays every stream without its rejected events on the real code and compares host logs and persisted state.",
    note=_RECV_NOTE, technique="Lean 4 proof (case analysis + induction over histories) + differential correspondence + pairwise filtered-run oracle")
MANIFEST_TEXT["C02"] = dict(
    text="Theorems: (1) at every point of every history the receiver's persistable spans/metadata are lookup-equal to the reference "
         "bookkeeping of the effective event history, which mentions neither cuts nor hosts (C02_persisted_is_spec, "
         "C02_independent_of_cuts); (2) cutting any event stream with persist+restore (map kept) at points where the receiver holds no "
         "entered span leaves host log, host stack, arena and all acceptance results identical to the uncut run (C02_cut_invisible, "
         "any stream, any initial world with a duplicate-free arena). Correspondence: real persist / serde_json round trip / new at "
         "every cut, persisted JSON compared with the model and with the bookkeeping; cut-vs-uncut runs compared on the real code.",
    note=_RECV_NOTE + "Quiescence is stated on the receiver's entered map; TT.Props.C02Quiescence proves that, within a lifetime, that map is exactly the guest's enter/exit balance for accepted streams with balanced exits and no drop of an entered span's last handle.",
    technique="Lean 4 proof (simulation invariant; restore∘persist = id up to the uncommitted set) + differential correspondence")
MANIFEST_TEXT["C04"] = dict(
    text="Theorems over every history whose only well-formedness assumption is that the last handle of a span is not dropped while it "
         "is entered: after persist or drop the host span stack equals the stack before the chain processed anything (arbitrary base "
         "stack; nested, re-entrant, non-LIFO enters) (C04_stack_restored); persist emits only exits; drop closes exactly the host spans "
         "of the uncommitted guest spans, once each; the uncommitted set starts empty in every lifetime, grows by accepted new_span ids, "
         "shrinks on last drop, is duplicate-free and contains only alive spans. Model of the repaired code (enter counts). The retry "
         "clause is checked by the harness against the real code (pairwise runs) and follows from C06/C02 at the bookkeeping level.",
    note=_RECV_NOTE, technique="Lean 4 proof (stack-counting invariant over histories) + differential correspondence + abort-at-every-prefix oracles")
MANIFEST_TEXT["C08"] = dict(
    text="Theorems for every event sequence and every history (map kept, lost on same or new host, discard), from any well-used initial "
         "host: every span id passed to the host was issued by it earlier and not yet closed, nothing is closed twice (C08_id_discipline, "
         "C08_never_closes_twice); the drop of the last handle closes exactly loc[g] and removes the entry, other drops are silent; with "
         "the map preserved a run that ends with no alive guest span has an empty local map and every issued host span closed "
         "(C08_complete_run); at every state of such a history the open host spans are exactly the range of the map "
         "(C08_open_spans_are_the_mapped_ones). The id discipline and the no-leak invariant are also proved for histories with stale "
         "restores - a receiver built from span state that does not belong to the local map it is given (C08_id_discipline_stale, "
         "C08_no_leak_stale). Correspondence on a strict recording subscriber that flags any misuse; histories include `h persist stale` "
         "(what a receiver persisted is lost, the next one starts from the previous state with the current map).",
    note=_RECV_NOTE, technique="Lean 4 proof (id-discipline invariant over histories) + differential correspondence + strict-subscriber oracle")

_CAP_RULE = ("capture suite: well-formed single-threaded programs (as C01) driven directly into Registry + capture layer(s); layer "
             "filters from {none, level threshold, name predicate, target-prefix predicate}, optional global LevelFilter layer, "
             "pass-through layers in every position, 1..3 capture layers, stale follows-from targets, one case in sixty a chain of "
             "129..170 nested spans or a 9..16-level \"caterpillar\" (every level a descended span plus later siblings), unbalanced exits "
             "(Dispatch::exit on a span that is not entered), events whose explicit parent is the id of a dropped handle, one case in nine records values whose Debug impl emits an event while "
             "it is rendered (run under a 10 s watchdog, oracle-only), one case in three reads the storages in mid-run (`probe`: descendants of a span walked and counted "
             "while capturing goes on); the whole storage is dumped "
             "through the public query API and every C17 law is cross-checked on it, including equality / order of handles at every pair of "
             "positions within a storage and against a second storage (another layer's, or a second run's); for C16 one case in three "
             "applies the filters through tracing-subscriber's per-layer filtering (Layer::with_filter) next to an unfiltered layer "
             "(no panic, stack = alone; not compared with the model: there the contextual parent is the nearest entered span enabled for "
             "the filter); non-trivial = >= 3 captured spans, depth >= 2 and "
             ">= 1 captured event in the first layer; distinct by input text")
for _p in ["C05", "C16", "C17"]:
    PROPS[_p] = dict(suites=[("capture", {Q: 1500, T: 40000})], rule=_CAP_RULE)

PROPS["C04"]["extra_modules"] = ["TT.Props.C04Retry"]

MANIFEST_TEXT["C03"] = dict(
    text="Theorems: every event of a well-formed execution is accepted across any history of cuts with kept / lost map, new host or "
         "discard, including `entered c` for a span whose explicit parent was dropped before the restart (C03_accepts); a host span is "
         "created exactly when the guest span has none in the local map, exactly one, and the map then points to it; the entry is stable "
         "until the last drop (so: presented at most once per epoch, no later than the first enter); on a lazily re-created span the host "
         "sees new_span (call site, first 32 applicable stored values, explicit parent only if mapped) + record chunks + enter, in this "
         "order; stored values are the latest per field and the call site is the announced one (bookkeeping); explicit event parents are "
         "mapped through the local map and contextual events leave the stack untouched; the final persisted state is independent of the "
         "restart modes. Model of the repaired code (fixes 87e4544, b018624).",
    note=_RECV_NOTE, technique="Lean 4 proof (step lemmas + bookkeeping simulation) + differential correspondence + restart-at-every-cut oracles")
PROPS["C03"]["rule"] = PROPS["C03"]["rule"]

_PROG_RULE = ("prog suite: well-formed single-threaded guest programs at subscriber-call level (1..6 call sites with 0..=32 fields, every "
              "level, both kinds, sometimes declaring a field name twice; contextual / explicit / explicit-root parents; values of every primitive kind, "
              "mostly in declaration order, sometimes permuted or naming a field more than once (public value_set API); nested, re-entrant and "
              "non-LIFO enters; clones, drops, follows-from, records, events, repeated registrations), exhaustive programs over an "
              "11-symbol alphabet up to length 4 (quick) / 6 (thorough) and random programs up to 40 / 200 ops; each is run natively on a "
              "StrictHost, under the real TracingEventSender, and tunnelled (sender -> serde_json -> receiver -> StrictHost; one program in "
              "six is tunnelled without serialization and then records NaN and the infinities too; one program in eight records values "
              "whose Debug impl itself emits an event while it is rendered - oracle-only, the model has no such values); "
              "non-trivial = >= 2 spans, >= 1 enter, >= 1 event or record and one of {explicit parent, clone, follows-from}; distinct by input text")
PROPS["C12"] = dict(suites=[("prog", {Q: 1200, T: 30000})], rule=_PROG_RULE + "; plus 2..16 threads x 5..200 span creations through one shared sender, and the span-id counter preset near 2^32 through the cfg hook")
MANIFEST_TEXT["C12"] = dict(
    text="Theorems (all programs, no bound on length): the sender's stream equals the program's own operation log mapped call by call to "
         "events with the operation's span ids, explicit parent and captured values (C12_one_event_per_call); every call site used was "
         "announced earlier with the content of its metadata; span ids are 1,2,3,... (non-zero, never reused); the stream of a well-formed "
         "program is a valid stream (all references between creation and last drop, <= 32 values, no id announced while alive) "
         "(C12_stream_valid); under every schedule of atomic fetch_add steps the ids handed to any number of threads are pairwise distinct "
         "(C12_conc_distinct). All under the explicit bound of fewer than 2^32-1 span creations; C12_wrap_counterexample shows the bound is "
         "necessary (known finding K2). The concurrency clause is a proof over an interleaving model of atomic steps, tied to the code by "
         "free-running threads; real memory-model behaviour is assumed.",
    note=_BASE_NOTE + "Environment modelled, not verified: the `tracing` front end (one subscriber call per span operation, registration before first use, enabled before new_span/event, child_of(None)=new_root) and AtomicU32::fetch_add as one atomic step.",
    technique="Lean 4 proof (lock-step simulation of subscribers, invariants over programs, interleaving model) + differential correspondence")

PROPS["C01"] = dict(suites=[("prog", {Q: 1200, T: 30000})], rule=_PROG_RULE)
MANIFEST_TEXT["C01"] = dict(
    text="Theorems (all well-formed single-threaded programs, any length, any arena history): every event of the sender's stream is "
         "accepted (C01_accepts); call for call the host receives through sender -> receiver what it receives natively, with values "
         "widened to the documented value model, clones/drops folded into the single close at handle count zero, call sites compared by "
         "content, and explicit roots arriving as contextual (C01_log_simulation, unconditional); hence the traces (logs with contextual "
         "parents resolved against the host's span stack) are equal for programs that create explicit-root spans/events only while no "
         "span is entered (C01_partial). The full statement is false of the code — the wire format cannot express an explicit root "
         "(C01_counterexample, known finding K1, reported by the check as KNOWN-FINDING with the weakened comparison root->contextual). "
         "C01_log_simulation assumes that no value set names a field twice; for programs that do, the code delivers the value list collapsed by "
         "name (C01_counterexample_repeated, known finding K5), and that exact relation is proved for all programs with no distinctness "
         "assumption (C01_log_simulation_general, C01_accepts_general, collapseVals_of_nodup). "
         "Tied to the code by running every program natively and tunnelled (real sender, serde_json, real receiver) on two StrictHosts.",
    note=_RECV_NOTE + "Also environment: the `tracing` front end at subscriber-call level (enabled before new_span/event, registration before first use, child_of(None)=new_root).",
    technique="Lean 4 proof (simulation native host vs sender∘receiver over the program's call log) + differential correspondence (native vs tunnelled)")
PROPS["C13"] = dict(suites=[("prog", {Q: 1200, T: 30000}), ("receiver", {Q: 900, T: 6000})], rule=_PROG_RULE + "; every case runs under a host level filter (0..4) on both the native and the tunnelled host; "
    "receiver suite, C13 cases: well-formed streams with call sites of all levels under a host level filter (0..4), cut by persist keep / lose "
    "at quiescent and non-quiescent points (no valid event may be rejected, every event the host enables is delivered)")
PROPS["C09"] = dict(suites=[("receiver", {Q: 250, T: 5000})],
    rule="receiver suite, C09 cases: a base description (0/3/8/64 fields) and 11 variants differing in exactly one attribute (kind, level, "
         "name incl. empty, target, module path presence, file incl. Unicode, line, field added / order / one name), announced "
         "repeatedly under fresh and reused ids across persist keep/lose/new-host/discard/cold cycles (cold = all ids of the restored "
         "metadata, equal descriptions under several ids included, are interned in one go in a process that never saw them), each used "
         "once so that the metadata object shows, a third of the spans kept alive across re-announcements of their id; interned-string "
         "and metadata counts read through the cfg hook and the metadata count compared with the number of distinct descriptions the "
         "process has announced or restored; every metadata object's call-site identifier must lead back to that object; one case in "
         "ten repeats the same small execution 100..300 times and requires the thread's live heap (counting allocator) not to grow; non-trivial = a cut with an alive span or >= 2 "
         "rounds (every case has >= 2 rounds); half of the cases run with the arena's hash degraded to a constant through the cfg hook "
         "(all descriptions in one bucket, so eq_metadata alone keeps them apart; marked descriptions, disjoint from the others); distinct by input text")
PROPS["C10"] = dict(suites=[("arenaconc", {Q: 120, T: 2000})],
    rule="arenaconc suite: all interleavings (at lock-acquisition granularity, forced through the cfg-guarded yield point between the "
         "read-locked scan and the write-locked insertion) of 2 threads (quick) / 2-3 threads (thorough) x 1-2 announcements for equal / "
         "different / mixed work shapes; random work (2-4 threads x 1-3 announcements from a pool of 3 descriptions) under random, "
         "possibly truncated schedules; free-running stress with 2-16 threads; every enumerated schedule and half of the random ones and of the "
         "stress runs are repeated with the hash degraded to a constant through the cfg hook (one bucket: the remembered bucket length and the "
         "tail re-scan decide); non-trivial = a schedule in which steps of different "
         "threads alternate; distinct by input text")

MANIFEST_TEXT["C09"] = dict(
    text="Theorems on the sequential arena: the object handed out has exactly the announced description and old objects keep theirs; "
         "equal descriptions resolve to the identical object and only the first announcement allocates (at most one host registration), "
         "different descriptions (equality = all eight attributes, C09_attributes) to distinct objects; after any sequence of "
         "announcements the arena is exactly the distinct descriptions (memory bounded by distinct descriptions); the receiver "
         "registers iff the description is new to the process; the arena stays duplicate-free over any history; persist_metadata "
         "returns the announced data under every id (bookkeeping theorem). Tied to the real arena by descriptions differing in exactly "
         "one attribute, repeated across receivers and restore cycles, with pointer identity, registrations, metadata content and the "
         "interned-string / metadata counters (cfg hook) compared with the model.",
    note=_RECV_NOTE + "leak_metadata / CallSiteData::from(&Metadata) attribute copying and the hash/bucket layout are abstracted in the sequential view (the bucket structure is modelled in C10).",
    technique="Lean 4 proof (list lemmas on the interning arena) + differential correspondence (pointer identity, counters)")
MANIFEST_TEXT["C10"] = dict(
    text="Proof over an interleaving model (each read-locked scan and each write-locked re-scan+insert is one atomic step; any number of "
         "threads, any work, any hash function incl. collisions, every schedule): the arena stays duplicate-free, every announcement "
         "obtains an object with exactly its description (so equal => identical, different => distinct across threads), every object "
         "allocated in the run is reported new by exactly one announcement, and a schedule giving every thread two steps per "
         "announcement completes. Partial in the sense of DESIGN §4: the RwLock contract and the memory model are assumed. Tied to the "
         "code by forcing every enumerated schedule on the real arena through cfg-guarded yield points and comparing objects/new-flags "
         "with the model, plus free-running stress on up to 16 threads.",
    note=_BASE_NOTE + "Assumed, not modelled: RwLock atomicity of critical sections, memory model, OS scheduling; string interning (same two-phase pattern, only entered under the metadata write lock) is not stepped separately.",
    technique="Lean 4 proof (invariant over all interleavings of atomic steps) + forced-schedule correspondence + stress")

_CAP_NOTE = (_BASE_NOTE + "Environment modelled, not verified: tracing-subscriber 0.3.19 Registry/Layered (parent resolution, reference "
             "counting, per-thread span stack with duplicate marking, close cascade, extension slots), id-arena (ids = positions), the "
             "front end at subscriber-call level. ")
MANIFEST_TEXT["C17"] = dict(
    text="Theorems: Storage.WF (parent index < child index, parent/children and span/event lists inverse, children and event lists "
         "sorted, root lists = parentless items in order, follows-from targets valid) holds for the empty storage, is preserved by every "
         "storage operation of the layer, hence for every storage of every program under any stack of capture layers "
         "(C17_wf_reachable); on WF storages: roots characterised, ancestor chains are the parent chains (not cut by fuel), strictly "
         "decreasing and end at a root; the iterator model of DescendantSpans::next yields exactly the pre-order traversal; descendants "
         "= spans having the span among their ancestors, each once, parents before children; descendant events = events of descendants; "
         "exact lengths / reversibility of the id-list iterators. Every law is also cross-checked on the real storage through the "
         "public API by the harness, and the real dump is compared with the model's.",
    note=_CAP_NOTE + "Cross-storage comparisons (ptr::eq on the storage) are checked by the harness only.",
    technique="Lean 4 proof (invariant preservation; fuel-independence and traversal lemmas) + differential correspondence + law cross-checks on the real API")

PROPS["C18"] = dict(suites=[("pred", {Q: 2000, T: 6000})],
    rule="pred suite: storages from generated programs (single capture layer, no filter; site names / targets / field values aligned with "
         "the predicate atoms); predicate instances are compiled into the harness from a generated table (types are static in Rust): "
         "47 atoms per side (level exact / LevelFilter incl. OFF, ERROR, TRACE; target path / custom; name incl. raw identifiers; field "
         "with typed constants of every kind incl. 0.0 / -0.0 / NaN and value(..) views, fields named `r#type` / `type`; message incl. "
         "messages that are error values; parent, ancestor, parent(ancestor)) + all `&` / `|` combinations over a 16-atom core (depth 2) "
         "+ 160 sampled depth-3 combinations with the compound operand on either side of either operator, with and without redundant "
         "parentheses (`a & b | c`) + one-element-array forms `level([..])`, `field(.., [..])`, targets with multi-byte characters incl. a path ending inside one, two "
         "message constants of ~390 bytes of two-byte characters (the rendered predicate exceeds 200 bytes at both parities) = 725 span "
         "and 726 event predicates, every third query picks a plain atom; one case in 25 is a chain of 10..24 nested spans in which "
         "only the outermost ones carry the names the ancestor atoms ask for; targets include near "
         "misses of the `::` rule (`app:db`, `app:`, `my_app` vs "
         "`my-app`), items with a string field `log.target`, 128-bit values congruent to the typed constants modulo 2^64; every query evaluates eval, find_case(true), find_case(false); scanner "
         "helpers single/first/last/all/none over all spans/events, children, events, descendants, deep events under catch_unwind; "
         "non-trivial = >= 10 predicate queries on existing items of a storage with >= 2 spans; distinct by input text")
MANIFEST_TEXT["C18"] = dict(
    text="Theorems (every predicate built from the factories and & / |, any depth, every item of every storage): a supporting case for "
         "an expected outcome exists exactly when evaluation yields that outcome (C18_case_iff, induction over the predicate; value "
         "predicates separately); reference meaning of each factory: target = path or below it at a `::` boundary; level exact / "
         "threshold / OFF matches nothing; field present and matching with strict value kinds; message; direct parent; any ancestor; "
         "and / or; scanner helpers are determined by the list of matching items (single <-> exactly one, first/last = head/last of the "
         "matches, all, none). Model eval/hasCase mirror the code arm by arm and are tied to it by 1451 compiled predicate instances "
         "evaluated on real storages.",
    note=_CAP_NOTE + "Leaf predicates of the `predicates` crate (eq, lt/gt, str::starts_with) are assumed to satisfy find_case(e,x).is_some() <-> eval(x)=e; the harness checks this for every atom it uses.",
    technique="Lean 4 proof (structural induction over predicates) + differential correspondence on compiled predicate instances")

MANIFEST_TEXT["C13"] = dict(
    text="Known finding K4: the receiver never consults the host's enabled() — the first clause is false of the code (C13_counterexample, "
         "kernel-checked; reported by the check as KNOWN-FINDING when a host-disabled span/event reaches the filtered host). Proved: "
         "C13_faithful — for every well-formed program, every level filter and any arena history, erasing from the tunnelled log everything "
         "about spans with a disabled call site and the disabled events, masking parent links and renumbering span ids by creation order "
         "gives exactly the (normalised, widened) native log under that filter: everything the host enables is delivered with call site, "
         "values and enter/exit/close history, in order; C13_never_rejects — a valid stream is never rejected whatever the filter. "
         "Tied to the code by native vs tunnelled runs under identical level filters on two StrictHosts.",
    note=_RECV_NOTE + "Filters are level thresholds in the theorem (any metadata predicate would do: the proof only uses that `enabled` is a function of the call site).",
    technique="Lean 4 proof (lock-step simulation of filtered vs unfiltered native runs composed with C01) + differential correspondence")
MANIFEST_TEXT["C16"] = dict(
    text="Theorems (model of the repaired layer): for every program the API permits (well-formed as in C12, except that a follows-from may "
         "target an already dropped, possibly closed span), every stack of capture layers with any filters and any global level filter, "
         "no callback panics — so no storage lock is poisoned — (C16_no_panic, by a reference-accounting invariant of the registry), and "
         "every layer's storage equals the storage it produces as the only capture layer (C16_independent, simulation with frame lemmas "
         "for the other layers). Both are also proved for the raw subscriber API: exits without a matching enter and events whose explicit "
         "parent is the id of a dropped, possibly closed span (C16_no_panic_raw_api, C16_independent_raw_api; the class contains the former "
         "one: wfStepL_of_wfStepS). Tied to the code by stacks of 1-3 real capture layers with independent filters, pass-through layers in "
         "every position and stale follows-from targets; each real storage is also compared with the single-layer run of the real code.",
    note=_CAP_NOTE + "Pass-through layers do not exist in the model (they cannot influence it); the harness runs them for real.",
    technique="Lean 4 proof (registry accounting invariant; per-layer simulation) + differential correspondence + single-layer vs stack oracle")

MANIFEST_TEXT["C05"] = dict(
    text="Theorem C05_storage_is_spec (every well-formed single-threaded program, every global level filter, every stack of layer filters): "
         "no callback panics and the storage of every layer equals `expectedStorage`, an independent reference interpreter of tracing's "
         "parent/scope rules over the program's own call log (no reference counting, no span extensions, no cascade): exactly the enabled "
         "spans/events in emission order, values in recording order with in-place override, parent = nearest captured ancestor "
         "(explicit and root parents honoured, filtered-out spans skipped) or root, enter/exit counts, follows-from edges among captured "
         "spans in order, and the closed flag exactly when all handles are dropped, the span is not entered and all children are closed. "
         "Proved by a reference-count invariant of the registry model and a per-call simulation. Tied to the code by dumping the whole "
         "real storage through the public API for programs x filters and comparing with the model.",
    note=_CAP_NOTE, technique="Lean 4 proof (registry reference-count invariant + simulation against a declarative reference) + differential correspondence")


# ---- per-property projections of the observation stream (DESIGN §3.3): a check compares only
# ---- what its property constrains, so that a change breaking another property is reported there.
def _groups(lines):
    groups, cur = [], None
    for l in lines:
        if l.startswith("@"):
            cur = [l]
            groups.append(cur)
        elif cur is None:
            cur = ["@", l]
            groups.append(cur)
        else:
            cur.append(l)
    return groups


def _proj_receiver(prop):
    def proj(suite, lines):
        if suite != "receiver":
            return lines
        out = []
        for g in _groups(lines):
            head, body = g[0], g[1:]
            if prop == "C06":                      # accept / reject(kind) / panic
                out += [l for l in body if l.startswith("r ")]
            elif prop == "C07":                    # everything around rejections, finalize batches, persisted state
                rej = any(l.startswith("r err") or l == "r panic" for l in body)
                if rej or head.startswith(("@h", "@end")):
                    out += body
                else:
                    out += [l for l in body if l.startswith(("r ", "pm ", "ps "))]
            elif prop == "C04":                    # finalize batches, stacks, acceptance, persisted state
                if head.startswith(("@h", "@end", "@host")):
                    out += body
                else:
                    out += [l for l in body if l.startswith("r ")]
            elif prop == "C08":                    # every host call (ids) and acceptance
                out += [l for l in body if l.startswith(("c ", "r "))]
            elif prop == "C09":                    # registrations, metadata objects, persisted metadata, counters
                for l in body:
                    if l.startswith(("c reg ", "pm ", "stats ")):
                        out.append(l)
                    elif l.startswith(("c new ", "c evt ")):
                        out.append(" ".join(t for t in l.split(" ")[:4] if t.startswith("m") or t in ("c", "new", "evt")))
            else:                                  # C02, C03: the whole observation
                out += body
        return out
    return proj


for _p in ["C02", "C03", "C04", "C06", "C07", "C08", "C09"]:
    PROPS[_p]["project"] = _proj_receiver(_p)


def _proj_prog(prop):
    def proj(suite, lines):
        if suite != "prog":
            return lines
        if prop == "C12":
            return [l for l in lines if l.startswith("s ")]
        return [l for l in lines if l.startswith(("n ", "t ", "r "))]
    return proj


for _p in ["C01", "C12", "C13"]:
    PROPS[_p]["project"] = _proj_prog(_p)


def _proj_c13(suite, lines):
    if suite == "receiver":                    # acceptance only (delivery is an implementation-side oracle)
        return [l for l in lines if l.startswith("r ")]
    return _proj_prog("C13")(suite, lines)


PROPS["C13"]["project"] = _proj_c13

PROPS["C19"] = dict(suites=[("capconc", {Q: 120, T: 1500})],
    rule="capconc suite: 2-3 threads under forced schedules (one operation at a time executed by the designated real thread; random "
         "interleavings of per-thread programs of up to 8 ops, with 0-2 shared spans created by the main thread that threads may enter, "
         "record on, follow or use as explicit parents) compared with the interleaving model; 2-16 free-running real threads with "
         "programs of up to 30 (quick) / 120 (thorough) ops on one shared Registry + CaptureLayer (layer filters none / level / name); the shared "
         "spans' call site has one field per thread and a thread records only its own (final value = its last record, whatever the others did); "
         "one case in ten is a record storm (2-8 threads x 2000 / 20000 records on one shared span, each thread re-reading its field after every record), "
         "checked per thread against the single-threaded reference run plus all C17 laws on the shared storage; all threads are kept "
         "alive until the end of a case (the Registry's per-thread stacks live in recycled thread_local slots); non-trivial = >= 2 "
         "threads creating spans (free) or a schedule alternating between threads at least twice (forced); distinct by input text")


def _proj_capture(prop):
    def proj(suite, lines):
        if suite != "capture":
            return lines
        if prop == "C16":          # panics / poisoned storages only (independence is an implementation-side oracle)
            return [l for l in lines if l == "panic" or "poisoned" in l]
        if prop == "C17":          # the forest structure only
            out = []
            for l in lines:
                t = l.split(" ")
                if len(t) > 2 and t[1] == "sp":
                    out.append(" ".join(t[:3] + t[-4:]))
                elif len(t) > 2 and t[1] == "evn":
                    out.append(" ".join(t[:3] + t[-1:]))
                else:
                    out.append(l)
            return out
        return lines
    return proj


for _p in ["C05", "C16", "C17"]:
    PROPS[_p]["project"] = _proj_capture(_p)


def _c17_post(prop, results, root):
    """Derived queries (descendants, ancestors, descendant events) computed by the model from the
    REAL storage's raw links vs the real API's answers (decoupled from what was captured)."""
    import subprocess
    fails, n = [], 0
    drv = root / "lean" / ".lake" / "build" / "bin" / "driver"
    for r in results:
        docs = r["dir"] / "capture.docs"
        if not docs.exists():
            continue
        text = docs.read_text()
        p = subprocess.run([str(drv), "forest"], input=text, capture_output=True, text=True)
        impl = [l for l in text.splitlines() if l.startswith(("Q ", "X ", "F begin", "F end"))]
        model = p.stdout.splitlines()
        n += sum(1 for l in impl if l.startswith(("Q ", "X ")))
        if impl != model:
            k = next((i for i, (a, b) in enumerate(zip(impl, model)) if a != b), min(len(impl), len(model)))
            fails.append(f"forest query differs: real API `{impl[k] if k < len(impl) else '<end>'}` vs model on the same links `{model[k] if k < len(model) else '<end>'}`")
    return fails, {"forest_queries_compared": n}


PROPS["C17"]["post"] = _c17_post
PROPS["C17"]["project"] = lambda suite, lines: [l for l in lines if l == "panic" or "poisoned" in l]

MANIFEST_TEXT["C19"] = dict(
    text="Proof over an interleaving model (every subscriber call of a thread — registry bookkeeping plus the layer callbacks under the "
         "storage lock — is one atomic step; per-thread span stacks; any number of threads, any schedule; threads may enter, record on, "
         "follow and use as explicit parents the spans another thread created before they started): no callback panics, every storage "
         "satisfies the structural laws of C17, and every layer's storage equals the reference `expectedStorageC` over the interleaved "
         "call log — every enabled item captured exactly once in log order, parent = nearest captured ancestor of what the calling "
         "thread's own stack (or the explicit parent) dictates, counts, follows edges, closed flags (C19_all_schedules); the log "
         "restricted to a thread is that thread's own call sequence in emission order (C19_thread_order); a field of a span shared by several "
         "threads holds the last value written to it in the interleaved log, hence the last value of the only thread that writes it "
         "(C19_no_lost_update, C19_own_field_final). Partial in the sense of "
         "DESIGN §4: lock atomicity and the memory model are assumed. Tied to the code by forced schedules on real threads (one "
         "operation at a time, storage compared with the model) and by 2-16 free-running threads checked per thread against the "
         "single-threaded reference run and the C17 laws, with one field per thread on the shared spans (final value = the thread's last "
         "record) and record storms that re-read the storage after every record (probe of the atomicity assumption).",
    note=_CAP_NOTE + "Assumed, not modelled: RwLock atomicity of callbacks, memory model, OS scheduling; the Registry's thread_local slot recycling is avoided by keeping harness threads alive.",
    technique="Lean 4 proof (registry reference-count invariant over all interleavings, simulation against a declarative reference) + forced-schedule correspondence + free-running per-thread projection oracle")

PROPS["C02"]["extra_modules"] = ["TT.Props.C02Quiescence", "TT.Props.C02GuestLevel"]
PROPS["C01"]["extra_modules"] = ["TT.Props.C01General"]
PROPS["C19"]["extra_modules"] = ["TT.Props.C19NoLostUpdate"]
PROPS["C08"]["extra_modules"] = ["TT.Props.C08Stale"]
PROPS["C16"]["extra_modules"] = ["TT.Props.C16Loose"]
