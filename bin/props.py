"""Per-property configuration of bin/check."""

TRUSTED_BASE = [
    "Lean 4.33.0 kernel (theorems re-checked by `lake build`; `leanchecker` in the thorough tier)",
    "axioms allowed in property theorems: propext, Classical.choice, Quot.sound (audited by #print axioms on every run); no sorry/admit/native_decide/bv_decide/own axioms (scanned)",
    "the hand-written Lean model of the code (TT/Model/*.lean) — tied to /repo by the correspondence check run on every invocation (Rust harness executes the real crates, Lean driver executes the model, observations diffed per case)",
    "the correspondence machinery itself: /verif/harness (generators, hosts, canonicalisation), lean/Driver (line protocol), bin/check",
]

Q = "quick"
T = "thorough"

PROPS = {
    "C14": dict(
        suites=[("values", {Q: 600, T: 60000})],
        rule="values suite, capture cases only: real ValueSet/Record/Event objects over dynamic field sets "
             "(arity 0, 32, 1..8; duplicate names; every primitive kind incl. Empty) captured through "
             "from_values/from_record/from_event; non-trivial = a case with a duplicate field name and >= 3 lines; "
             "distinct by input text",
        trusted=["tracing-core 0.1.33 Value impls (which Visit callback each primitive triggers, f32->f64 widening, "
                 "HexBytes rendering) are modelled as Prim.toRaw and exercised for real by the harness"],
        assumptions=["ValueSet visiting order = array order (tracing-core)"],
    ),
    "C15": dict(
        suites=[("values", {Q: 600, T: 60000})],
        rule="values suite: exhaustive insert/get sequences over 3 names x 3 values up to length 3 (quick) / 4 "
             "(thorough), random operation sequences (insert/get/extend/collect/serde/iterators) up to 25/60 ops, "
             "typed comparisons on boundary-biased values; non-trivial = sequence that re-inserts an existing name "
             "and has >= 3 lines; distinct by input text",
        assumptions=["serde_json text layer (the `v json` op builds the document text itself and feeds it to the real deserializer)"],
    ),
}

NOT_APPLICABLE = {}

_BASE_NOTE = ("Trusted: Lean kernel; axioms propext/Classical.choice/Quot.sound only (audited every run); the hand-written model "
              "(tied to /repo only by the per-run correspondence check: real crates vs compiled Lean driver on identical "
              "operation lines); the harness/driver/bin/check machinery. ")

MANIFEST_TEXT = {
    "C14": dict(
        text="Theorems (all field lists, all primitive kinds, no bound on arity): capture = insert the provided fields one "
             "by one in declaration order; names appear once at their first position (Nodup); a repeated name keeps its last "
             "value; Empty fields are absent; the stored variant and content for every primitive kind. The model's `capture`, "
             "`visit` and `Prim.toRaw` are tied to the real from_values/from_record/from_event by running real "
             "ValueSet/Record/Event objects of every arity 0..=32 and kind through both on every run.",
        note=_BASE_NOTE + "Environment modelled, not verified: tracing-core's Value impls (which Visit callback a primitive triggers, "
             "f32 widening, byte-slice rendering) and ValueSet visiting order.",
        technique="Lean 4 proof (induction over field lists) + differential correspondence with the real visitor",
    ),
    "C15": dict(
        text="Theorems (all operation sequences, all values): refinement of TracedValues to a reference ordered map "
             "(insert in place / append, returned old value, get = latest, names Nodup invariant, len = distinct names, "
             "first-insertion order), build/extend/collect = fold of insert, iterator laws, and for every value and typed "
             "constant `v == x`, `x == v` and the typed accessor agree (IEEE for f64; i64/u64 views succeed iff the 128-bit "
             "number fits). Tied to the real TracedValues<String> by exhaustive short and random long operation sequences "
             "and boundary-biased comparisons on every run.",
        note=_BASE_NOTE + "serde_json's text layer is environment (the `v json` documents are written by the harness and read by the real deserializer).",
        technique="Lean 4 proof (refinement to a reference ordered map, case analysis on value kinds) + differential correspondence",
    ),
}

PROPS["C20"] = dict(
    suites=[("normalize", {Q: 400, T: 40000})],
    rule="normalize suite: exhaustive sequences of announcements/uses over 3 call-site ids up to length 4 (quick) / 6 "
         "(thorough); random sender-like streams (1..6 call sites, random 64-bit ids, duplicate announcements at "
         "arbitrary positions, uses before announcement) up to 30/120 events; each case is also run under two injective "
         "relabellings with changed lines and event names; non-trivial = >= 1 duplicate announcement and >= 2 distinct "
         "call sites; distinct by input text",
    assumptions=["path::MAIN_SEPARATOR == '/' (the file-path branch of normalize is the identity on this platform)"],
)
MANIFEST_TEXT["C20"] = dict(
    text="Theorems (all event sequences, any ids): normalize = map (scrub ∘ rename rank) where rank numbers call sites by first "
         "occurrence; rank is injective on the mentioned ids (collision-free, duplicate announcements included); the result is "
         "invariant under every relabelling injective on the occurring ids, any line changes and any event call-site names; "
         "idempotent; span ids, parents, values, other call-site data and order untouched. The pre-repair behaviour is kept as "
         "normalizeOld with a kernel-checked counterexample. Tied to the real TracingEvent::normalize by exhaustive short and "
         "random long streams on every run.",
    note=_BASE_NOTE + "The Windows-only path-separator branch is not modelled.",
    technique="Lean 4 proof (simulation over the id map, invariant by induction) + differential correspondence",
)
