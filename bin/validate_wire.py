#!/usr/bin/env python3-vt
"""Validates the JSON documents produced by the real serializers (work/.../wire.docs) against
wire/wire-0.2.schema.json. Prints one line `invalid <n> <kind> <message>` per failure and a
final `validated <count>`."""
import json, sys
from pathlib import Path
import jsonschema

root = Path(__file__).resolve().parent.parent
schema = json.loads((root / "wire" / "wire-0.2.schema.json").read_text())
validators = {
    k: jsonschema.Draft202012Validator({"$schema": schema["$schema"], "$defs": schema["$defs"], "$ref": f"#/$defs/{d}"})
    for k, d in [("event", "event"), ("spans", "spans"), ("metadata", "metadata")]
}
count = 0
for path in sys.argv[1:]:
    for n, line in enumerate(Path(path).read_text().splitlines()):
        rec = json.loads(line)
        errs = list(validators[rec["kind"]].iter_errors(rec["doc"]))
        count += 1
        if errs:
            print(f"invalid {path}:{n} {rec['kind']} {errs[0].message[:200]} :: {line[:300]}")
print(f"validated {count}")
