#!/usr/bin/env python3
"""Generates harness/src/suites/pred_table.rs: predicate instances (types are static in Rust) for
the `pred` suite, exhaustive to depth 2 over a fixed atom set and sampled at depth 3. The token of
each instance is what the Lean driver parses."""
import random
from pathlib import Path

def h(s): return s.encode().hex()

COMMON = [
    ("lvl:info", "level(Level::INFO)"),
    ("lvl:debug", "level(Level::DEBUG)"),
    ("lvf:debug", "level(LevelFilter::DEBUG)"),
    ("lvf:warn", "level(LevelFilter::WARN)"),
    ("lvf:off", "level(LevelFilter::OFF)"),
    (f"tgt:x{h('app')}", 'target("app")'),
    (f"tgt:x{h('app::db')}", 'target("app::db")'),
    (f"tgt:x{h('')}", 'target("")'),
    (f"tgt:x{h('app:')}", 'target("app:")'),
    (f"tgt:x{h('my-app')}", 'target("my-app")'),
    (f"tgp:sw:x{h('app')}", 'target([starts_with("app")])'),
    (f"tgp:eq:x{h('other')}", 'target([eq("other")])'),
    (f"fld:x{h('f0')}:i64:1", 'field("f0", 1_i64)'),
    (f"fld:x{h('f0')}:i128:-1", 'field("f0", -1_i128)'),
    (f"fld:x{h('f0')}:u64:1", 'field("f0", 1_u64)'),
    (f"fld:x{h('f0')}:u128:2", 'field("f0", 2_u128)'),
    (f"fld:x{h('f0')}:str:x{h('s1')}", 'field("f0", "s1")'),
    (f"fld:x{h('f1')}:bool:1", 'field("f1", true)'),
    (f"fld:x{h('f1')}:f64:3ff0000000000000", 'field("f1", 1.0_f64)'),
    (f"fld:x{h('f0')}:vi64:gt:0", 'field("f0", value(gt(0_i64)))'),
    (f"fld:x{h('f0')}:vu64:lt:2", 'field("f0", value(lt(2_u64)))'),
    (f"fld:x{h('f1')}:vstr:sw:x{h('s')}", 'field("f1", value(starts_with("s")))'),
    (f"fld:x{h('message')}:str:x{h('s0')}", 'field("message", "s0")'),
    ("par(lvl:info)", "parent(level(Level::INFO))"),
    (f"par(name:eq:x{h('n0')})", 'parent(name(eq("n0")))'),
    (f"anc(name:eq:x{h('n1')})", 'ancestor(name(eq("n1")))'),
    ("anc(lvf:warn)", "ancestor(level(LevelFilter::WARN))"),
    (f"anc(and(lvf:debug,tgt:x{h('app')}))", 'ancestor(level(LevelFilter::DEBUG) & target("app"))'),
    # (appended so that the index-based `core` selection below stays as it was)
    ("lvl:error", "level(Level::ERROR)"),
    ("lvf:error", "level(LevelFilter::ERROR)"),
    ("lvf:trace", "level(LevelFilter::TRACE)"),
    (f"fld:x{h('r#type')}:i64:1", 'field("r#type", 1_i64)'),
    (f"fld:x{h('type')}:i64:1", 'field("type", 1_i64)'),
    (f"fld:x{h('f0')}:vstr:sw:x{h('3')}", 'field("f0", value(starts_with("3")))'),
    ("anc(lvl:info)", "ancestor(level(Level::INFO))"),
    (f"anc(name:eq:x{h('n0')})", 'ancestor(name(eq("n0")))'),
    (f"par(anc(name:eq:x{h('n2')}))", 'parent(ancestor(name(eq("n2"))))'),
    (f"fld:x{h('f1')}:f64:0000000000000000", 'field("f1", 0.0_f64)'),
    (f"fld:x{h('f1')}:f64:8000000000000000", 'field("f1", -0.0_f64)'),
    (f"fld:x{h('f1')}:f64:7ff8000000000000", 'field("f1", f64::NAN)'),
    # a target with multi-byte characters: a path that ends inside one of them, the path itself
    (f"tgt:x{h('app::gro')}", 'target("app::gro")'),
    (f"tgt:x{h('app::größe')}", 'target("app::größe")'),
    (f"tgt:x{h('app::gr')}", 'target("app::gr")'),
    # arbitrary predicates in the one-element-array form
    ("lvc:warn", "level([eq(Level::WARN)])"),
    ("lvc:error", "level([eq(Level::ERROR)])"),
    (f"fld:x{h('f0')}:cint:1", 'field("f0", [function(|v: &TracedValue| v.as_int() == Some(1))])'),
    (f"fld:x{h('f0')}:cuint:1", 'field("f0", [function(|v: &TracedValue| v.as_uint() == Some(1))])'),
]
SPAN_ONLY = [
    (f"name:eq:x{h('r#type')}", 'name(eq("r#type"))'),
    (f"name:eq:x{h('type')}", 'name(eq("type"))'),
    (f"name:sw:x{h('r#')}", 'name(starts_with("r#"))'),
    (f"name:eq:x{h('n0')}", 'name(eq("n0"))'),
    (f"name:sw:x{h('n')}", 'name(starts_with("n"))'),
    (f"name:eq:x{h('n2')}", 'name(eq("n2"))'),
]
LONG_A = "проверка" * 24            # 192 two-byte characters: the rendered predicate is far longer than 200 bytes
LONG_B = "x" + LONG_A                 # the same shifted by one byte (whatever offset a cut would choose, one of the two splits a character)
EVENT_ONLY = [
    (f"msg:eq:x{h(LONG_A)}", f'message(eq("{LONG_A}"))'),
    (f"msg:eq:x{h(LONG_B)}", f'message(eq("{LONG_B}"))'),
    (f"msg:eq:x{h('e0')}", 'message(eq("e0"))'),
    (f"msg:sw:x{h('e')}", 'message(starts_with("e"))'),
    (f"msg:eq:x{h('s0')}", 'message(eq("s0"))'),
    (f"msg:sw:x{h('s')}", 'message(starts_with("s"))'),
    (f"msg:eq:x{h('D(1)')}", 'message(eq("D(1)"))'),
]

def table(atoms, seed):
    rnd = random.Random(seed)
    out = list(atoms)
    core = atoms[:3] + atoms[5:7] + atoms[12:14] + atoms[16:18] + atoms[19:20] + atoms[23:26] + atoms[-3:]
    for a in core:
        for b in core:
            out.append((f"and({a[0]},{b[0]})", f"({a[1]} & {b[1]})"))
            out.append((f"or({a[0]},{b[0]})", f"({a[1]} | {b[1]})"))
    d2 = out[len(atoms):]
    # depth 3: every operator with the compound operand on either side (`a & b | c` is an `And`
    # on the left of `|`), written with and without the redundant parentheses
    for i in range(160):
        x, y = rnd.choice(d2), rnd.choice(atoms)
        bare = x[1][1:-1] if rnd.random() < 0.5 else x[1]
        shape = i % 4
        if shape == 0:
            out.append((f"and({x[0]},{y[0]})", f"({x[1]} & {y[1]})"))
        elif shape == 1:
            out.append((f"or({y[0]},{x[0]})", f"({y[1]} | {x[1]})"))
        elif shape == 2:
            # Rust parses `a & b | c` as `(a & b) | c` and `a | b | c` as `(a | b) | c`
            out.append((f"or({x[0]},{y[0]})", f"({bare} | {y[1]})"))
        else:
            out.append((f"and({y[0]},{x[0]})", f"({y[1]} & {x[1]})"))
    seen, res = set(), []
    for t, e in out:
        if t not in seen:
            seen.add(t)
            res.append((t, e))
    return res

def emit(fn, item, entries):
    lines = [f"pub fn {fn}() -> Vec<(&'static str, Box<dyn for<'a> Predicate<{item}<'a>>>)> {{", "    vec!["]
    for t, e in entries:
        lines.append(f'        ("{t}", Box::new({e})),')
    lines += ["    ]", "}", ""]
    return "\n".join(lines)

root = Path(__file__).resolve().parent.parent
src = """//! GENERATED by bin/gen_pred_table.py — predicate instances for the `pred` suite.
#![allow(clippy::all)]
use predicates::{function::function, ord::{eq, gt, lt}, str::starts_with, Predicate};
use tracing_capture::{predicates::{ancestor, field, level, message, name, parent, target, value}, CapturedEvent, CapturedSpan};
use tracing_core::{Level, LevelFilter};
use tracing_tunnel::TracedValue;

"""
src += emit("span_preds", "CapturedSpan", table(COMMON + SPAN_ONLY, 1))
src += emit("event_preds", "CapturedEvent", table(COMMON + EVENT_ONLY, 2))
(root / "harness" / "src" / "suites" / "pred_table.rs").write_text(src)
print("span preds", len(table(COMMON + SPAN_ONLY, 1)), "event preds", len(table(COMMON + EVENT_ONLY, 2)))
