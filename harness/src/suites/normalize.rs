//! Suite `normalize` (C20): `TracingEvent::normalize` on streams with duplicate announcements.

use std::collections::HashMap;

use tracing_tunnel::TracingEvent;

use super::{Outcome, Suite, Tier};
use crate::{
    gen,
    proto::{Ev, Site, Toks},
    rng::Rng,
};

pub struct Normalize;

fn mt_of(e: &Ev) -> Option<u64> {
    match e {
        Ev::NewCallSite { id, .. } => Some(*id),
        Ev::NewSpan { mt, .. } | Ev::NewEvent { mt, .. } => Some(*mt),
        _ => None,
    }
}

fn run_normalize(evs: &[Ev]) -> Vec<Ev> {
    let mut real: Vec<TracingEvent> = evs.iter().map(Ev::to_real).collect();
    TracingEvent::normalize(&mut real);
    real.iter().map(Ev::from_real).collect()
}

/// Relabels metadata ids injectively, changes lines and event call-site names.
fn relabel(evs: &[Ev], salt: u64) -> Vec<Ev> {
    let sigma = |id: u64| id.wrapping_mul(0x9E37_79B9_7F4A_7C15 | 1).wrapping_add(salt); // odd multiplier: bijection on u64
    evs.iter()
        .map(|e| match e.clone() {
            Ev::NewCallSite { id, mut site } => {
                site.line = if (id ^ salt) % 3 == 0 { None } else { Some(((id ^ salt) % 1000) as u32) };
                if !site.is_span {
                    site.name = format!("event src/other.rs:{}", (id ^ salt) % 97);
                }
                Ev::NewCallSite { id: sigma(id), site }
            }
            Ev::NewSpan { id, parent, mt, values } => Ev::NewSpan { id, parent, mt: sigma(mt), values },
            Ev::NewEvent { mt, parent, values } => Ev::NewEvent { mt: sigma(mt), parent, values },
            other => other,
        })
        .collect()
}

impl Suite for Normalize {
    fn enumerate(&self, tier: Tier, _focus: &str) -> Vec<Vec<String>> {
        // all sequences of announcements / uses over 3 metadata ids up to a length bound
        let max_len = if tier == Tier::Quick { 4 } else { 6 };
        let site = |k: usize| Site {
            is_span: k != 2, level: 2, name: format!("n{k}"), target: "app".into(),
            module_path: None, file: None, line: Some(10 + k as u32), fields: vec![],
        };
        let ids = [100u64, 200, 300];
        let mut alphabet = vec![];
        for (k, id) in ids.iter().enumerate() {
            alphabet.push(format!("ev {}", Ev::NewCallSite { id: *id, site: site(k) }.tok()));
            if k != 2 {
                alphabet.push(format!("ev {}", Ev::NewSpan { id: 1, parent: None, mt: *id, values: vec![] }.tok()));
            } else {
                alphabet.push(format!("ev {}", Ev::NewEvent { mt: *id, parent: None, values: vec![] }.tok()));
            }
        }
        let mut out = vec![];
        let mut frontier: Vec<Vec<String>> = vec![vec![]];
        for _ in 0..max_len {
            let mut next = vec![];
            for seq in &frontier {
                for op in &alphabet {
                    let mut s = seq.clone();
                    s.push(op.clone());
                    next.push(s);
                }
            }
            out.extend(next.iter().cloned());
            frontier = next;
        }
        for seq in &mut out {
            seq.push("normalize".into());
        }
        out
    }

    fn gen(&self, rng: &mut Rng, tier: Tier, _idx: usize, _focus: &str) -> Vec<String> {
        let n_sites = rng.range(1, 6);
        // ids: arbitrary, address-like, or small and dense (a stream that was normalized, compacted
        // or hand-built before: concrete ids may then coincide with the canonical ones)
        let id_mode = rng.below(4);
        let mut small: Vec<u64> = (0..n_sites as u64 + 1).collect();
        for i in (1..small.len()).rev() {
            let j = rng.below(i + 1);
            if rng.chance(1, 2) {
                small.swap(i, j);
            }
        }
        let sites: Vec<(u64, Site)> = (0..n_sites)
            .map(|k| {
                let id = match id_mode {
                    0 => rng.next(),
                    1 => 0x5555_0000_0000 + rng.below(40) as u64 * 0x88,
                    _ => small[k],
                };
                (id, gen::site(rng, None, 3))
            })
            .collect();
        let len = rng.range(1, if tier == Tier::Quick { 30 } else { 120 });
        let mut lines = vec![];
        let mut next_span = 1u64;
        for _ in 0..len {
            let (id, site) = rng.pick(&sites).clone();
            let e = match rng.below(10) {
                0..=2 => Ev::NewCallSite { id, site },
                3..=4 => {
                    next_span += 1;
                    Ev::NewSpan { id: next_span, parent: if rng.chance(1, 3) { Some(rng.range(1, next_span as usize) as u64) } else { None }, mt: id, values: gen::entries_nodup(rng, 3, true, false) }
                }
                5..=6 => Ev::NewEvent { mt: id, parent: None, values: gen::entries_nodup(rng, 3, true, false) },
                7 => Ev::Entered(rng.range(1, next_span as usize) as u64),
                8 => Ev::Recorded { id: rng.range(1, next_span as usize) as u64, values: gen::entries_nodup(rng, 2, true, false) },
                _ => Ev::FollowsFrom { id: 1, follows: 2 },
            };
            lines.push(format!("ev {}", e.tok()));
        }
        lines.push("normalize".into());
        lines
    }

    fn run(&self, lines: &[String]) -> Outcome {
        let mut out = Outcome::default();
        let mut evs = vec![];
        for line in lines {
            let mut t = Toks::new(line);
            match t.next() {
                Some("ev") => evs.push(Ev::parse(&mut t).expect("event")),
                Some("normalize") => {
                    let normed = run_normalize(&evs);
                    for e in &normed {
                        out.obs.push(format!("ev {}", e.tok()));
                    }
                    // ---- oracles for C20, evaluated on the real output
                    if normed.len() != evs.len() {
                        out.fails.push("C20 normalization changed the number of events".into());
                        continue;
                    }
                    // consistent renaming: same call site before <=> same after
                    let before: Vec<Option<u64>> = evs.iter().map(mt_of).collect();
                    let after: Vec<Option<u64>> = normed.iter().map(mt_of).collect();
                    let mut fwd: HashMap<u64, u64> = HashMap::new();
                    let mut bwd: HashMap<u64, u64> = HashMap::new();
                    for (i, (b, a)) in before.iter().zip(&after).enumerate() {
                        match (b, a) {
                            (Some(b), Some(a)) => {
                                if let Some(prev) = fwd.insert(*b, *a) {
                                    if prev != *a {
                                        out.fails.push(format!("C20 call site {b} is renamed to both {prev} and {a} (event #{i})"));
                                    }
                                }
                                if let Some(prev) = bwd.insert(*a, *b) {
                                    if prev != *b {
                                        out.fails.push(format!("C20 different call sites {prev} and {b} collide on normalized id {a} (event #{i})"));
                                    }
                                }
                            }
                            (None, None) => {}
                            _ => out.fails.push(format!("C20 event #{i} changed kind")),
                        }
                    }
                    // untouched: everything except metadata ids, lines and event-site names
                    for (i, (b, a)) in evs.iter().zip(&normed).enumerate() {
                        let same = match (b, a) {
                            (Ev::NewCallSite { site: sb, .. }, Ev::NewCallSite { site: sa, .. }) => {
                                let mut sb = sb.clone();
                                sb.line = None;
                                if !sb.is_span {
                                    sb.name = "event".into();
                                }
                                sb == *sa
                            }
                            (Ev::NewSpan { id: i1, parent: p1, values: v1, .. }, Ev::NewSpan { id: i2, parent: p2, values: v2, .. }) => i1 == i2 && p1 == p2 && v1 == v2,
                            (Ev::NewEvent { parent: p1, values: v1, .. }, Ev::NewEvent { parent: p2, values: v2, .. }) => p1 == p2 && v1 == v2,
                            (b, a) => b == a,
                        };
                        if !same {
                            out.fails.push(format!("C20 event #{i} changed beyond call-site id / line / event name: {} -> {}", b.tok(), a.tok()));
                        }
                    }
                    // idempotent
                    if run_normalize(&normed) != normed {
                        out.fails.push("C20 normalizing twice differs from normalizing once".into());
                    }
                    // invariant under injective relabelling, line changes, event-site names
                    for salt in [1u64, 0xABCD_EF01] {
                        if run_normalize(&relabel(&evs, salt)) != normed {
                            out.fails.push(format!("C20 result depends on concrete ids / lines / event names (relabelling salt {salt})"));
                        }
                    }
                    // canonical numbering: ids are 0,1,2,.. in order of first occurrence
                    let mut seen: Vec<u64> = vec![];
                    for a in after.iter().flatten() {
                        if !seen.contains(a) {
                            if *a != seen.len() as u64 {
                                out.fails.push(format!("C20 normalized ids are not numbered by first occurrence: saw {a} as distinct id #{}", seen.len()));
                            }
                            seen.push(*a);
                        }
                    }
                    let n_ann = evs.iter().filter(|e| matches!(e, Ev::NewCallSite { .. })).count();
                    let mut ann_ids: Vec<u64> = evs.iter().filter_map(|e| if let Ev::NewCallSite { id, .. } = e { Some(*id) } else { None }).collect();
                    ann_ids.sort_unstable();
                    ann_ids.dedup();
                    out.tags.push(format!("dup-announcements:{}", (n_ann - ann_ids.len()).min(3)));
                    if n_ann > ann_ids.len() && fwd.len() >= 2 {
                        out.tags.push("nontrivial".into());
                    }
                    evs.clear();
                }
                _ => out.obs.push("bad-op".into()),
            }
        }
        out
    }
}
