//! Suite `values` (C14, C15): `TracedValues<String>` operation sequences, capture from real
//! `ValueSet` / `Record` / `Event` objects, typed comparisons and views.

use tracing_core::{
    field::{Field, Value},
    span::Record,
    Event,
};
use tracing_tunnel::{FromTracedValue, TracedValue, TracedValues};

use super::{Outcome, Suite, Tier};
use crate::{
    dynsite, gen, json,
    proto::{entries_from_real, entries_tok, hex, unhex, xs, ChainErr, RawDebug, Site, Toks, Val},
    rng::Rng,
};

pub struct Values;

/// Owned primitive guest value.
pub enum Prim {
    I8(i8), I16(i16), I32(i32), I64(i64), Isize(isize), I128(i128),
    U8(u8), U16(u16), U32(u32), U64(u64), Usize(usize), U128(u128),
    F32(f32), F64(f64), Bool(bool), Str(String), String(String),
    Disp(tracing_core::field::DisplayValue<RawDebug>),
    Dbg(tracing_core::field::DebugValue<RawDebug>),
    /// a Debug object whose rendering emits an event at call site `k` of the running program (a
    /// lazily loaded resource whose loader logs)
    DbgEv(tracing_core::field::DebugValue<EmitsEvent>),
    Err(Box<dyn std::error::Error + 'static>),
    Bytes(Box<[u8]>),
    EmptyV,
}

impl Prim {
    pub fn as_value(&self) -> &dyn Value {
        match self {
            Prim::I8(v) => v, Prim::I16(v) => v, Prim::I32(v) => v, Prim::I64(v) => v,
            Prim::Isize(v) => v, Prim::I128(v) => v,
            Prim::U8(v) => v, Prim::U16(v) => v, Prim::U32(v) => v, Prim::U64(v) => v,
            Prim::Usize(v) => v, Prim::U128(v) => v,
            Prim::F32(v) => v, Prim::F64(v) => v, Prim::Bool(v) => v,
            Prim::Str(v) => v, // `String: Value`
            Prim::String(v) => v,
            Prim::Disp(v) => v, Prim::Dbg(v) => v,
            Prim::DbgEv(v) => v,
            Prim::Err(v) => v,
            Prim::Bytes(v) => v,
            Prim::EmptyV => &tracing_core::field::Empty,
        }
    }

    pub fn parse(t: &str) -> Option<Option<Prim>> {
        if t == "empty" {
            return Some(None);
        }
        if t == "emptyv" {
            return Some(Some(Prim::EmptyV));
        }
        let (ty, p) = t.split_once(':')?;
        let s = || String::from_utf8(unhex(p)?).ok();
        Some(Some(match ty {
            "i8" => Prim::I8(p.parse().ok()?), "i16" => Prim::I16(p.parse().ok()?),
            "i32" => Prim::I32(p.parse().ok()?), "i64" => Prim::I64(p.parse().ok()?),
            "isize" => Prim::Isize(p.parse().ok()?), "i128" => Prim::I128(p.parse().ok()?),
            "u8" => Prim::U8(p.parse().ok()?), "u16" => Prim::U16(p.parse().ok()?),
            "u32" => Prim::U32(p.parse().ok()?), "u64" => Prim::U64(p.parse().ok()?),
            "usize" => Prim::Usize(p.parse().ok()?), "u128" => Prim::U128(p.parse().ok()?),
            "f32" => Prim::F32(f32::from_bits(u32::from_str_radix(p, 16).ok()?)),
            "f64" => Prim::F64(f64::from_bits(u64::from_str_radix(p, 16).ok()?)),
            "bool" => Prim::Bool(match p { "1" => true, "0" => false, _ => return None }),
            "str" => Prim::Str(s()?), "string" => Prim::String(s()?),
            "disp" => Prim::Disp(tracing_core::field::display(RawDebug(s()?))),
            "dbg" => Prim::Dbg(tracing_core::field::debug(RawDebug(s()?))),
            "bytes" => Prim::Bytes(unhex(p)?.into_boxed_slice()),
            "dbgev" => {
                let (k, h) = p.split_once('.')?;
                Prim::DbgEv(tracing_core::field::debug(EmitsEvent { k: k.parse().ok()?, text: String::from_utf8(unhex(h)?).ok()? }))
            }
            "err" => {
                let chain = p.split(',').map(|h| String::from_utf8(unhex(h)?).ok()).collect::<Option<Vec<_>>>()?;
                Prim::Err(Box::new(ChainErr::new(&chain)))
            }
            "erri" => {
                // the same chain, sources stored inline in the error that wraps them
                let chain = p.split(',').map(|h| String::from_utf8(unhex(h)?).ok()).collect::<Option<Vec<_>>>()?;
                Prim::Err(crate::proto::inline_err(&chain))
            }
            _ => return None,
        }))
    }
}

pub struct EmitsEvent {
    pub k: usize,
    pub text: String,
}

impl std::fmt::Debug for EmitsEvent {
    fn fmt(&self, f: &mut std::fmt::Formatter<'_>) -> std::fmt::Result {
        crate::program::nested_emit(self.k);
        f.write_str(&self.text)
    }
}

pub fn gen_prim_tok(rng: &mut Rng) -> String {
    let f32_edges: [u32; 9] = [0, 0x8000_0000, 0x3fc0_0000, 0x0000_0001, 0x007f_ffff, 0x0080_0000, 0x7f7f_ffff, 0x7f80_0000, 0x7fc0_0000];
    match rng.below(24) {
        0 => format!("i8:{}", *rng.pick(&[i8::MIN, -1, 0, 1, i8::MAX])),
        1 => format!("i16:{}", *rng.pick(&[i16::MIN, -1, 0, i16::MAX])),
        2 => format!("i32:{}", *rng.pick(&[i32::MIN, -7, 0, i32::MAX])),
        3 => format!("i64:{}", *rng.pick(&[i64::MIN, -1, 0, 42, i64::MAX])),
        4 => format!("isize:{}", *rng.pick(&[isize::MIN, -3, 0, isize::MAX])),
        5 => format!("i128:{}", gen::int128(rng)),
        6 => format!("u8:{}", *rng.pick(&[0, 1, u8::MAX])),
        7 => format!("u16:{}", *rng.pick(&[0, 9, u16::MAX])),
        8 => format!("u32:{}", *rng.pick(&[0, 77, u32::MAX])),
        9 => format!("u64:{}", *rng.pick(&[0, 5, u64::MAX])),
        10 => format!("usize:{}", *rng.pick(&[0, 6, usize::MAX])),
        11 => format!("u128:{}", gen::uint128(rng)),
        12 => {
            let b = if rng.chance(2, 3) { *rng.pick(&f32_edges) } else {
                // random non-signalling pattern
                let b = rng.next() as u32;
                if f32::from_bits(b).is_nan() { 0x7fc0_0000 } else { b }
            };
            format!("f32:{b:08x}")
        }
        13 => format!("f64:{:016x}", gen::any_f64_bits(rng)),
        14 => format!("bool:{}", rng.below(2)),
        15 => format!("str:{}", hex(gen::string(rng).as_bytes())),
        16 => format!("string:{}", hex(gen::string(rng).as_bytes())),
        17 => format!("disp:{}", hex(gen::string(rng).as_bytes())),
        18 => format!("dbg:{}", hex(gen::string(rng).as_bytes())),
        19 => format!("{}:{}", if rng.chance(1, 2) { "err" } else { "erri" }, gen::chain(rng).iter().map(|m| hex(m.as_bytes())).collect::<Vec<_>>().join(",")),
        20 => format!("bytes:{}", hex(&(0..rng.below(5)).map(|_| rng.next() as u8).collect::<Vec<_>>())),
        21 => "emptyv".to_owned(),
        _ => "empty".to_owned(),
    }
}

/// C15 "iterating (forwards, backwards, ...)": every positional way of walking the iterator agrees
/// with the reference order `want` (std's adapters call `nth`, `nth_back`, `last`, `count`, `len`
/// whenever an iterator overrides them).
fn kv_iter_laws<'a, I>(mk: impl Fn() -> I, want: &[(String, Val)], fails: &mut Vec<String>)
where
    I: DoubleEndedIterator<Item = (&'a str, &'a TracedValue)> + ExactSizeIterator,
{
    let conv = |x: (&str, &TracedValue)| (x.0.to_owned(), Val::from_real(x.1));
    let n = want.len();
    let mut bad = |what: String| {
        if fails.len() < 20 {
            fails.push(format!("C15 iterator over {n} entries: {what}"));
        }
    };
    if mk().len() != n || mk().size_hint() != (n, Some(n)) || mk().count() != n {
        bad(format!("len {} / size_hint {:?} / count {}", mk().len(), mk().size_hint(), mk().count()));
    }
    if mk().last().map(conv) != want.last().cloned() {
        bad("last() is not the last entry".into());
    }
    for k in 0..=n {
        let mut it = mk();
        let got = it.nth(k).map(conv);
        let rest: Vec<_> = it.map(conv).collect();
        if got != want.get(k).cloned() || rest != want.get(k + 1..).unwrap_or(&[]) {
            bad(format!("nth({k}) and what follows are wrong"));
        }
        let mut it = mk();
        let got = it.nth_back(k).map(conv);
        let left = it.len();
        let rest: Vec<_> = it.map(conv).collect();
        let (w, w_rest): (Option<(String, Val)>, &[(String, Val)]) = if k < n { (Some(want[n - 1 - k].clone()), &want[..n - 1 - k]) } else { (None, &[]) };
        if got != w || rest != w_rest || left != w_rest.len() {
            bad(format!("nth_back({k}) and what remains are wrong"));
        }
        let skipped: Vec<_> = mk().rev().skip(k).map(conv).collect();
        let mut w_sk: Vec<_> = want[..n.saturating_sub(k)].to_vec();
        w_sk.reverse();
        if skipped != w_sk {
            bad(format!("rev().skip({k}) is wrong"));
        }
        if mk().rev().nth(k).map(conv) != w {
            bad(format!("rev().nth({k}) is wrong"));
        }
    }
    // from both ends towards the middle: every entry once
    let (mut it, mut front, mut back, mut turn) = (mk(), vec![], vec![], false);
    loop {
        let x = if turn { it.next_back() } else { it.next() };
        match x {
            Some(x) if turn => back.push(conv(x)),
            Some(x) => front.push(conv(x)),
            None => break,
        }
        if it.len() != n - front.len() - back.len() {
            bad("len does not shrink by one per entry".into());
            break;
        }
        turn = !turn;
    }
    back.reverse();
    front.extend(back);
    if front != want {
        bad("walking from both ends does not yield every entry once".into());
    }
}

fn opt_val(v: Option<&TracedValue>) -> String {
    v.map_or_else(|| "-".to_owned(), |v| Val::from_real(v).tok())
}

fn bit(b: bool) -> char {
    if b { '1' } else { '0' }
}

fn capture_all(names: &[String], prims: &[Option<Prim>]) -> Vec<String> {
    let site = Site {
        is_span: true, level: 2, name: "cap".into(), target: "harness::cap".into(),
        module_path: None, file: None, line: None, fields: names.to_vec(),
    };
    let meta = dynsite::metadata_for(&site);
    let fields: Vec<Field> = (0..names.len()).map(|i| dynsite::nth_field(meta, i)).collect();
    let values: Vec<(&Field, Option<&dyn Value>)> =
        fields.iter().zip(prims).map(|(f, p)| (f, p.as_ref().map(Prim::as_value))).collect();
    dynsite::with_value_set(meta.fields(), &values, |vs| {
        let a: TracedValues<String> = TracedValues::from_values(vs);
        let b: TracedValues<String> = TracedValues::from_record(&Record::new(vs));
        let c: TracedValues<String> = TracedValues::from_event(&Event::new(meta, vs));
        [a, b, c].iter().map(|v| format!("st {}", entries_tok(&entries_from_real(v)))).collect()
    })
}

impl Suite for Values {
    fn enumerate(&self, tier: Tier, focus: &str) -> Vec<Vec<String>> {
        if focus == "C14" {
            return vec![];
        }
        // all insert/get sequences over 3 names x 3 values up to a length bound
        let max_len = if tier == Tier::Quick { 3 } else { 4 };
        let names = ["a", "b", "c"];
        let vals = ["i1", "s66", "b1"];
        let mut alphabet = vec![];
        for n in names {
            for v in vals {
                alphabet.push(format!("v insert {} {v}", xs(n)));
            }
            alphabet.push(format!("v get {}", xs(n)));
        }
        let mut out: Vec<Vec<String>> = vec![vec![]];
        let mut frontier: Vec<Vec<String>> = vec![vec![]];
        for _ in 0..max_len {
            let mut next = vec![];
            for seq in &frontier {
                for op in &alphabet {
                    let mut s = seq.clone();
                    s.push(op.clone());
                    next.push(s);
                }
            }
            out.extend(next.iter().cloned());
            frontier = next;
        }
        for seq in &mut out {
            seq.push("v len".into());
            seq.push("v iter".into());
            seq.push("v iterrev".into());
        }
        out
    }

    fn gen(&self, rng: &mut Rng, tier: Tier, idx: usize, focus: &str) -> Vec<String> {
        let mut lines = vec![];
        let kind = match focus {
            "C14" => 1,
            "C15" => [0, 2][idx % 2],
            _ => idx % 3,
        };
        match kind {
            0 if idx % 40 == 6 => {
                // a big collection: a span's values accumulate over its lifetime, far beyond the 32
                // values of a single event (hundreds of distinct names, then lookups and overwrites)
                let n = rng.range(257, 700);
                let mk = |i: usize| format!("k{i:03}");
                let mut order: Vec<usize> = (0..n).collect();
                for i in (1..n).rev() {
                    let j = rng.below(i + 1);
                    order.swap(i, j);
                }
                let es: Vec<(String, Val)> = order.iter().map(|i| (mk(*i), gen::small_val(rng))).collect();
                let (a, b) = es.split_at(rng.range(1, n - 1));
                lines.push(format!("v collect {}", entries_tok(a)));
                lines.push(format!("v extend {}", entries_tok(b)));
                lines.push("v len".into());
                for _ in 0..12 {
                    let i = rng.below(n + 3);
                    match rng.below(3) {
                        0 => lines.push(format!("v insert {} {}", xs(&mk(i)), gen::small_val(rng).tok())),
                        _ => lines.push(format!("v get {}", xs(&mk(i)))),
                    }
                }
                lines.push("v len".into());
                lines.push("v iter".into());
            }
            0 => {
                // operation sequence
                let len = rng.range(1, if tier == Tier::Quick { 25 } else { 60 });
                let small = rng.chance(3, 4);
                // sometimes a bulk operation far beyond the 32 values of one event, with names repeated
                // inside the batch (what a bulk path must still treat as one-by-one inserts)
                let bulk = |rng: &mut Rng, finite: bool| -> Vec<(String, Val)> {
                    let pool = rng.range(5, 30);
                    (0..rng.range(33, 90)).map(|_| (format!("k{}", rng.below(pool)), gen::val(rng, finite))).collect()
                };
                for _ in 0..len {
                    if rng.chance(1, 12) {
                        match rng.below(3) {
                            0 => lines.push(format!("v extend {}", entries_tok(&bulk(rng, false)))),
                            1 => lines.push(format!("v collect {}", entries_tok(&bulk(rng, false)))),
                            _ => lines.push(format!("v json {}", entries_tok(&bulk(rng, true)))),
                        }
                        continue;
                    }
                    match rng.below(10) {
                        0..=3 => lines.push(format!("v insert {} {}", xs(&gen::name(rng, small)), gen::val(rng, false).tok())),
                        4 => lines.push(format!("v get {}", xs(&gen::name(rng, small)))),
                        5 => lines.push(format!("v extend {}", entries_tok(&gen::entries(rng, 6, small, false)))),
                        6 => lines.push(format!("v collect {}", entries_tok(&gen::entries(rng, 8, small, false)))),
                        7 if rng.chance(1, 2) => lines.push(format!("v json {}", entries_tok(&gen::entries(rng, 8, small, true)))),
                        7 => {
                            // the carrier (`serde_json::Value`) holds 64-bit integers only
                            let es: Vec<(String, Val)> = gen::entries(rng, 8, small, true)
                                .into_iter()
                                .map(|(k, v)| (k, match v {
                                    Val::Int(i) if i64::try_from(i).is_err() => Val::Int(i128::from(i as i64)),
                                    Val::UInt(u) if u64::try_from(u).is_err() => Val::UInt(u128::from(u as u64)),
                                    v => v,
                                }))
                                .collect();
                            lines.push(format!("v mapde {}", entries_tok(&es)));
                        }
                        8 => lines.push((*rng.pick(&["v len", "v iter", "v iterrev", "v into"])).to_owned()),
                        _ => lines.push("v new".into()),
                    }
                }
                lines.push("v len".into());
                lines.push("v iterrev".into());
                lines.push("v into".into());
            }
            1 => {
                // captures
                for _ in 0..rng.range(1, 6) {
                    let n = match rng.below(5) { 0 => 0, 1 => 32, _ => rng.range(1, 8) };
                    let dup = rng.chance(1, 2);
                    let mut s = format!("cap {n}");
                    let mut i = 0;
                    while i < n {
                        let name = if dup { gen::name(rng, true) } else { format!("f{i}") };
                        if dup && i + 1 < n && rng.chance(1, 3) {
                            // the same name twice in a row with values that compare equal but are
                            // not the same value (signed zeros), or with the very same value
                            let (a, b) = match rng.below(4) {
                                0 => ("f64:0000000000000000", "f64:8000000000000000"),
                                1 => ("f64:8000000000000000", "f64:0000000000000000"),
                                2 => ("f32:00000000", "f32:80000000"),
                                _ => ("i64:7", "i64:7"),
                            };
                            s.push_str(&format!(" {} {a} {} {b}", xs(&name), xs(&name)));
                            i += 2;
                            continue;
                        }
                        s.push_str(&format!(" {} {}", xs(&name), gen_prim_tok(rng)));
                        i += 1;
                    }
                    lines.push(s);
                }
            }
            _ => {
                // typed comparisons and views
                // floats where `==` and bit identity part ways: signed zeros (equal, different bits) and
                // NaN (unequal to itself, same bits)
                if rng.chance(1, 3) {
                    let (a, b) = *rng.pick(&[
                        (0x0000_0000_0000_0000u64, 0x8000_0000_0000_0000u64),
                        (0x8000_0000_0000_0000, 0x0000_0000_0000_0000),
                        (0x7ff8_0000_0000_0000, 0x7ff8_0000_0000_0000),
                        (0x7ff0_0000_0000_0000, 0x7ff0_0000_0000_0000),
                        (0xfff8_0000_0000_0001, 0x7ff8_0000_0000_0000),
                    ]);
                    lines.push(format!("view {}", Val::Float(a).tok()));
                    lines.push(format!("cmp {} f64 {b:016x}", Val::Float(a).tok()));
                }
                for _ in 0..rng.range(3, 12) {
                    let v = gen::val(rng, false);
                    lines.push(format!("view {}", v.tok()));
                    let (ty, c) = match rng.below(7) {
                        0 => ("bool", rng.below(2).to_string()),
                        1 => ("i128", match &v { Val::Int(i) if rng.chance(1, 2) => i.to_string(), _ => gen::int128(rng).to_string() }),
                        2 => ("i64", match &v { Val::Int(i) if rng.chance(1, 2) && i64::try_from(*i).is_ok() => i.to_string(), _ => (*rng.pick(&[i64::MIN, -1, 0, 1, 42, i64::MAX])).to_string() }),
                        3 => ("u128", match &v { Val::UInt(i) if rng.chance(1, 2) => i.to_string(), _ => gen::uint128(rng).to_string() }),
                        4 => ("u64", match &v { Val::UInt(i) if rng.chance(1, 2) && u64::try_from(*i).is_ok() => i.to_string(), _ => (*rng.pick(&[0, 1, 42, u64::MAX])).to_string() }),
                        5 => ("f64", match &v {
                            Val::Float(b) if rng.chance(1, 3) => format!("{b:016x}"),
                            // neighbours: one unit in the last place away, the other zero
                            Val::Float(b) if rng.chance(1, 2) => format!("{:016x}", match rng.below(3) { 0 => b ^ 1, 1 => b.wrapping_add(1), _ => b ^ 0x8000_0000_0000_0000 }),
                            _ => format!("{:016x}", gen::any_f64_bits(rng)),
                        }),
                        _ => ("str", match &v { Val::Str(s) if rng.chance(1, 2) => xs(s), _ => xs(&gen::string(rng)) }),
                    };
                    lines.push(format!("cmp {} {ty} {c}", v.tok()));
                }
            }
        }
        lines
    }

    fn run(&self, lines: &[String]) -> Outcome {
        let mut out = Outcome::default();
        let mut cur: TracedValues<String> = TracedValues::new();
        // reference ordered map kept by the harness (independent oracle for C15)
        let mut reference: Vec<(String, Val)> = vec![];
        let ref_insert = |reference: &mut Vec<(String, Val)>, k: &str, v: Val| -> Option<Val> {
            if let Some(e) = reference.iter_mut().find(|e| e.0 == k) {
                Some(std::mem::replace(&mut e.1, v))
            } else {
                reference.push((k.to_owned(), v));
                None
            }
        };
        let mut dup_seen = false;
        // ---- a second collection that undergoes the same operations with *borrowed* names that are
        // slices of shared buffers: a name that is a prefix of another one starts at the same address
        // (as `&name[..k]` does for field names cut out of one string). Names are equal when their
        // text is equal, wherever they are stored.
        let mut all_names: Vec<String> = vec![];
        for line in lines {
            let mut t = Toks::new(line);
            if let (Some("v"), Some(op)) = (t.next(), t.next()) {
                match op {
                    "insert" | "get" => all_names.extend(t.xs()),
                    "extend" | "collect" | "json" | "mapde" => all_names.extend(t.entries().unwrap_or_default().into_iter().map(|e| e.0)),
                    _ => {}
                }
            }
        }
        all_names.sort_by(|a, b| b.len().cmp(&a.len()).then(a.cmp(b)));
        all_names.dedup();
        let mut bufs: Vec<String> = vec![];
        for n in &all_names {
            if !bufs.iter().any(|b| b.starts_with(n.as_str())) {
                bufs.push(n.clone());
            }
        }
        let alias = |n: &str| -> &str {
            let b = bufs.iter().find(|b| b.starts_with(n)).expect("every name has a buffer");
            &b[..n.len()]
        };
        let mut mirror: TracedValues<&str> = TracedValues::new();
        let mut n_aliased = 0usize;
        macro_rules! mirror_check {
            ($what:expr) => {
                let m: Vec<(String, Val)> = mirror.iter().map(|(k, v)| (k.to_owned(), Val::from_real(v))).collect();
                if m != reference {
                    let k = m.iter().zip(&reference).position(|(a, b)| a != b).unwrap_or(m.len().min(reference.len()));
                    out.fails.push(format!("C15 the same operations on a collection whose names are slices of shared buffers differ from the reference map after {} ({} vs {} entries), first at position {k}: {:?} vs {:?}", $what, m.len(), reference.len(), m.get(k), reference.get(k)));
                }
            };
        }
        for line in lines {
            let mut t = Toks::new(line);
            match (t.next(), t.next()) {
                (Some("v"), Some(op)) => {
                    out.tags.push(format!("op:{op}"));
                    match op {
                        "new" => {
                            cur = TracedValues::new();
                            mirror = TracedValues::new();
                            reference.clear();
                            out.obs.push(format!("st {}", entries_tok(&[])));
                        }
                        "insert" => {
                            let k = t.xs().expect("name");
                            let v = Val::parse(t.next().expect("val")).expect("val");
                            let old = cur.insert(k.clone(), v.to_real());
                            let expect_old = ref_insert(&mut reference, &k, v.clone());
                            if expect_old.is_some() { dup_seen = true; }
                            if old.as_ref().map(Val::from_real) != expect_old {
                                out.fails.push(format!("C15 insert returned {:?}, reference map returned {:?}", old, expect_old));
                            }
                            out.obs.push(format!("ret {}", opt_val(old.as_ref())));
                            out.obs.push(format!("st {}", entries_tok(&entries_from_real(&cur))));
                            let a = alias(&k);
                            if bufs.iter().any(|b| b.as_ptr() == a.as_ptr() && b.len() != a.len()) {
                                n_aliased += 1;
                                if n_aliased == 1 {
                                    out.tags.push("aliased-name-insert".into());
                                }
                            }
                            let m_old = mirror.insert(a, v.to_real());
                            if m_old.as_ref().map(Val::from_real) != old.as_ref().map(Val::from_real) {
                                out.fails.push(format!("C15 insert into the collection with shared-buffer names returned {:?}, the owned-name collection returned {:?}", m_old, old));
                            }
                            mirror_check!("insert");
                        }
                        "get" => {
                            let k = t.xs().expect("name");
                            let got = cur.get(&k);
                            let expect = reference.iter().find(|e| e.0 == k).map(|e| e.1.clone());
                            if got.map(Val::from_real) != expect {
                                out.fails.push(format!("C15 get({k:?}) = {:?}, reference map has {:?}", got, expect));
                            }
                            if mirror.get(alias(&k)).map(Val::from_real) != expect {
                                out.fails.push(format!("C15 get({k:?}) on the collection with shared-buffer names = {:?}, reference map has {:?}", mirror.get(alias(&k)), expect));
                            }
                            // indexing is the same lookup (and panics exactly when the name is absent)
                            let indexed = std::panic::catch_unwind(std::panic::AssertUnwindSafe(|| Val::from_real(&cur[k.as_str()]))).ok();
                            if indexed != expect {
                                out.fails.push(format!("C15 values[{k:?}] gives {indexed:?} (None = panic), reference map has {expect:?}"));
                            }
                            out.obs.push(format!("ret {}", opt_val(got)));
                        }
                        "extend" | "collect" | "json" | "mapde" => {
                            let es = t.entries().expect("entries");
                            if op != "extend" {
                                reference.clear();
                            }
                            for (k, v) in &es {
                                if ref_insert(&mut reference, k, v.clone()).is_some() { dup_seen = true; }
                            }
                            match op {
                                "extend" => cur.extend(es.iter().map(|(k, v)| (k.clone(), v.to_real()))),
                                "collect" => cur = es.iter().map(|(k, v)| (k.clone(), v.to_real())).collect(),
                                "mapde" => {
                                    // a self-describing deserializer with an exact size hint (serde's
                                    // `MapDeserializer` over JSON values), duplicate keys included
                                    use serde::Deserialize;
                                    let pairs: Vec<(String, serde_json::Value)> = es
                                        .iter()
                                        .map(|(k, v)| (k.clone(), serde_json::from_str(&json::to_text(&json::val_tree(v))).expect("value tree parses")))
                                        .collect();
                                    let de = serde::de::value::MapDeserializer::<_, serde_json::Error>::new(pairs.into_iter());
                                    match TracedValues::<String>::deserialize(de) {
                                        Ok(vs) => cur = vs,
                                        Err(e) => {
                                            out.fails.push(format!("C15 deserializing from a map deserializer failed: {e}"));
                                            out.obs.push("st err".into());
                                            continue;
                                        }
                                    }
                                }
                                _ => {
                                    let text = json::to_text(&json::entries_tree(&es));
                                    match serde_json::from_str::<TracedValues<String>>(&text) {
                                        Ok(vs) => cur = vs,
                                        Err(e) => {
                                            out.fails.push(format!("C15 deserializing {text} failed: {e}"));
                                            out.obs.push("st err".into());
                                            continue;
                                        }
                                    }
                                }
                            }
                            out.obs.push(format!("st {}", entries_tok(&entries_from_real(&cur))));
                            match op {
                                "extend" => mirror.extend(es.iter().map(|(k, v)| (alias(k), v.to_real()))),
                                _ => mirror = es.iter().map(|(k, v)| (alias(k), v.to_real())).collect(),
                            }
                            mirror_check!(op);
                        }
                        "len" => {
                            if mirror.len() != reference.len() {
                                out.fails.push(format!("C15 len {} of the collection with shared-buffer names, {} distinct names inserted", mirror.len(), reference.len()));
                            }
                            if cur.len() != reference.len() || cur.is_empty() != reference.is_empty() {
                                out.fails.push(format!("C15 len {} but {} distinct names inserted", cur.len(), reference.len()));
                            }
                            if cur.iter().len() != cur.len() {
                                out.fails.push("C15 iterator length is not exact".into());
                            }
                            out.obs.push(format!("n {}", cur.len()));
                        }
                        "iter" => {
                            let es: Vec<_> = cur.iter().map(|(k, v)| (k.to_owned(), Val::from_real(v))).collect();
                            if es != reference {
                                out.fails.push(format!("C15 iteration {:?} differs from reference order {:?}", es, reference));
                            }
                            kv_iter_laws(|| cur.iter(), &reference, &mut out.fails);
                            kv_iter_laws(|| (&cur).into_iter(), &reference, &mut out.fails);
                            out.obs.push(format!("it {}", entries_tok(&es)));
                        }
                        "iterrev" => {
                            let es: Vec<_> = cur.iter().rev().map(|(k, v)| (k.to_owned(), Val::from_real(v))).collect();
                            let mut r = reference.clone();
                            r.reverse();
                            if es != r {
                                out.fails.push("C15 backward iteration is not the reverse of the reference order".into());
                            }
                            out.obs.push(format!("it {}", entries_tok(&es)));
                        }
                        "into" => {
                            let es: Vec<_> = cur.clone().into_iter().map(|(k, v)| (k, Val::from_real(&v))).collect();
                            if es != reference {
                                out.fails.push("C15 by-value iteration differs from reference order".into());
                            }
                            out.obs.push(format!("it {}", entries_tok(&es)));
                        }
                        _ => out.obs.push("bad-op".into()),
                    }
                }
                (Some("cap"), Some(n)) => {
                    let n: usize = n.parse().expect("count");
                    let mut names = vec![];
                    let mut prims = vec![];
                    let mut toks = vec![];
                    for _ in 0..n {
                        names.push(t.xs().expect("name"));
                        let tok = t.next().expect("prim");
                        toks.push(tok.to_owned());
                        prims.push(Prim::parse(tok).expect("prim"));
                    }
                    out.tags.push(format!("cap-arity:{}", if n == 0 { "0" } else if n == 32 { "32" } else { "1-31" }));
                    for tok in &toks {
                        out.tags.push(format!("prim:{}", tok.split(':').next().unwrap()));
                    }
                    let mut uniq = names.clone();
                    uniq.sort();
                    uniq.dedup();
                    if uniq.len() < names.len() { dup_seen = true; }
                    let obs = capture_all(&names, &prims);
                    // C14 oracle: independent expectation computed from the tokens
                    let mut expect: Vec<(String, Val)> = vec![];
                    for (name, tok) in names.iter().zip(&toks) {
                        if let Some(v) = expected_capture(tok) {
                            ref_insert(&mut expect, name, v);
                        }
                    }
                    let want = format!("st {}", entries_tok(&expect));
                    for (src, o) in ["ValueSet", "Record", "Event"].iter().zip(&obs) {
                        if *o != want {
                            out.fails.push(format!("C14 capture from {src}: got `{o}`, expected `{want}`"));
                        }
                    }
                    out.obs.extend(obs);
                }
                (Some("cmp"), Some(v)) => {
                    let v = Val::parse(v).expect("val");
                    let real = v.to_real();
                    let ty = t.next().expect("ty");
                    let c = t.next().unwrap_or("");
                    out.tags.push(format!("cmp:{ty}"));
                    let bits: String = match ty {
                        "bool" => { let x = c == "1"; [real == x, x == real, bool::from_value(&real) == Some(x)].iter().map(|b| bit(*b)).collect() }
                        "i128" => { let x: i128 = c.parse().unwrap(); [real == x, x == real, i128::from_value(&real) == Some(x)].iter().map(|b| bit(*b)).collect() }
                        "i64" => { let x: i64 = c.parse().unwrap(); [real == x, x == real, i64::from_value(&real) == Some(x)].iter().map(|b| bit(*b)).collect() }
                        "u128" => { let x: u128 = c.parse().unwrap(); [real == x, x == real, u128::from_value(&real) == Some(x)].iter().map(|b| bit(*b)).collect() }
                        "u64" => { let x: u64 = c.parse().unwrap(); [real == x, x == real, u64::from_value(&real) == Some(x)].iter().map(|b| bit(*b)).collect() }
                        "f64" => { let x = f64::from_bits(u64::from_str_radix(c, 16).unwrap()); [real == x, x == real, f64::from_value(&real) == Some(x)].iter().map(|b| bit(*b)).collect() }
                        "str" => {
                            let x = crate::proto::unxs(c).unwrap();
                            let x: &str = &x;
                            let five = [real == *x, *x == real, str::from_value(&real) == Some(x), real == x, x == real];
                            if five[0] != five[3] || five[1] != five[4] {
                                out.fails.push(format!("C15 `str` and `&str` comparisons disagree for {v:?} vs {x:?}"));
                            }
                            five[..3].iter().map(|b| bit(*b)).collect()
                        }
                        _ => "bad".into(),
                    };
                    if bits.chars().any(|b| b != bits.chars().next().unwrap()) {
                        out.fails.push(format!("C15 `v == x`, `x == v` and the typed accessor disagree ({bits}) for {} {ty} {c}", v.tok()));
                    }
                    out.obs.push(format!("c {bits}"));
                }
                (Some("view"), Some(v)) => {
                    let v = Val::parse(v).expect("val");
                    let real = v.to_real();
                    let i64v = i64::from_value(&real);
                    let u64v = u64::from_value(&real);
                    let fits_i = matches!(&v, Val::Int(i) if i64::try_from(*i).is_ok());
                    let fits_u = matches!(&v, Val::UInt(u) if u64::try_from(*u).is_ok());
                    if i64v.is_some() != fits_i || u64v.is_some() != fits_u {
                        out.fails.push(format!("C15 64-bit view of {} : i64 {:?} u64 {:?}", v.tok(), i64v, u64v));
                    }
                    out.obs.push(format!(
                        "vw {} {} {} {} {} {} {} {}",
                        real.as_bool().map_or("-".into(), |b| bit(b).to_string()),
                        real.as_int().map_or("-".into(), |i| i.to_string()),
                        real.as_uint().map_or("-".into(), |i| i.to_string()),
                        real.as_float().map_or("-".into(), |f| format!("{:016x}", f.to_bits())),
                        real.as_str().map_or("-".into(), xs),
                        real.as_debug_str().map_or("-".into(), xs),
                        i64v.map_or("-".into(), |i| i.to_string()),
                        u64v.map_or("-".into(), |i| i.to_string()),
                    ));
                }
                _ => out.obs.push("bad-op".into()),
            }
        }
        if dup_seen && lines.len() >= 3 {
            out.tags.push("nontrivial".into());
        }
        out
    }
}

/// What C14 says a primitive must be captured as (written from the property statement, not from
/// the crate): `None` for Empty.
pub fn expected_capture(tok: &str) -> Option<Val> {
    if tok == "empty" || tok == "emptyv" {
        return None;
    }
    let (ty, p) = tok.split_once(':')?;
    let s = || String::from_utf8(unhex(p).unwrap()).unwrap();
    Some(match ty {
        "i8" | "i16" | "i32" | "i64" | "isize" | "i128" => Val::Int(p.parse().unwrap()),
        "u8" | "u16" | "u32" | "u64" | "usize" | "u128" => Val::UInt(p.parse().unwrap()),
        "f32" => Val::Float(f64::from(f32::from_bits(u32::from_str_radix(p, 16).unwrap())).to_bits()),
        "f64" => Val::Float(u64::from_str_radix(p, 16).unwrap()),
        "bool" => Val::Bool(p == "1"),
        "str" | "string" => Val::Str(s()),
        "disp" | "dbg" => Val::Obj(s()),
        "dbgev" => Val::Obj(String::from_utf8(unhex(p.split_once('.')?.1).unwrap()).unwrap()),
        "bytes" => {
            let b = unhex(p).unwrap();
            Val::Obj(format!("[{}]", b.iter().map(|x| format!("{x:02x}")).collect::<Vec<_>>().join(" ")))
        }
        "err" | "erri" => Val::Err(p.split(',').map(|h| String::from_utf8(unhex(h).unwrap()).unwrap()).collect()),
        _ => return None,
    })
}
