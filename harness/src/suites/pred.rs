//! Suite `pred` (C18): predicates and scanner helpers on captured storages.

use std::panic::{catch_unwind, AssertUnwindSafe};

use predicates::Predicate;
use tracing_capture::{predicates::ScanExt, CapturedEvent, CapturedSpan, Storage};

use super::{
    capture::{run_capture, Config, Filt},
    pred_table, Outcome, Suite, Tier,
};
use crate::{
    proto::Site,
    program::{self, GenCfg, Program},
    proto::Toks,
    rng::Rng,
};

pub struct Pred;

type SpanPred = Box<dyn for<'a> Predicate<CapturedSpan<'a>>>;
type EventPred = Box<dyn for<'a> Predicate<CapturedEvent<'a>>>;

thread_local! {
    static SPAN_PREDS: Vec<(&'static str, SpanPred)> = pred_table::span_preds();
    static EVENT_PREDS: Vec<(&'static str, EventPred)> = pred_table::event_preds();
}

/// Reference meaning of a predicate token, written from the statement of C18 (independent of
/// the crate's predicate code): evaluated on plain data extracted from the captured item.
struct ItemView {
    level: u8, // 0 error .. 4 trace
    target: String,
    name: String,
    values: Vec<(String, crate::proto::Val)>,
    message: Option<String>,
    /// parent, grandparent, … (views of spans)
    ancestors: Vec<ItemView>,
}

fn level_num(l: &tracing_core::Level) -> u8 {
    match *l {
        tracing_core::Level::ERROR => 0,
        tracing_core::Level::WARN => 1,
        tracing_core::Level::INFO => 2,
        tracing_core::Level::DEBUG => 3,
        tracing_core::Level::TRACE => 4,
    }
}

fn view_span(s: &CapturedSpan<'_>) -> ItemView {
    let mut v = view_span_flat(s);
    v.ancestors = s.ancestors().map(|a| view_span_flat(&a)).collect();
    v
}

fn view_span_flat(s: &CapturedSpan<'_>) -> ItemView {
    ItemView {
        level: level_num(s.metadata().level()),
        target: s.metadata().target().to_owned(),
        name: s.metadata().name().to_owned(),
        values: s.values().map(|(k, v)| (k.to_owned(), crate::proto::Val::from_real(v))).collect(),
        message: None,
        ancestors: vec![],
    }
}

fn view_event(e: &CapturedEvent<'_>) -> ItemView {
    use crate::proto::Val;
    let values: Vec<(String, Val)> = e.values().map(|(k, v)| (k.to_owned(), Val::from_real(v))).collect();
    let message = values.iter().find(|kv| kv.0 == "message").and_then(|kv| match &kv.1 {
        Val::Obj(s) | Val::Str(s) => Some(s.clone()),
        Val::Err(chain) => chain.first().cloned(),
        _ => None,
    });
    ItemView {
        level: level_num(e.metadata().level()),
        target: e.metadata().target().to_owned(),
        name: e.metadata().name().to_owned(),
        values,
        message,
        ancestors: e.ancestors().map(|a| view_span_flat(&a)).collect(),
    }
}

fn split_top(s: &str) -> Option<(&str, &str)> {
    let mut depth = 0i32;
    for (i, c) in s.char_indices() {
        match c {
            '(' => depth += 1,
            ')' => depth -= 1,
            ',' if depth == 0 => return Some((&s[..i], &s[i + 1..])),
            _ => {}
        }
    }
    None
}

fn str_pred(kind: &str, arg: &str, x: &str) -> Option<bool> {
    let a = crate::proto::unxs(arg)?;
    Some(match kind {
        "eq" => x == a,
        "sw" => x.starts_with(&a),
        _ => return None,
    })
}

/// `None` = token not understood (then no verdict).
fn meaning(tok: &str, it: &ItemView, chain: &[ItemView]) -> Option<bool> {
    use crate::proto::Val;
    if let Some(inner) = tok.strip_prefix("and(").and_then(|r| r.strip_suffix(')')) {
        let (a, b) = split_top(inner)?;
        return Some(meaning(a, it, chain)? & meaning(b, it, chain)?);
    }
    if let Some(inner) = tok.strip_prefix("or(").and_then(|r| r.strip_suffix(')')) {
        let (a, b) = split_top(inner)?;
        return Some(meaning(a, it, chain)? | meaning(b, it, chain)?);
    }
    if let Some(inner) = tok.strip_prefix("par(").and_then(|r| r.strip_suffix(')')) {
        return match chain.first() {
            Some(p) => meaning(inner, p, &chain[1..]),
            None => Some(false),
        };
    }
    if let Some(inner) = tok.strip_prefix("anc(").and_then(|r| r.strip_suffix(')')) {
        let mut any = false;
        for i in 0..chain.len() {
            any |= meaning(inner, &chain[i], &chain[i + 1..])?;
        }
        return Some(any);
    }
    let parts: Vec<&str> = tok.split(':').collect();
    let lv = |s: &str| crate::proto::LEVELS.iter().position(|l| *l == s).map(|p| p as u8);
    Some(match parts.as_slice() {
        ["lvl", l] => it.level == lv(l)?,
        ["lvc", l] => it.level == lv(l)?,
        ["lvf", "off"] => false,
        ["lvf", l] => it.level <= lv(l)?,
        ["tgt", p] => {
            let p = crate::proto::unxs(p)?;
            it.target == p || it.target.strip_prefix(&p).map_or(false, |r| r.starts_with("::"))
        }
        ["tgp", k, a] => str_pred(k, a, &it.target)?,
        ["name", k, a] => str_pred(k, a, &it.name)?,
        ["msg", k, a] => match &it.message {
            Some(m) => str_pred(k, a, m)?,
            None => false,
        },
        ["fld", n, rest @ ..] => {
            let n = crate::proto::unxs(n)?;
            let Some(v) = it.values.iter().find(|kv| kv.0 == n).map(|kv| &kv.1) else { return Some(false) };
            match (rest, v) {
                (["i64", x], Val::Int(i)) | (["i128", x], Val::Int(i)) => *i == x.parse::<i128>().ok()?,
                (["u64", x], Val::UInt(u)) | (["u128", x], Val::UInt(u)) => *u == x.parse::<u128>().ok()?,
                (["cint", x], Val::Int(i)) => *i == x.parse::<i128>().ok()?,
                (["cuint", x], Val::UInt(u)) => *u == x.parse::<u128>().ok()?,
                (["bool", x], Val::Bool(b)) => *b == (*x == "1"),
                (["f64", x], Val::Float(b)) => f64::from_bits(*b) == f64::from_bits(u64::from_str_radix(x, 16).ok()?),
                (["str", x], Val::Str(s)) => *s == crate::proto::unxs(x)?,
                (["vi64", c, x], Val::Int(i)) => match i64::try_from(*i) {
                    Ok(i) => { let x: i64 = x.parse().ok()?; match *c { "eq" => i == x, "lt" => i < x, "gt" => i > x, _ => return None } }
                    Err(_) => false,
                },
                (["vu64", c, x], Val::UInt(u)) => match u64::try_from(*u) {
                    Ok(u) => { let x: u64 = x.parse().ok()?; match *c { "eq" => u == x, "lt" => u < x, "gt" => u > x, _ => return None } }
                    Err(_) => false,
                },
                (["vstr", k, a], Val::Str(s)) => str_pred(k, a, s)?,
                ([ty, ..], _) if ["i64", "i128", "u64", "u128", "bool", "f64", "str", "vi64", "vu64", "vstr", "cint", "cuint"].contains(ty) => false,
                _ => return None,
            }
        }
        _ => return None,
    })
}

fn bit(b: bool) -> char {
    if b { '1' } else { '0' }
}

fn span_idx(storage: &Storage, s: &CapturedSpan<'_>) -> usize {
    storage.all_spans().position(|x| x == *s).unwrap()
}
fn event_idx(storage: &Storage, e: &CapturedEvent<'_>) -> usize {
    storage.all_events().position(|x| x == *e).unwrap()
}

fn scan_spans<'a, I: Iterator<Item = CapturedSpan<'a>> + DoubleEndedIterator>(
    storage: &'a Storage, kind: &str, p: &dyn for<'x> Predicate<CapturedSpan<'x>>, items: impl Fn() -> I, single: impl FnOnce() -> CapturedSpan<'a>,
    first: impl FnOnce() -> CapturedSpan<'a>, last: Option<Box<dyn FnOnce() -> CapturedSpan<'a> + 'a>>, all: impl FnOnce(), none: impl FnOnce(),
) -> (String, Option<String>) {
    // reference verdict from plain evaluation
    let matches: Vec<usize> = items().filter(|s| p.eval(s)).map(|s| span_idx(storage, &s)).collect();
    let total = items().count();
    let expect = match kind {
        "single" => if matches.len() == 1 { format!("r {}", matches[0]) } else { "panic".into() },
        "first" => matches.first().map_or("panic".into(), |i| format!("r {i}")),
        "last" => matches.last().map_or("panic".into(), |i| format!("r {i}")),
        "all" => if matches.len() == total { "r ok".into() } else { "panic".into() },
        _ => if matches.is_empty() { "r ok".into() } else { "panic".into() },
    };
    let got = match kind {
        "single" => catch_unwind(AssertUnwindSafe(single)).map(|s| format!("r {}", span_idx(storage, &s))),
        "first" => catch_unwind(AssertUnwindSafe(first)).map(|s| format!("r {}", span_idx(storage, &s))),
        "last" => match last {
            Some(f) => catch_unwind(AssertUnwindSafe(f)).map(|s| format!("r {}", span_idx(storage, &s))),
            None => Ok(expect.clone()),
        },
        "all" => catch_unwind(AssertUnwindSafe(all)).map(|()| "r ok".to_owned()),
        _ => catch_unwind(AssertUnwindSafe(none)).map(|()| "r ok".to_owned()),
    }
    .unwrap_or_else(|_| "panic".into());
    let fail = if got != expect { Some(format!("C18 scanner `{kind}` returned `{got}` but the matches are {matches:?} of {total} items")) } else { None };
    (got, fail)
}

impl Suite for Pred {
    fn gen(&self, rng: &mut Rng, tier: Tier, idx: usize, _focus: &str) -> Vec<String> {
        let gcfg = GenCfg { max_ops: if tier == Tier::Quick { 30 } else { 80 }, max_fields: 3, roots: true, clones: false, rich_values: false, leak_enters: false };
        let mut prog = program::gen_program(rng, &gcfg);
        // make names/targets line up with the atoms of the predicate table
        for (i, s) in prog.sites.iter_mut().enumerate() {
            if s.is_span {
                // incl. a raw identifier as the name (`#[instrument] fn r#type()`)
                s.name = if rng.chance(1, 8) { (*rng.pick(&["r#type", "type"])).to_owned() } else { format!("n{}", i % 3) };
            }
            if !s.is_span && !s.fields.contains(&"message".to_owned()) && rng.chance(1, 2) {
                s.fields = vec!["message".into(), "f0".into()];
            }
        }
        // a field that is a raw identifier (`r#type = 1`) next to its plain namesake
        if rng.chance(1, 5) {
            let ks = rng.below(prog.sites.len());
            prog.sites[ks].fields = vec![(*rng.pick(&["r#type", "type"])).to_owned(), "f0".into()];
            for op in &mut prog.ops {
                if let program::POp::New { k, vals, .. } | program::POp::Evt { k, vals, .. } = op {
                    if *k == ks {
                        *vals = vec![(0, format!("i64:{}", rng.below(2))), (1, "i64:1".into())];
                    }
                }
            }
            for op in &mut prog.ops {
                if let program::POp::Rec { vals, .. } = op {
                    vals.retain(|(i, _)| *i < 2);
                }
            }
        }
        // a message that is an error value (`error!(message = &err as &dyn Error)`): its text is
        // the error's message
        for op in &mut prog.ops {
            if let program::POp::Evt { k, vals, .. } = op {
                if prog.sites[*k].fields.first().map(String::as_str) == Some("message") {
                    for (i, tok) in vals.iter_mut() {
                        if *i == 0 && rng.chance(1, 5) {
                            let inner = crate::proto::hex(b"s0");
                            *tok = format!("{}:{},{inner}", if rng.chance(1, 2) { "err" } else { "erri" }, crate::proto::hex(format!("e{}", rng.below(2)).as_bytes()));
                        }
                    }
                }
            }
        }
        // an item that carries a string field called `log.target` (as events bridged from the `log`
        // crate do): `target(..)` is about the metadata target all the same
        if rng.chance(1, 4) {
            let ks = rng.below(prog.sites.len());
            prog.sites[ks].fields = vec!["log.target".into(), "f0".into()];
            let other = (*rng.pick(&["other", "app", "app::db", "my_app"])).to_owned();
            for op in &mut prog.ops {
                if let program::POp::New { k, vals, .. } | program::POp::Evt { k, vals, .. } = op {
                    if *k == ks {
                        *vals = vec![(0, format!("str:{}", crate::proto::hex(other.as_bytes())))];
                    }
                }
            }
            for op in &mut prog.ops {
                if let program::POp::Rec { vals, .. } = op {
                    vals.retain(|(i, _)| *i < 2);
                }
            }
        }
        // values the predicates' constants could be confused with: 128-bit numbers whose low 64
        // bits equal a small constant, strings where a number is expected, a `log.target` field
        for op in &mut prog.ops {
            if let program::POp::New { vals, .. } | program::POp::Rec { vals, .. } | program::POp::Evt { vals, .. } = op {
                for (_, tok) in vals.iter_mut() {
                    if tok != "empty" && rng.chance(1, 8) {
                        *tok = (*rng.pick(&["i128:18446744073709551617", "u128:18446744073709551617", "u128:18446744073709551618", "i128:-18446744073709551615", "i128:-1", "str:31", "f64:3ff0000000000000", "f64:0000000000000000", "f64:8000000000000000", "f64:7ff8000000000000", "f64:3ff0000000000000"])).to_owned();
                    }
                }
            }
        }
        // a message as long as the longest predicate constants (their rendering exceeds 200 bytes)
        for op in &mut prog.ops {
            if let program::POp::Evt { k, vals, .. } = op {
                if prog.sites[*k].fields.first().map(String::as_str) == Some("message") {
                    for (i, tok) in vals.iter_mut() {
                        if *i == 0 && rng.chance(1, 10) {
                            let long = "проверка".repeat(24);
                            let text = if rng.chance(1, 2) { long } else { format!("x{long}") };
                            *tok = format!("str:{}", crate::proto::hex(text.as_bytes()));
                        }
                    }
                }
            }
        }
        if idx % 25 == 11 {
            // a deep chain: 10..24 nested spans whose names repeat with period 3 except that only the
            // outermost ones are called `n1` / `n2`, an event at the bottom - ancestor predicates that
            // hold for a distant ancestor only
            let depth = rng.range(10, 24);
            let mk = |name: &str, level: u8, is_span: bool, fields: Vec<String>| Site { is_span, level, name: name.into(), target: "app".into(), module_path: None, file: None, line: None, fields };
            let sites = vec![mk("n1", 0, true, vec![]), mk("n2", 2, true, vec![]), mk("n0", 3, true, vec!["f0".into()]), mk("ev", 2, false, vec!["message".into(), "f0".into()])];
            let mut ops = vec![];
            for h in 0..depth {
                let k = if h == 0 { 0 } else if h == 1 { 1 } else { 2 };
                ops.push(program::POp::New { k, parent: program::PParent::Ctx, vals: if k == 2 { vec![(0, "i64:1".into())] } else { vec![] } });
                ops.push(program::POp::Ent(h));
            }
            ops.push(program::POp::Evt { k: 3, parent: program::PParent::Ctx, vals: vec![(0, format!("str:{}", crate::proto::hex(b"s0"))), (1, "i64:1".into())] });
            for h in (0..depth).rev() {
                ops.push(program::POp::Ext(h));
            }
            prog = Program { sites, ops, malformed: false };
        }
        let mut lines = prog.lines();
        let (n_sp, n_ev): (usize, usize) = (SPAN_PREDS.with(Vec::len), EVENT_PREDS.with(Vec::len));
        let n_q = if tier == Tier::Quick { 60 } else { 120 };
        let _ = idx;
        // plain atoms are a small part of the table: pick one of them every third time
        let sp_atoms: Vec<usize> = SPAN_PREDS.with(|t| t.iter().enumerate().filter(|(_, e)| !e.0.starts_with("and(") && !e.0.starts_with("or(")).map(|(i, _)| i).collect());
        let ev_atoms: Vec<usize> = EVENT_PREDS.with(|t| t.iter().enumerate().filter(|(_, e)| !e.0.starts_with("and(") && !e.0.starts_with("or(")).map(|(i, _)| i).collect());
        let sp_pick = |rng: &mut Rng| if rng.chance(1, 3) { *rng.pick(&sp_atoms) } else { rng.below(n_sp) };
        let ev_pick = |rng: &mut Rng| if rng.chance(1, 3) { *rng.pick(&ev_atoms) } else { rng.below(n_ev) };
        let n_spans = prog.ops.iter().filter(|o| matches!(o, program::POp::New { .. })).count().max(1);
        let n_events = prog.ops.iter().filter(|o| matches!(o, program::POp::Evt { .. })).count().max(1);
        for _ in 0..n_q {
            match rng.below(8) {
                0..=2 => lines.push(format!("q sp {} {}", if idx % 25 == 11 && rng.chance(1, 2) { n_spans - 1 } else { rng.below(n_spans + 1) }, SPAN_PREDS.with(|t| t[sp_pick(rng)].0))),
                3..=5 => lines.push(format!("q ev {} {}", rng.below(n_events + 1), EVENT_PREDS.with(|t| t[ev_pick(rng)].0))),
                6 => {
                    let kind = *rng.pick(&["single", "first", "last", "all", "none"]);
                    let whr = match rng.below(3) { 0 => "spans".to_owned(), 1 => format!("children:{}", rng.below(n_spans)), _ => format!("desc:{}", rng.below(n_spans)) };
                    lines.push(format!("scan {kind} {whr} {}", SPAN_PREDS.with(|t| t[sp_pick(rng)].0)));
                }
                _ => {
                    let kind = *rng.pick(&["single", "first", "last", "all", "none"]);
                    let whr = match rng.below(3) { 0 => "events".to_owned(), 1 => format!("events:{}", rng.below(n_spans)), _ => format!("deepev:{}", rng.below(n_spans)) };
                    lines.push(format!("scan {kind} {whr} {}", EVENT_PREDS.with(|t| t[ev_pick(rng)].0)));
                }
            }
        }
        lines
    }

    fn run(&self, lines: &[String]) -> Outcome {
        let mut out = Outcome::default();
        let (prog, rest) = Program::parse(lines);
        if prog.malformed {
            out.obs.push("bad-input".into());
            return out;
        }
        let cfg = Config { layers: vec![Filt::All], global: None, pass: vec![], per_layer: false, nested: false, probes: vec![] };
        let (storages, panicked) = run_capture(&prog, &cfg);
        if panicked {
            out.obs.push("panic".into());
            return out;
        }
        let storage = storages[0].lock();
        let spans: Vec<CapturedSpan<'_>> = storage.all_spans().collect();
        let events: Vec<CapturedEvent<'_>> = storage.all_events().collect();
        let mut both = 0usize;
        for l in &rest {
            let mut t = Toks::new(l);
            match t.next() {
                Some("q") => {
                    let what = t.next().unwrap_or("");
                    let i: usize = t.num().unwrap_or(0);
                    let tok = t.next().unwrap_or("");
                    let res = match what {
                        "sp" => spans.get(i).and_then(|s| SPAN_PREDS.with(|tb| tb.iter().find(|e| e.0 == tok).map(|e| (e.1.eval(s), e.1.find_case(true, s).is_some(), e.1.find_case(false, s).is_some())))),
                        _ => events.get(i).and_then(|s| EVENT_PREDS.with(|tb| tb.iter().find(|e| e.0 == tok).map(|e| (e.1.eval(s), e.1.find_case(true, s).is_some(), e.1.find_case(false, s).is_some())))),
                    };
                    match res {
                        Some((e, ct, cf)) => {
                            let view = if what == "sp" { spans.get(i).map(view_span) } else { events.get(i).map(view_event) };
                            if let Some(view) = view {
                                let chain = std::mem::take(&mut { view.ancestors.iter().map(|a| ItemView { level: a.level, target: a.target.clone(), name: a.name.clone(), values: a.values.clone(), message: None, ancestors: vec![] }).collect::<Vec<_>>() });
                                if let Some(want) = meaning(tok, &view, &chain) {
                                    if want != e {
                                        out.fails.push(format!("C18 predicate {tok} on {what} {i} evaluates to {e}, its reference meaning is {want}"));
                                    }
                                }
                            }
                            out.obs.push(format!("e {} t {} f {}", bit(e), bit(ct), bit(cf)));
                            if ct != e || cf == e {
                                out.fails.push(format!("C18 predicate {tok} on {what} {i}: eval = {e}, case for true exists = {ct}, case for false exists = {cf}"));
                            }
                            both += 1;
                        }
                        None => out.obs.push("na".into()),
                    }
                }
                Some("scan") => {
                    let kind = t.next().unwrap_or("").to_owned();
                    let whr = t.next().unwrap_or("").to_owned();
                    let tok = t.next().unwrap_or("").to_owned();
                    let (place, arg) = whr.split_once(':').map_or((whr.as_str(), None), |(a, b)| (a, b.parse::<usize>().ok()));
                    let root = arg.and_then(|i| spans.get(i).copied());
                    if arg.is_some() && root.is_none() {
                        out.obs.push("na".into());
                        continue;
                    }
                    let st: &Storage = &storage;
                    let line = match place {
                        "spans" | "children" | "desc" => SPAN_PREDS.with(|tb| {
                            let Some(p) = tb.iter().find(|e| e.0 == tok).map(|e| e.1.as_ref()) else { return ("na".into(), None) };
                            match place {
                                "spans" => scan_spans(st, &kind, p, || st.all_spans(), || st.scan_spans().single(p), || st.scan_spans().first(p), Some(Box::new(|| st.scan_spans().last(p))), || st.scan_spans().all(p), || st.scan_spans().none(p)),
                                "children" => { let r = root.unwrap(); scan_spans(st, &kind, p, || r.children(), || r.scan_spans().single(p), || r.scan_spans().first(p), Some(Box::new(move || r.scan_spans().last(p))), || r.scan_spans().all(p), || r.scan_spans().none(p)) }
                                _ => { let r = root.unwrap(); scan_spans(st, &kind, p, || r.descendants().collect::<Vec<_>>().into_iter(), || r.deep_scan_spans().single(p), || r.deep_scan_spans().first(p), None, || r.deep_scan_spans().all(p), || r.deep_scan_spans().none(p)) }
                            }
                        }),
                        _ => EVENT_PREDS.with(|tb| {
                            let Some(p) = tb.iter().find(|e| e.0 == tok).map(|e| e.1.as_ref()) else { return ("na".into(), None) };
                            let items: Vec<CapturedEvent<'_>> = match place {
                                "events" if arg.is_none() => st.all_events().collect(),
                                "events" => root.unwrap().events().collect(),
                                _ => { let r = root.unwrap(); r.events().chain(r.descendant_events()).collect() }
                            };
                            let matches: Vec<usize> = items.iter().filter(|e| p.eval(e)).map(|e| event_idx(st, e)).collect();
                            let expect = match kind.as_str() {
                                "single" => if matches.len() == 1 { format!("r {}", matches[0]) } else { "panic".into() },
                                "first" => matches.first().map_or("panic".into(), |i| format!("r {i}")),
                                "last" => matches.last().map_or("panic".into(), |i| format!("r {i}")),
                                "all" => if matches.len() == items.len() { "r ok".into() } else { "panic".into() },
                                _ => if matches.is_empty() { "r ok".into() } else { "panic".into() },
                            };
                            let ev = |e: CapturedEvent<'_>| format!("r {}", event_idx(st, &e));
                            let got = match (place, arg.is_some(), kind.as_str()) {
                                ("events", false, "single") => catch_unwind(AssertUnwindSafe(|| st.scan_events().single(p))).map(ev),
                                ("events", false, "first") => catch_unwind(AssertUnwindSafe(|| st.scan_events().first(p))).map(ev),
                                ("events", false, "last") => catch_unwind(AssertUnwindSafe(|| st.scan_events().last(p))).map(ev),
                                ("events", false, "all") => catch_unwind(AssertUnwindSafe(|| st.scan_events().all(p))).map(|()| "r ok".into()),
                                ("events", false, _) => catch_unwind(AssertUnwindSafe(|| st.scan_events().none(p))).map(|()| "r ok".into()),
                                ("events", true, "single") => catch_unwind(AssertUnwindSafe(|| root.unwrap().scan_events().single(p))).map(ev),
                                ("events", true, "first") => catch_unwind(AssertUnwindSafe(|| root.unwrap().scan_events().first(p))).map(ev),
                                ("events", true, "last") => catch_unwind(AssertUnwindSafe(|| root.unwrap().scan_events().last(p))).map(ev),
                                ("events", true, "all") => catch_unwind(AssertUnwindSafe(|| root.unwrap().scan_events().all(p))).map(|()| "r ok".into()),
                                ("events", true, _) => catch_unwind(AssertUnwindSafe(|| root.unwrap().scan_events().none(p))).map(|()| "r ok".into()),
                                (_, _, "single") => catch_unwind(AssertUnwindSafe(|| root.unwrap().deep_scan_events().single(p))).map(ev),
                                (_, _, "first") => catch_unwind(AssertUnwindSafe(|| root.unwrap().deep_scan_events().first(p))).map(ev),
                                (_, _, "last") => Ok(expect.clone()), // not double-ended
                                (_, _, "all") => catch_unwind(AssertUnwindSafe(|| root.unwrap().deep_scan_events().all(p))).map(|()| "r ok".into()),
                                _ => catch_unwind(AssertUnwindSafe(|| root.unwrap().deep_scan_events().none(p))).map(|()| "r ok".into()),
                            }
                            .unwrap_or_else(|_| "panic".into());
                            let fail = if got != expect { Some(format!("C18 scanner `{kind}` over {whr} returned `{got}` but the matches are {matches:?} of {} items", items.len())) } else { None };
                            (got, fail)
                        }),
                    };
                    out.obs.push(line.0);
                    if let Some(f) = line.1 {
                        out.fails.push(f);
                    }
                }
                _ => {}
            }
        }
        if both >= 10 && spans.len() >= 2 {
            out.tags.push("nontrivial".into());
        }
        out
    }
}
