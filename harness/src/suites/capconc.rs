//! Suite `capconc` (C19): several threads emitting into one shared `Registry` + `CaptureLayer`.
//! Forced schedules (one operation at a time, by the designated thread) are compared with the
//! interleaving model; free-running runs are checked by per-thread projection against the
//! single-threaded reference.

use std::{
    sync::mpsc::{channel, Sender as Tx},
    thread,
};

use tracing_core::dispatcher::{self, Dispatch};

use super::{
    capture::{dump, Config, Filt},
    Outcome, Suite, Tier,
};
use crate::{
    program::{self, GenCfg, POp, PParent, Runner},
    proto::{Site, Toks},
    rng::Rng,
};

pub struct CapConc;

struct Case {
    sites: Vec<Site>,
    filter: Filt,
    shared: (usize, usize), // count, site
    work: Vec<(usize, Vec<POp>)>,
    sched: Option<Vec<usize>>,
    storm: Option<(usize, usize)>, // threads, records per thread on one shared span
    hold: Option<(u64, usize)>,    // milliseconds the storage stays locked elsewhere, events emitted meanwhile
}

fn parse_case(lines: &[String]) -> Option<Case> {
    let mut c = Case { sites: vec![], filter: Filt::All, shared: (0, 0), work: vec![], sched: None, storm: None, hold: None };
    for l in lines {
        let mut t = Toks::new(l);
        match t.next()? {
            "site" => {
                let k: usize = t.num()?;
                if k != c.sites.len() {
                    return None;
                }
                c.sites.push(Site::parse(&mut t)?);
            }
            "lfilter" => {
                t.next();
                c.filter = Filt::parse(t.next()?)?;
            }
            "shared" => c.shared = (t.num()?, t.num()?),
            "tp" => {
                let tid: usize = t.num()?;
                let op = POp::parse(&mut t)?;
                match c.work.iter_mut().find(|w| w.0 == tid) {
                    Some(w) => w.1.push(op),
                    None => c.work.push((tid, vec![op])),
                }
            }
            "sched" => c.sched = Some(t.rest().iter().filter_map(|x| x.parse().ok()).collect()),
            "free" => c.sched = None,
            "storm" => c.storm = Some((t.num()?, t.num()?)),
            "hold" => c.hold = Some((t.num()?, t.num()?)),
            _ => return None,
        }
    }
    Some(c)
}

fn setup(c: &Case) -> (Dispatch, Vec<tracing_capture::SharedStorage>, Vec<Option<(tracing_core::span::Id, usize)>>) {
    let (d, s, h, _) = setup_logged(c);
    (d, s, h)
}

fn setup_logged(c: &Case) -> (Dispatch, Vec<tracing_capture::SharedStorage>, Vec<Option<(tracing_core::span::Id, usize)>>, Vec<program::FeCall>) {
    let cfg = Config { layers: vec![c.filter.clone()], global: None, pass: vec![], per_layer: false, nested: false, probes: vec![] };
    let (dispatch, storages) = cfg.build();
    let mut main = Runner::new(&c.sites);
    dispatcher::with_default(&dispatch, || {
        for _ in 0..c.shared.0 {
            main.step(&dispatch, &POp::New { k: c.shared.1, parent: PParent::Root, vals: vec![] });
        }
    });
    let log = main.log.clone();
    (dispatch, storages, main.handles, log)
}

fn run_forced(c: &Case, sched: &[usize]) -> Vec<String> {
    let (dispatch, storages, shared, main_log) = setup_logged(c);
    // the interleaved call log: what the threads' front ends did, in schedule order
    let mut tagged: Vec<(usize, program::FeCall)> = main_log.into_iter().map(|c| (99, c)).collect();
    let (done_tx, done_rx) = channel::<(usize, Vec<program::FeCall>)>();
    let mut go: Vec<(usize, Tx<()>)> = vec![];
    let mut handles = vec![];
    for (tid, ops) in &c.work {
        let (tx, rx) = channel::<()>();
        go.push((*tid, tx));
        let (tid, ops, sites, dispatch, shared, done_tx) = (*tid, ops.clone(), c.sites.clone(), dispatch.clone(), shared.clone(), done_tx.clone());
        handles.push(thread::spawn(move || {
            let mut runner = Runner::new(&sites);
            runner.handles = shared;
            dispatcher::with_default(&dispatch, || {
                for op in &ops {
                    if rx.recv().is_err() {
                        return;
                    }
                    let before = runner.log.len();
                    runner.step(&dispatch, op);
                    let _ = done_tx.send((tid, runner.log[before..].to_vec()));
                }
                // stay alive until every thread is done: the Registry's per-thread span stacks
                // live in recycled `thread_local` slots (see `run_free`)
                let _ = rx.recv();
            });
        }));
    }
    let mut left: std::collections::HashMap<usize, usize> = c.work.iter().map(|w| (w.0, w.1.len())).collect();
    for t in sched {
        if left.get(t).copied().unwrap_or(0) == 0 {
            continue;
        }
        go.iter().find(|g| g.0 == *t).unwrap().1.send(()).unwrap();
        let (tid, calls) = done_rx.recv().unwrap();
        tagged.extend(calls.into_iter().map(|c| (tid, c)));
        *left.get_mut(t).unwrap() -= 1;
    }
    drop(go);
    for h in handles {
        let _ = h.join();
    }
    let mut out = vec![];
    let mut fails = vec![];
    let lock = storages[0].lock();
    dump(&lock, &c.sites, "L0 ", &mut out, &mut fails);
    // C19: the storage against the independent reference interpreter run over the interleaved log
    // (per-thread stacks; not the implementation's own single-threaded run)
    let want = super::capture::expected_dump_tagged(&c.sites, &c.filter, &tagged, "L0 ");
    if want != out {
        let k = want.iter().zip(&out).position(|(a, b)| a != b).unwrap_or(want.len().min(out.len()));
        fails.push(format!("C19 under this schedule the storage differs from what the threads did: captured `{}`, expected `{}`", out.get(k).map_or("<end>", String::as_str), want.get(k).map_or("<end>", String::as_str)));
    }
    out.extend(fails.into_iter().map(|f| format!("FAIL {f}")));
    out
}

#[derive(Debug, Clone, PartialEq)]
struct Proj {
    k: String,
    rest: String,   // values, counters
    parent: String, // "-", "sh:<i>", "own:<rank>"
}

/// Items of thread `tid` (by call-site name prefix `t<tid>-`), with parents described relative to
/// the thread's own items or the shared spans.
fn project(dump: &[String], sites: &[Site], tid: usize, n_shared: usize) -> (Vec<Proj>, Vec<Proj>) {
    let owner = |k: &str| -> Option<usize> {
        let idx: usize = k.strip_prefix('k')?.parse().ok()?;
        let name = &sites.get(idx)?.name;
        name.strip_prefix('t')?.split('-').next()?.parse().ok()
    };
    let mut span_rows: Vec<(usize, String, String, String)> = vec![]; // idx, k, rest, par
    let mut event_rows: Vec<(String, String, String)> = vec![];
    for l in dump {
        let toks: Vec<&str> = l.split(' ').collect();
        if toks.get(1) == Some(&"sp") {
            let n = toks.len();
            let par = toks[n - 4].strip_prefix("par=").unwrap_or("-").to_owned();
            let rest = format!("{} {} {} {}", toks[4..n - 7].join(" "), toks[n - 7], toks[n - 6], toks[n - 5]);
            span_rows.push((toks[2].parse().unwrap(), toks[3].to_owned(), rest, par));
        } else if toks.get(1) == Some(&"evn") {
            let n = toks.len();
            event_rows.push((toks[3].to_owned(), toks[4..n - 1].join(" "), toks[n - 1].strip_prefix("par=").unwrap_or("-").to_owned()));
        }
    }
    // shared spans are the first captured spans of the shared call site (created before threads)
    let own_idx: Vec<usize> = span_rows.iter().filter(|r| owner(&r.1) == Some(tid)).map(|r| r.0).collect();
    let shared_idx: Vec<usize> = span_rows.iter().filter(|r| owner(&r.1).is_none()).map(|r| r.0).take(n_shared).collect();
    let describe = |par: &str| -> String {
        match par.parse::<usize>() {
            Err(_) => "-".into(),
            Ok(p) => {
                if let Some(r) = own_idx.iter().position(|x| *x == p) {
                    format!("own:{r}")
                } else if let Some(r) = shared_idx.iter().position(|x| *x == p) {
                    format!("sh:{r}")
                } else {
                    format!("foreign:{p}")
                }
            }
        }
    };
    let spans = span_rows.iter().filter(|r| owner(&r.1) == Some(tid)).map(|r| Proj { k: r.1.clone(), rest: r.2.clone(), parent: describe(&r.3) }).collect();
    let events = event_rows.iter().filter(|r| owner(&r.0) == Some(tid)).map(|r| Proj { k: r.0.clone(), rest: r.1.clone(), parent: describe(&r.2) }).collect();
    (spans, events)
}

fn run_free(c: &Case, out: &mut Outcome) {
    let (dispatch, storages, shared) = setup(c);
    // All threads exist before the first and after the last operation: the Registry keeps its
    // per-thread span stacks in a `thread_local::ThreadLocal`, whose slots are recycled when a
    // thread exits, so a thread spawned after another one has exited with spans still entered
    // would inherit that stack (environment behaviour, outside the property).
    let barrier = std::sync::Barrier::new(c.work.len());
    thread::scope(|scope| {
        for (_, ops) in &c.work {
            let (dispatch, shared, sites, barrier) = (dispatch.clone(), shared.clone(), c.sites.clone(), &barrier);
            scope.spawn(move || {
                let mut runner = Runner::new(&sites);
                runner.handles = shared;
                barrier.wait();
                dispatcher::with_default(&dispatch, || {
                    for op in ops {
                        runner.step(&dispatch, op);
                    }
                });
                barrier.wait();
            });
        }
    });
    let mut conc = vec![];
    {
        let lock = storages[0].lock();
        let mut fails = vec![];
        dump(&lock, &c.sites, "L0 ", &mut conc, &mut fails);
        out.fails.extend(fails.into_iter().map(|f| f.replacen("C17", "C19 (C17 law)", 1)));
    }
    // shared spans: every thread records only its own field `t<tid>` on them, so the final value of
    // that field is the last one the thread recorded, whatever the other threads did meanwhile
    {
        let lock = storages[0].lock();
        let shared_spans: Vec<_> = lock.all_spans().filter(|s| s.metadata().name() == "shared").collect();
        if shared_spans.len() == c.shared.0 {
            for (tid, ops) in &c.work {
                let hs = shared_handles(ops, c.shared.0);
                for (h, span) in shared_spans.iter().enumerate() {
                    let mut want: Option<crate::proto::Val> = None;
                    for op in ops {
                        if let POp::Rec { s, vals } = op {
                            if hs.get(*s).copied().flatten() == Some(h) {
                                for (i, tok) in vals {
                                    if *i == *tid {
                                        if let Some(v) = super::values::expected_capture(tok) {
                                            want = Some(v);
                                        }
                                    }
                                }
                            }
                        }
                    }
                    let got = span.value(&format!("t{tid}")).map(crate::proto::Val::from_real);
                    if got != want {
                        out.fails.push(format!("C19 shared span {h}: field t{tid} is {got:?} after all threads joined, thread {tid} last recorded {want:?} (lost or stale update)"));
                    }
                }
            }
        }
    }
    let mut total_spans = 0usize;
    for (tid, ops) in &c.work {
        // single-threaded reference: the same shared spans, then this thread's program alone
        let (d1, s1, sh1) = setup(c);
        let mut runner = Runner::new(&c.sites);
        runner.handles = sh1;
        dispatcher::with_default(&d1, || {
            for op in ops {
                runner.step(&d1, op);
            }
        });
        let mut solo = vec![];
        let mut f = vec![];
        dump(&s1[0].lock(), &c.sites, "L0 ", &mut solo, &mut f);
        let (cs, ce) = project(&conc, &c.sites, *tid, c.shared.0);
        let (ss, se) = project(&solo, &c.sites, *tid, c.shared.0);
        total_spans += cs.len();
        if cs != ss {
            let k = cs.iter().zip(&ss).position(|(a, b)| a != b).unwrap_or(cs.len().min(ss.len()));
            out.fails.push(format!("C19 thread {tid}: captured spans differ from the single-threaded reference at its item #{k}: {:?} vs {:?} ({} vs {} items)", cs.get(k), ss.get(k), cs.len(), ss.len()));
        }
        if ce != se {
            let k = ce.iter().zip(&se).position(|(a, b)| a != b).unwrap_or(ce.len().min(se.len()));
            out.fails.push(format!("C19 thread {tid}: captured events differ from the single-threaded reference at its item #{k}: {:?} vs {:?} ({} vs {} items)", ce.get(k), se.get(k), ce.len(), se.len()));
        }
    }
    let n_conc_spans = conc.iter().filter(|l| l.split(' ').nth(1) == Some("sp")).count();
    let shared_captured = conc.iter().filter(|l| l.split(' ').nth(1) == Some("sp")).count() - total_spans;
    if shared_captured > c.shared.0 {
        out.fails.push(format!("C19 {n_conc_spans} spans captured, but the threads' items ({total_spans}) plus the {} shared spans do not add up", c.shared.0));
    }
    out.tags.push(format!("free-threads:{}", c.work.len()));
    if c.work.len() >= 2 && c.work.iter().filter(|w| w.1.iter().any(|o| matches!(o, POp::New { .. }))).count() >= 2 {
        out.tags.push("nontrivial".into());
    }
}

/// `hold ms n`: while the storage is kept locked elsewhere for `ms` milliseconds — by a reader
/// inspecting it, then by another emitter whose value takes that long to format — a worker thread
/// emits `n` events inside its span; every one of them must be captured once the lock is free.
fn run_hold(c: &Case, ms: u64, n: usize, out: &mut Outcome) {
    struct Slow(u64);
    impl std::fmt::Debug for Slow {
        fn fmt(&self, f: &mut std::fmt::Formatter<'_>) -> std::fmt::Result {
            thread::sleep(std::time::Duration::from_millis(self.0));
            f.write_str("slow")
        }
    }
    let ev_site = Site { is_span: false, level: 2, name: "held-event".into(), target: "app".into(), module_path: None, file: None, line: None, fields: vec!["i".into()] };
    let sp_site = Site { is_span: true, level: 2, name: "held-span".into(), target: "app".into(), module_path: None, file: None, line: None, fields: vec![] };
    let slow_site = Site { is_span: false, level: 2, name: "slow-event".into(), target: "app".into(), module_path: None, file: None, line: None, fields: vec!["v".into()] };
    let (ev_meta, sp_meta, slow_meta) = (crate::dynsite::metadata_for(&ev_site), crate::dynsite::metadata_for(&sp_site), crate::dynsite::metadata_for(&slow_site));
    for phase in 0..2 {
        let cfg = Config { layers: vec![c.filter.clone()], global: None, pass: vec![], per_layer: false, nested: false, probes: vec![] };
        let (dispatch, storages) = cfg.build();
        let storage = storages[0].clone();
        let started = std::sync::Barrier::new(2);
        thread::scope(|scope| {
            let (d2, started) = (dispatch.clone(), &started);
            let worker = scope.spawn(move || {
                dispatcher::with_default(&d2, || {
                    let vs = sp_meta.fields().value_set(&[]);
                    let span = tracing::Span::new_root(sp_meta, &vs);
                    let _g = span.enter();
                    started.wait();
                    thread::sleep(std::time::Duration::from_millis(ms / 4)); // the other side holds the lock by now
                    for i in 0..n as u64 {
                        let field = crate::dynsite::nth_field(ev_meta, 0);
                        let value: &dyn tracing_core::field::Value = &i;
                        let arr = [(&field, Some(value))];
                        let vs = ev_meta.fields().value_set(&arr);
                        tracing_core::Event::dispatch(ev_meta, &vs);
                    }
                });
            });
            if phase == 0 {
                // a reader keeps the storage locked
                started.wait();
                let guard = storage.lock();
                thread::sleep(std::time::Duration::from_millis(ms));
                drop(guard);
            } else {
                // another emitter's event takes long to format while it holds the write lock
                started.wait();
                dispatcher::with_default(&dispatch, || {
                    let field = crate::dynsite::nth_field(slow_meta, 0);
                    let slow = tracing_core::field::debug(Slow(ms));
                    let value: &dyn tracing_core::field::Value = &slow;
                    let arr = [(&field, Some(value))];
                    let vs = slow_meta.fields().value_set(&arr);
                    tracing_core::Event::dispatch(slow_meta, &vs);
                });
            }
            let _ = worker.join();
        });
        let lock = storage.lock();
        let got = lock.all_events().filter(|e| e.metadata().name() == "held-event").count();
        let attached = lock.all_events().filter(|e| e.metadata().name() == "held-event" && e.parent().map_or(false, |p| p.metadata().name() == "held-span")).count();
        if got != n || attached != n {
            out.fails.push(format!("C19 while the storage was locked elsewhere for {ms} ms ({}), a thread emitted {n} events inside its span: {got} captured, {attached} attached to the span", if phase == 0 { "a reader" } else { "another emitter formatting a slow value" }));
        }
    }
    // phase 3: a thread panics inside an entered span while a reader holds the storage; what it emits
    // while unwinding (an event from a drop guard, the span's exit and close) is captured like
    // anything else once the lock is free
    {
        struct LogOnDrop(&'static tracing_core::Metadata<'static>);
        impl Drop for LogOnDrop {
            fn drop(&mut self) {
                let field = crate::dynsite::nth_field(self.0, 0);
                let v = 7u64;
                let value: &dyn tracing_core::field::Value = &v;
                let arr = [(&field, Some(value))];
                let vs = self.0.fields().value_set(&arr);
                tracing_core::Event::dispatch(self.0, &vs);
            }
        }
        let cfg = Config { layers: vec![c.filter.clone()], global: None, pass: vec![], per_layer: false, nested: false, probes: vec![] };
        let (dispatch, storages) = cfg.build();
        let storage = storages[0].clone();
        let started = std::sync::Barrier::new(2);
        thread::scope(|scope| {
            let (d2, started) = (dispatch.clone(), &started);
            let worker = scope.spawn(move || {
                dispatcher::with_default(&d2, || {
                    let _ = std::panic::catch_unwind(std::panic::AssertUnwindSafe(|| {
                        let vs = sp_meta.fields().value_set(&[]);
                        let span = tracing::Span::new_root(sp_meta, &vs);
                        let _g = span.enter();
                        let _cleanup = LogOnDrop(ev_meta);
                        started.wait();
                        thread::sleep(std::time::Duration::from_millis(ms / 4));
                        panic!("worker fails inside its span");
                    }));
                });
            });
            started.wait();
            let guard = storage.lock();
            thread::sleep(std::time::Duration::from_millis(ms));
            drop(guard);
            let _ = worker.join();
        });
        let lock = storage.lock();
        let events = lock.all_events().filter(|e| e.metadata().name() == "held-event" && e.parent().map_or(false, |p| p.metadata().name() == "held-span")).count();
        let stats = lock.all_spans().find(|s| s.metadata().name() == "held-span").map(|s| s.stats());
        let ok = events == 1 && stats.map_or(false, |st| st.entered == 1 && st.exited == 1 && st.is_closed);
        if !ok {
            out.fails.push(format!("C19 a thread unwinding out of its span while the storage was locked elsewhere for {ms} ms: {events} of 1 cleanup events captured in the span, span stats {stats:?} (expected entered 1, exited 1, closed)"));
        }
    }
    // phase 4: one thread runs several tasks, each under a fresh subscriber that feeds the same
    // storage (fresh registries hand out the same span ids again); the task spans are closed by
    // another thread; every task's event belongs to that task's span
    {
        let storage = tracing_capture::SharedStorage::default();
        let (tx, rx) = std::sync::mpsc::channel::<tracing::Span>();
        let tasks = 6usize;
        thread::scope(|scope| {
            let st = storage.clone();
            let worker = scope.spawn(move || {
                for i in 0..tasks as u64 {
                    use tracing_subscriber::layer::SubscriberExt;
                    let sub = tracing_subscriber::Registry::default().with(tracing_capture::CaptureLayer::new(&st));
                    let d = Dispatch::new(sub);
                    dispatcher::with_default(&d, || {
                        let vs = sp_meta.fields().value_set(&[]);
                        let span = tracing::Span::new_root(sp_meta, &vs);
                        {
                            let _g = span.enter();
                            let field = crate::dynsite::nth_field(ev_meta, 0);
                            let value: &dyn tracing_core::field::Value = &i;
                            let arr = [(&field, Some(value))];
                            let vs = ev_meta.fields().value_set(&arr);
                            tracing_core::Event::dispatch(ev_meta, &vs);
                        }
                        tx.send(span).unwrap(); // closed elsewhere
                    });
                }
                drop(tx);
            });
            for span in rx {
                drop(span);
            }
            let _ = worker.join();
        });
        let lock = storage.lock();
        let spans: Vec<_> = lock.all_spans().collect();
        let mut wrong = vec![];
        for (i, e) in lock.all_events().enumerate() {
            let want = spans.get(i);
            if e.parent().as_ref() != want || want.map_or(true, |s| !s.events().any(|x| x == e)) {
                wrong.push(i);
            }
        }
        if spans.len() != tasks || lock.all_events().len() != tasks || !wrong.is_empty() {
            out.fails.push(format!("C19 {tasks} tasks on one thread, each under a fresh subscriber feeding one storage, spans closed by another thread: {} spans, {} events captured; events {wrong:?} are not attached to their own task's span", spans.len(), lock.all_events().len()));
        }
    }
    out.tags.push("hold".into());
    out.tags.push("nontrivial".into());
}

/// For every handle index a thread's program uses: the shared span it refers to, if any (handles
/// `0..n_shared` are the shared spans; `new` and `cln` append handles).
fn shared_handles(ops: &[POp], n_shared: usize) -> Vec<Option<usize>> {
    let mut hs: Vec<Option<usize>> = (0..n_shared).map(Some).collect();
    for op in ops {
        match op {
            POp::New { .. } => hs.push(None),
            POp::Cln(s) => {
                let v = hs.get(*s).copied().flatten();
                hs.push(v);
            }
            _ => {}
        }
    }
    hs
}

/// `storm n m`: n threads record m times each on one shared span, every thread its own field; after
/// each of its records a thread reads the storage and must find exactly what it just recorded (no
/// other thread writes that field), and at the end every field holds its last value.
fn run_storm(c: &Case, n: usize, m: usize, out: &mut Outcome) {
    let site = Site { is_span: true, level: 2, name: "shared".into(), target: "app".into(), module_path: None, file: None, line: None, fields: (0..n).map(|i| format!("t{i}")).collect() };
    let meta = crate::dynsite::metadata_for(&site);
    let cfg = Config { layers: vec![c.filter.clone()], global: None, pass: vec![], per_layer: false, nested: false, probes: vec![] };
    let (dispatch, storages) = cfg.build();
    let storage = storages[0].clone();
    let span = dispatcher::with_default(&dispatch, || {
        let vs = meta.fields().value_set(&[]);
        tracing::Span::new_root(meta, &vs)
    });
    let bad = std::sync::Mutex::new(Vec::<String>::new());
    let barrier = std::sync::Barrier::new(n);
    thread::scope(|scope| {
        for tid in 0..n {
            let (dispatch, span, storage, bad, barrier) = (dispatch.clone(), span.clone(), storage.clone(), &bad, &barrier);
            scope.spawn(move || {
                let field = crate::dynsite::nth_field(meta, tid);
                let name = format!("t{tid}");
                barrier.wait();
                dispatcher::with_default(&dispatch, || {
                    for i in 1..=m as u64 {
                        let value: &dyn tracing_core::field::Value = &i;
                        let arr = [(&field, Some(value))];
                        let vs = meta.fields().value_set(&arr);
                        span.record_all(&vs);
                        let seen = {
                            let lock = storage.lock();
                            lock.all_spans().next().and_then(|s| s.value(&name).and_then(tracing_tunnel::TracedValue::as_uint))
                        };
                        if seen != Some(u128::from(i)) {
                            let mut b = bad.lock().unwrap();
                            if b.len() < 3 {
                                b.push(format!("C19 storm: thread {tid} recorded {name}={i} on the shared span and then read {seen:?} (lost or stale update)"));
                            }
                            return;
                        }
                    }
                });
                barrier.wait();
            });
        }
    });
    out.fails.extend(bad.into_inner().unwrap());
    // second phase: every thread enters and exits the shared span `m` times; no count may be lost
    thread::scope(|scope| {
        for _ in 0..n {
            let (dispatch, span, barrier) = (dispatch.clone(), span.clone(), &barrier);
            scope.spawn(move || {
                barrier.wait();
                dispatcher::with_default(&dispatch, || {
                    for _ in 0..m {
                        let _guard = span.enter();
                    }
                });
                barrier.wait();
            });
        }
    });
    {
        let lock = storage.lock();
        if let Some(s) = lock.all_spans().next() {
            let st = s.stats();
            if st.entered != n * m || st.exited != n * m || st.is_closed {
                out.fails.push(format!("C19 storm: {n} threads entered and exited the shared span {m} times each, captured stats are {st:?}"));
            }
        }
    }
    let lock = storage.lock();
    if let Some(s) = lock.all_spans().next() {
        for tid in 0..n {
            let got = s.value(&format!("t{tid}")).and_then(tracing_tunnel::TracedValue::as_uint);
            if got != Some(m as u128) && out.fails.is_empty() {
                out.fails.push(format!("C19 storm: field t{tid} is {got:?} at the end, expected {m}"));
            }
        }
    }
    out.tags.push("storm".into());
    out.tags.push("nontrivial".into());
}

fn thread_sites(rng: &mut Rng, tid: usize) -> Vec<Site> {
    let mut v = vec![];
    for i in 0..3 {
        let mut s = crate::gen::site(rng, Some(i < 2), 3);
        s.name = format!("t{tid}-n{i}");
        v.push(s);
    }
    v
}

impl Suite for CapConc {
    fn gen(&self, rng: &mut Rng, tier: Tier, idx: usize, _focus: &str) -> Vec<String> {
        if idx % 20 == 7 {
            return vec!["lfilter 0 -".into(), format!("hold {} {}", rng.range(120, 200), rng.range(1, 5))];
        }
        if idx % 10 == 9 {
            let (n, m) = (rng.range(2, 8), if tier == Tier::Quick { 2000 } else { 20000 });
            return vec!["lfilter 0 -".into(), format!("storm {n} {m}")];
        }
        let forced = idx % 2 == 0;
        let n_threads = if forced { rng.range(2, 3) } else { rng.range(2, 16) };
        let n_shared = rng.range(0, 2);
        // the shared spans' call site has one field per thread; a thread records only its own
        let mut sites = vec![Site { is_span: true, level: 2, name: "shared".into(), target: "app".into(), module_path: None, file: None, line: None, fields: (0..n_threads).map(|i| format!("t{i}")).collect() }];
        let mut lines = vec![];
        let mut work: Vec<(usize, Vec<POp>)> = vec![];
        for tid in 0..n_threads {
            let base = sites.len();
            sites.extend(thread_sites(rng, tid));
            let gcfg = GenCfg { max_ops: if forced { 8 } else if tier == Tier::Quick { 30 } else { 120 }, max_fields: 3, roots: true, clones: true, rich_values: false, leak_enters: false };
            let mut ops = program::gen_thread_program(rng, &gcfg, &sites, base, n_shared);
            let hs = shared_handles(&ops, n_shared);
            for op in &mut ops {
                if let POp::Rec { s, vals } = op {
                    if hs.get(*s).copied().flatten().is_some() {
                        *vals = vec![(tid, format!("u64:{}", rng.below(1000)))];
                    }
                }
            }
            if !forced && n_shared > 0 && rng.chance(1, 2) {
                // plenty of concurrent records on the shared spans
                for _ in 0..rng.range(5, 40) {
                    let pos = rng.below(ops.len() + 1);
                    ops.insert(pos, POp::Rec { s: rng.below(n_shared), vals: vec![(tid, format!("u64:{}", rng.below(1000)))] });
                }
            }
            work.push((tid, ops));
        }
        for (k, s) in sites.iter().enumerate() {
            lines.push(format!("site {k} {}", s.tok()));
        }
        let f = match rng.below(4) { 0 => Filt::Level(rng.range(1, 3) as u8), 1 => Filt::Name(format!("t{}-n0", rng.below(n_threads))), _ => Filt::All };
        lines.push(format!("lfilter 0 {}", f.tok()));
        lines.push(format!("shared {n_shared} 0"));
        for (tid, ops) in &work {
            for op in ops {
                lines.push(format!("tp {tid} {}", &op.tok()[2..]));
            }
        }
        if forced {
            let mut sched: Vec<usize> = work.iter().flat_map(|(t, ops)| std::iter::repeat(*t).take(ops.len())).collect();
            for i in (1..sched.len()).rev() {
                sched.swap(i, rng.below(i + 1));
            }
            lines.push(format!("sched {}", sched.iter().map(ToString::to_string).collect::<Vec<_>>().join(" ")));
        } else {
            lines.push("free".into());
        }
        lines
    }

    fn run(&self, lines: &[String]) -> Outcome {
        let mut out = Outcome::default();
        let Some(c) = parse_case(lines) else {
            out.obs.push("bad-input".into());
            return out;
        };
        if let Some((n, m)) = c.storm {
            run_storm(&c, n, m, &mut out);
            return out;
        }
        if let Some((ms, n)) = c.hold {
            run_hold(&c, ms, n, &mut out);
            return out;
        }
        match &c.sched {
            Some(sched) => {
                for l in run_forced(&c, sched) {
                    if let Some(f) = l.strip_prefix("FAIL ") {
                        out.fails.push(f.replacen("C17", "C19 (C17 law)", 1));
                    } else {
                        out.obs.push(l);
                    }
                }
                out.tags.push("forced".into());
                if sched.windows(2).filter(|w| w[0] != w[1]).count() >= 2 {
                    out.tags.push("nontrivial".into());
                }
            }
            None => run_free(&c, &mut out),
        }
        out
    }
}
