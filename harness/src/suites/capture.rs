//! Suite `capture` (C05, C16, C17): guest programs driven directly into
//! `Registry` + capture layer(s) with filters; the whole storage is dumped through the public
//! query API. The forest laws of C17 are cross-checked on the real storage.

use std::panic::{catch_unwind, AssertUnwindSafe};

use tracing_capture::{CaptureLayer, CapturedEvent, CapturedSpan, SharedStorage, Storage};
use tracing_core::{dispatcher::{self, Dispatch}, LevelFilter, Metadata};
use tracing_subscriber::{filter::filter_fn, layer::SubscriberExt, Layer, Registry};

use super::{Outcome, Suite, Tier};
use crate::{
    dynsite,
    program::{self, GenCfg, POp, PParent, Program},
    proto::{entries_from_real, entries_tok, unxs, xs, Site, Toks},
    rng::Rng,
};

pub struct Capture;

#[derive(Debug, Clone, PartialEq)]
pub enum Filt {
    All,
    Level(u8),
    Name(String),
    Target(String),
    /// Looks at the context, not only at the call site: enabled while some span is entered on the
    /// emitting thread (`dynamic_filter_fn`). Not part of the Lean model's filters: such cases are
    /// judged by the reference interpreter only.
    InSpan,
}

impl Filt {
    pub fn tok(&self) -> String {
        match self {
            Filt::All => "-".into(),
            Filt::Level(l) => format!("level:{l}"),
            Filt::Name(n) => format!("name:{}", xs(n)),
            Filt::Target(t) => format!("target:{}", xs(t)),
            Filt::InSpan => "inspan".into(),
        }
    }
    pub fn parse(t: &str) -> Option<Self> {
        if t == "-" {
            return Some(Filt::All);
        }
        if t == "inspan" {
            return Some(Filt::InSpan);
        }
        let (k, v) = t.split_once(':')?;
        Some(match k {
            "level" => Filt::Level(v.parse().ok()?),
            "name" => Filt::Name(unxs(v)?),
            "target" => Filt::Target(unxs(v)?),
            _ => return None,
        })
    }
    pub fn enabled(&self, meta: &Metadata<'_>) -> bool {
        let site = Site::from_metadata(meta);
        match self {
            Filt::All => true,
            Filt::Level(l) => site.level <= *l,
            Filt::Name(n) => site.name != *n,
            Filt::Target(t) => site.target.starts_with(t.as_str()),
            Filt::InSpan => true,
        }
    }

    /// The verdict given whether a span is entered on the calling thread.
    pub fn enabled_in(&self, meta: &Metadata<'_>, in_span: bool) -> bool {
        match self {
            Filt::InSpan => in_span,
            f => f.enabled(meta),
        }
    }
}

fn level_filter(l: u8) -> LevelFilter {
    match l {
        0 => LevelFilter::ERROR,
        1 => LevelFilter::WARN,
        2 => LevelFilter::INFO,
        3 => LevelFilter::DEBUG,
        _ => LevelFilter::TRACE,
    }
}

struct PassThrough<const N: usize>;
struct Marker<const N: usize>(#[allow(dead_code)] u32);

impl<const N: usize, S: tracing_core::Subscriber + for<'a> tracing_subscriber::registry::LookupSpan<'a>> Layer<S> for PassThrough<N> {
    fn on_new_span(&self, _attrs: &tracing_core::span::Attributes<'_>, id: &tracing_core::span::Id, ctx: tracing_subscriber::layer::Context<'_, S>) {
        if let Some(span) = ctx.span(id) {
            span.extensions_mut().insert(Marker::<N>(7));
        }
    }
}

pub struct Config {
    pub layers: Vec<Filt>,
    pub global: Option<u8>,
    pub pass: Vec<usize>, // positions (before layer i) of pass-through layers
    /// Filters applied through `tracing_subscriber`'s per-layer filtering (`Layer::with_filter`)
    /// instead of `CaptureLayer::with_filter`; an unfiltered pass-through layer is then always
    /// present, so that the registry still creates every (globally enabled) span. Used for C16 only
    /// (no panic; what a layer captures in a stack equals what it captures alone).
    pub per_layer: bool,
    /// Build the stack as nested `Layered` values (`Registry::default().with(a).with(b)…`), the way
    /// applications do, instead of a `Vec` of boxed layers (level hints are combined differently).
    pub nested: bool,
    /// (operation index, span selector): read the storages after that operation
    pub probes: Vec<(usize, usize)>,
}

impl Config {
    pub fn parse(rest: &[String]) -> Self {
        let mut cfg = Config { layers: vec![Filt::All], global: None, pass: vec![], per_layer: false, nested: false, probes: vec![] };
        for l in rest {
            let mut t = Toks::new(l);
            match t.next() {
                Some("layers") => {
                    let n: usize = t.num().unwrap_or(1);
                    cfg.layers = vec![Filt::All; n];
                }
                Some("lfilter") => {
                    let i: usize = t.num().unwrap_or(0);
                    if let Some(f) = t.next().and_then(Filt::parse) {
                        if i < cfg.layers.len() {
                            cfg.layers[i] = f;
                        }
                    }
                }
                Some("gfilter") => cfg.global = t.num(),
                Some("perlayer") => cfg.per_layer = t.num::<u8>() == Some(1),
                Some("nested") => cfg.nested = t.num::<u8>() == Some(1),
                Some("probe") => {
                    if let (Some(at), Some(n)) = (t.num::<usize>(), t.num::<usize>()) {
                        cfg.probes.push((at, n));
                    }
                }
                Some("pass") => {
                    if let Some(p) = t.num() {
                        cfg.pass.push(p);
                    }
                }
                _ => {}
            }
        }
        cfg
    }

    /// A capture layer with this configuration's way of filtering, as a helper returning the pair —
    /// every call creates its storage handle in the same stack slot, as a loop or a helper
    /// function in an application would.
    fn make_layer<S>(&self, f: &Filt) -> (Box<dyn Layer<S> + Send + Sync>, SharedStorage)
    where
        S: tracing_core::Subscriber + for<'a> tracing_subscriber::registry::LookupSpan<'a> + 'static,
    {
        let storage = SharedStorage::default();
        let layer = CaptureLayer::<S>::new(&storage);
        let boxed: Box<dyn Layer<S> + Send + Sync> = match f.clone() {
            Filt::All => Box::new(layer),
            Filt::Level(l) if self.per_layer => Box::new(Layer::with_filter(layer, level_filter(l))),
            Filt::Level(l) => Box::new(layer.with_filter(level_filter(l))),
            Filt::InSpan if self.per_layer => Box::new(Layer::with_filter(layer, tracing_subscriber::filter::dynamic_filter_fn(|_meta, cx| cx.lookup_current().is_some()))),
            Filt::InSpan => Box::new(layer.with_filter(tracing_subscriber::filter::dynamic_filter_fn(|_meta, cx| cx.lookup_current().is_some()))),
            f if self.per_layer => Box::new(Layer::with_filter(layer, filter_fn(move |meta| f.enabled(meta)))),
            f => Box::new(layer.with_filter(filter_fn(move |meta| f.enabled(meta)))),
        };
        (boxed, storage)
    }

    /// `Registry::default().with(global?).with(l0).with(l1).with(l2)` (1-3 capture layers).
    fn build_nested(&self) -> (Dispatch, Vec<SharedStorage>) {
        let global = self.global.map(level_filter);
        let base = Registry::default().with(global);
        let (l0, s0) = self.make_layer(&self.layers[0]);
        let sub = base.with(l0);
        if self.layers.len() == 1 {
            return (Dispatch::new(sub), vec![s0]);
        }
        let (l1, s1) = self.make_layer(&self.layers[1]);
        let sub = sub.with(l1);
        if self.layers.len() == 2 {
            return (Dispatch::new(sub), vec![s0, s1]);
        }
        let (l2, s2) = self.make_layer(&self.layers[2]);
        (Dispatch::new(sub.with(l2)), vec![s0, s1, s2])
    }

    pub fn build(&self) -> (Dispatch, Vec<SharedStorage>) {
        if self.nested && self.pass.is_empty() && !self.per_layer && (1..=3).contains(&self.layers.len()) {
            return self.build_nested();
        }
        // the global level filter is its own `Layered` level right above the registry (inside a
        // `Vec` of layers a `LevelFilter` would not be consulted by call sites whose interest another
        // element of the `Vec` declared `always`: tracing-subscriber combines interests by maximum there)
        type Base = tracing_subscriber::layer::Layered<Option<LevelFilter>, Registry>;
        let base: Base = Registry::default().with(self.global.map(level_filter));
        let made: Vec<(Box<dyn Layer<Base> + Send + Sync>, SharedStorage)> = self.layers.iter().map(|f| self.make_layer::<Base>(f)).collect();
        let (mut made_layers, storages): (Vec<_>, Vec<SharedStorage>) = made.into_iter().map(|(l, s)| (Some(l), s)).unzip();
        let mut layers: Vec<Box<dyn Layer<Base> + Send + Sync>> = vec![];
        for i in 0..self.layers.len() {
            if self.pass.contains(&i) {
                layers.push(match i {
                    0 => Box::new(PassThrough::<0>),
                    1 => Box::new(PassThrough::<1>),
                    2 => Box::new(PassThrough::<2>),
                    _ => Box::new(PassThrough::<3>),
                });
            }
            layers.push(made_layers[i].take().expect("layer made"));
        }
        if self.pass.contains(&self.layers.len()) || self.per_layer {
            layers.push(Box::new(PassThrough::<9>));
        }
        (Dispatch::new(base.with(layers)), storages)
    }
}

fn k_of(sites: &[Site], meta: &Metadata<'_>) -> String {
    let s = Site::from_metadata(meta);
    sites.iter().position(|x| *x == s).map_or("k?".into(), |k| format!("k{k}"))
}

fn idxs(xs: &[usize]) -> String {
    format!("[{}]", xs.iter().map(ToString::to_string).collect::<Vec<_>>().join(","))
}

/// Dumps the storage through the public API and cross-checks the forest laws (C17).
pub fn dump(storage: &Storage, sites: &[Site], prefix: &str, out: &mut Vec<String>, fails: &mut Vec<String>) {
    let spans: Vec<CapturedSpan<'_>> = storage.all_spans().collect();
    let events: Vec<CapturedEvent<'_>> = storage.all_events().collect();
    let spos = |s: &CapturedSpan<'_>| spans.iter().position(|x| x == s).expect("span belongs to storage");
    let epos = |e: &CapturedEvent<'_>| events.iter().position(|x| x == e).expect("event belongs to storage");
    for (i, s) in spans.iter().enumerate() {
        let vals: Vec<_> = s.values().map(|(k, v)| (k.to_owned(), crate::proto::Val::from_real(v))).collect();
        let st = s.stats();
        let children: Vec<usize> = s.children().map(|c| spos(&c)).collect();
        let evs: Vec<usize> = s.events().map(|e| epos(&e)).collect();
        let ff: Vec<usize> = s.follows_from().map(|c| spos(&c)).collect();
        out.push(format!(
            "{prefix}sp {i} {} {} e={} x={} c={} par={} ch={} ev={} ff={}",
            k_of(sites, s.metadata()),
            entries_tok(&vals),
            st.entered,
            st.exited,
            u8::from(st.is_closed),
            s.parent().map_or("-".into(), |p| spos(&p).to_string()),
            idxs(&children),
            idxs(&evs),
            idxs(&ff)
        ));
        // ---- the by-name views of the same values (C05: "its values")
        for (k, v) in s.values() {
            let by_name = s.value(k).map(crate::proto::Val::from_real);
            let indexed = catch_unwind(AssertUnwindSafe(|| crate::proto::Val::from_real(&s[k]))).ok();
            let want = Some(crate::proto::Val::from_real(v));
            if by_name != want || indexed != want {
                fails.push(format!("C05 span {i}: value({k:?}) = {by_name:?}, [{k:?}] = {indexed:?}, but its values list {want:?} under that name"));
            }
        }
        if s.value("no such field").is_some() {
            fails.push(format!("C05 span {i}: value() of a name that was never recorded is not None"));
        }
        // ---- C17 laws on the real storage
        for c in s.children() {
            if c.parent().map(|p| spos(&p)) != Some(i) {
                fails.push(format!("C17 span {} is listed as child of {i} but its parent is {:?}", spos(&c), c.parent().map(|p| spos(&p))));
            }
        }
        if let Some(p) = s.parent() {
            if !p.children().any(|c| c == *s) {
                fails.push(format!("C17 span {i} has parent {} but is not among its children", spos(&p)));
            }
            if !(p < *s) {
                fails.push(format!("C17 parent {} is not ordered before child {i}", spos(&p)));
            }
        }
        let anc: Vec<usize> = s.ancestors().take(spans.len() + 1).map(|a| spos(&a)).collect();
        if anc.len() > spans.len() {
            fails.push(format!("C17 ancestor chain of span {i} does not terminate"));
        } else if let Some(last) = anc.last() {
            if spans[*last].parent().is_some() {
                fails.push(format!("C17 ancestor chain of span {i} does not end at a root"));
            }
        }
        let desc: Vec<usize> = s.descendants().map(|d| spos(&d)).collect();
        let expect: Vec<usize> = {
            // pre-order over children lists
            let mut acc = vec![];
            fn walk(spans: &[CapturedSpan<'_>], i: usize, acc: &mut Vec<usize>) {
                for c in spans[i].children() {
                    let ci = spans.iter().position(|x| *x == c).unwrap();
                    acc.push(ci);
                    walk(spans, ci, acc);
                }
            }
            walk(&spans, i, &mut acc);
            acc
        };
        if desc != expect {
            fails.push(format!("C17 descendants of span {i} are {desc:?}, pre-order traversal gives {expect:?}"));
        }
        let by_anc: Vec<usize> = (0..spans.len()).filter(|j| spans[*j].ancestors().any(|a| a == *s)).collect();
        let mut sorted = desc.clone();
        sorted.sort_unstable();
        sorted.dedup();
        if sorted.len() != desc.len() || sorted != by_anc {
            fails.push(format!("C17 descendants of span {i} ({desc:?}) are not exactly the spans having it among their ancestors ({by_anc:?}), each once"));
        }
        let dev: Vec<usize> = s.descendant_events().map(|e| epos(&e)).collect();
        let expect_dev: Vec<usize> = desc.iter().flat_map(|d| spans[*d].events().map(|e| epos(&e)).collect::<Vec<_>>()).collect();
        if dev != expect_dev {
            fails.push(format!("C17 descendant events of span {i} are {dev:?}, expected the events of its descendants {expect_dev:?}"));
        }
        iter_laws(&format!("children of span {i}"), || s.children(), |c| spos(c), fails);
        iter_laws(&format!("events of span {i}"), || s.events(), |e| epos(e), fails);
        iter_laws(&format!("follows_from of span {i}"), || s.follows_from(), |c| spos(c), fails);
        walk_laws(&format!("descendants of span {i}"), || s.descendants(), |c| spos(c), fails);
        walk_laws(&format!("descendant events of span {i}"), || s.descendant_events(), |e| epos(e), fails);
        // iterators: exact length, reversible
        let fwd: Vec<usize> = s.children().map(|c| spos(&c)).collect();
        let mut bwd: Vec<usize> = s.children().rev().map(|c| spos(&c)).collect();
        bwd.reverse();
        if s.children().len() != fwd.len() || fwd != bwd {
            fails.push(format!("C17 children iterator of span {i}: len {} vs {} items, backwards {:?} vs forwards {:?}", s.children().len(), fwd.len(), bwd, fwd));
        }
        let efwd: Vec<usize> = s.events().map(|c| epos(&c)).collect();
        let mut ebwd: Vec<usize> = s.events().rev().map(|c| epos(&c)).collect();
        ebwd.reverse();
        if s.events().len() != efwd.len() || efwd != ebwd {
            fails.push(format!("C17 events iterator of span {i} is not exact / reversible"));
        }
    }
    for (j, e) in events.iter().enumerate() {
        let vals: Vec<_> = e.values().map(|(k, v)| (k.to_owned(), crate::proto::Val::from_real(v))).collect();
        out.push(format!(
            "{prefix}evn {j} {} {} par={}",
            k_of(sites, e.metadata()),
            entries_tok(&vals),
            e.parent().map_or("-".into(), |p| spos(&p).to_string())
        ));
        for (k, v) in e.values() {
            let by_name = e.value(k).map(crate::proto::Val::from_real);
            let indexed = catch_unwind(AssertUnwindSafe(|| crate::proto::Val::from_real(&e[k]))).ok();
            let want = Some(crate::proto::Val::from_real(v));
            if by_name != want || indexed != want {
                fails.push(format!("C05 event {j}: value({k:?}) = {by_name:?}, [{k:?}] = {indexed:?}, but its values list {want:?} under that name"));
            }
        }
        if e.value("no such field").is_some() {
            fails.push(format!("C05 event {j}: value() of a name that was never recorded is not None"));
        }
        match e.parent() {
            Some(p) => {
                if !p.events().any(|x| x == *e) {
                    fails.push(format!("C17 event {j} has parent {} but is not among its events", spos(&p)));
                }
            }
            None => {
                if !storage.root_events().any(|x| x == *e) {
                    fails.push(format!("C17 event {j} has no parent but is not a root event"));
                }
            }
        }
    }
    let roots: Vec<usize> = storage.root_spans().map(|s| spos(&s)).collect();
    let root_events: Vec<usize> = storage.root_events().map(|e| epos(&e)).collect();
    out.push(format!("{prefix}roots sp={} ev={}", idxs(&roots), idxs(&root_events)));
    let expect_roots: Vec<usize> = (0..spans.len()).filter(|i| spans[*i].parent().is_none()).collect();
    if roots != expect_roots {
        fails.push(format!("C17 root spans {roots:?} are not exactly the spans without a captured parent {expect_roots:?}"));
    }
    let expect_root_events: Vec<usize> = (0..events.len()).filter(|i| events[*i].parent().is_none()).collect();
    if root_events != expect_root_events {
        fails.push(format!("C17 root events {root_events:?} are not exactly the events without a captured parent {expect_root_events:?}"));
    }
    iter_laws("all_spans", || storage.all_spans(), |c| spos(c), fails);
    iter_laws("root_spans", || storage.root_spans(), |c| spos(c), fails);
    iter_laws("all_events", || storage.all_events(), |e| epos(e), fails);
    iter_laws("root_events", || storage.root_events(), |e| epos(e), fails);
    // all_* iterators
    let n = storage.all_spans().len();
    let mut back: Vec<usize> = storage.all_spans().rev().map(|s| spos(&s)).collect();
    back.reverse();
    if n != spans.len() || back != (0..spans.len()).collect::<Vec<_>>() {
        fails.push("C17 all_spans iterator is not exact / reversible".into());
    }
    let mut eback: Vec<usize> = storage.all_events().rev().map(|e| epos(&e)).collect();
    eback.reverse();
    if storage.all_events().len() != events.len() || eback != (0..events.len()).collect::<Vec<_>>() {
        fails.push("C17 all_events iterator is not exact / reversible".into());
    }
    // identity and order
    for i in 0..spans.len() {
        for j in 0..spans.len() {
            let eq = spans[i] == spans[j];
            let ord = spans[i].partial_cmp(&spans[j]);
            if eq != (i == j) || ord != Some(i.cmp(&j)) {
                fails.push(format!("C17 spans {i} and {j}: == is {eq}, partial_cmp is {ord:?}"));
            }
        }
    }
}

/// C17 "all iterators report exact lengths and yield the same items backwards as forwards", for
/// every way the standard iterator API can consume them (overridable methods included).
fn iter_laws<I, T>(label: &str, mk: impl Fn() -> I, pos: impl Fn(&T) -> usize, fails: &mut Vec<String>)
where
    I: DoubleEndedIterator<Item = T> + ExactSizeIterator,
{
    let fwd: Vec<usize> = mk().map(|x| pos(&x)).collect();
    let n = fwd.len();
    let mut bad = |what: String| {
        if fails.len() < 50 {
            fails.push(format!("C17 iterator {label} ({fwd:?}): {what}"));
        }
    };
    if mk().len() != n || mk().size_hint() != (n, Some(n)) || mk().count() != n {
        bad(format!("len {} / size_hint {:?} / count {} for {n} items", mk().len(), mk().size_hint(), mk().count()));
    }
    let mut bwd: Vec<usize> = mk().rev().map(|x| pos(&x)).collect();
    bwd.reverse();
    if bwd != fwd {
        bad(format!("backwards it yields {bwd:?} (reversed)"));
    }
    if mk().last().map(|x| pos(&x)) != fwd.last().copied() {
        bad("last() is not the last item".into());
    }
    for k in 0..=n {
        let mut it = mk();
        let got = it.nth(k).map(|x| pos(&x));
        let rest: Vec<usize> = it.map(|x| pos(&x)).collect();
        if got != fwd.get(k).copied() || rest != fwd.get(k + 1..).unwrap_or(&[]) {
            bad(format!("nth({k}) = {got:?}, then {rest:?}"));
        }
        let mut it = mk();
        let got = it.nth_back(k).map(|x| pos(&x));
        let left = it.len();
        let rest: Vec<usize> = it.map(|x| pos(&x)).collect();
        let want = if k < n { Some(fwd[n - 1 - k]) } else { None };
        let want_rest: &[usize] = if k < n { &fwd[..n - 1 - k] } else { &[] };
        if got != want || rest != want_rest || left != want_rest.len() {
            bad(format!("nth_back({k}) = {got:?}, then {rest:?} (len {left})"));
        }
        let skipped: Vec<usize> = mk().rev().skip(k).map(|x| pos(&x)).collect();
        let mut want_sk: Vec<usize> = fwd[..n.saturating_sub(k)].to_vec();
        want_sk.reverse();
        if skipped != want_sk {
            bad(format!("rev().skip({k}) = {skipped:?}"));
        }
    }
    // from both ends towards the middle: every item once
    let (mut it, mut front, mut back, mut turn) = (mk(), vec![], vec![], false);
    loop {
        let x = if turn { it.next_back() } else { it.next() };
        match x {
            Some(x) if turn => back.push(pos(&x)),
            Some(x) => front.push(pos(&x)),
            None => break,
        }
        if it.len() != n - front.len() - back.len() {
            bad("len does not shrink by one per item".into());
            break;
        }
        turn = !turn;
    }
    back.reverse();
    front.extend(back);
    if front != fwd {
        bad(format!("alternating next / next_back yields {front:?}"));
    }
    let stepped: Vec<usize> = mk().step_by(2).map(|x| pos(&x)).collect();
    if stepped != fwd.iter().copied().step_by(2).collect::<Vec<_>>() {
        bad(format!("step_by(2) = {stepped:?}"));
    }
}

/// The forward-only descendant walks: `size_hint` brackets the real length, `nth` / `count` / `last` agree.
fn walk_laws<I, T>(label: &str, mk: impl Fn() -> I, pos: impl Fn(&T) -> usize, fails: &mut Vec<String>)
where
    I: Iterator<Item = T>,
{
    let fwd: Vec<usize> = mk().map(|x| pos(&x)).collect();
    let n = fwd.len();
    let (lo, hi) = mk().size_hint();
    if lo > n || hi.map_or(false, |h| h < n) || mk().count() != n || mk().last().map(|x| pos(&x)) != fwd.last().copied() {
        fails.push(format!("C17 iterator {label} ({fwd:?}): size_hint ({lo}, {hi:?}) / count / last disagree with its {n} items"));
    }
    for k in 0..=n {
        let mut it = mk();
        let got = it.nth(k).map(|x| pos(&x));
        let rest: Vec<usize> = it.map(|x| pos(&x)).collect();
        if got != fwd.get(k).copied() || rest != fwd.get(k + 1..).unwrap_or(&[]) {
            fails.push(format!("C17 iterator {label} ({fwd:?}): nth({k}) = {got:?}, then {rest:?}"));
            break;
        }
    }
    // the hint stays truthful while the walk proceeds
    let mut it = mk();
    for taken in 0..=n {
        let (lo, hi) = it.size_hint();
        let left = n - taken;
        if lo > left || hi.map_or(false, |h| h < left) {
            fails.push(format!("C17 iterator {label} ({fwd:?}): after {taken} items size_hint is ({lo}, {hi:?}) but {left} items remain"));
            break;
        }
        if it.next().is_none() {
            break;
        }
    }
}

/// C17, last clause: items of different storages are unequal and unordered, whatever their
/// positions; events of one storage are equal only to themselves and ordered by capture order.
pub fn cross_storage_laws(a: &Storage, b: &Storage, fails: &mut Vec<String>) {
    let (sa, sb): (Vec<CapturedSpan<'_>>, Vec<CapturedSpan<'_>>) = (a.all_spans().collect(), b.all_spans().collect());
    for (i, x) in sa.iter().enumerate() {
        for (j, y) in sb.iter().enumerate() {
            let (eq, ord) = (x == y, x.partial_cmp(y));
            if eq || ord.is_some() || y.partial_cmp(x).is_some() || x < y || x > y || x <= y || x >= y {
                fails.push(format!("C17 span {i} of one storage and span {j} of another: == is {eq}, partial_cmp is {ord:?} (must be unequal and unordered)"));
                return;
            }
        }
    }
    let (ea, eb): (Vec<CapturedEvent<'_>>, Vec<CapturedEvent<'_>>) = (a.all_events().collect(), b.all_events().collect());
    for (i, x) in ea.iter().enumerate() {
        for (j, y) in eb.iter().enumerate() {
            let (eq, ord) = (x == y, x.partial_cmp(y));
            if eq || ord.is_some() || y.partial_cmp(x).is_some() || x < y || x > y {
                fails.push(format!("C17 event {i} of one storage and event {j} of another: == is {eq}, partial_cmp is {ord:?} (must be unequal and unordered)"));
                return;
            }
        }
    }
    for (i, x) in ea.iter().enumerate() {
        for (j, y) in ea.iter().enumerate() {
            let (eq, ord) = (x == y, x.partial_cmp(y));
            if eq != (i == j) || ord != Some(i.cmp(&j)) {
                fails.push(format!("C17 events {i} and {j}: == is {eq}, partial_cmp is {ord:?}"));
                return;
            }
        }
    }
}

/// `X` lines: equality and order of handles, within and across storages, as the real impls of
/// `PartialEq` / `PartialOrd` answer (the driver answers the same questions from the model).
pub fn identity_doc(a: &Storage, la: &str, b: &Storage, lb: &str, out: &mut Vec<String>) {
    fn cmp_tok(o: Option<std::cmp::Ordering>) -> &'static str {
        match o {
            None => "none",
            Some(std::cmp::Ordering::Less) => "lt",
            Some(std::cmp::Ordering::Equal) => "eq",
            Some(std::cmp::Ordering::Greater) => "gt",
        }
    }
    let (sa, sb): (Vec<CapturedSpan<'_>>, Vec<CapturedSpan<'_>>) = (a.all_spans().take(5).collect(), b.all_spans().take(5).collect());
    for (i, x) in sa.iter().enumerate() {
        for (j, y) in sb.iter().enumerate() {
            out.push(format!("X sp {la} {i} {lb} {j} eq={} cmp={}", u8::from(x == y), cmp_tok(x.partial_cmp(y))));
        }
    }
    let (ea, eb): (Vec<CapturedEvent<'_>>, Vec<CapturedEvent<'_>>) = (a.all_events().take(5).collect(), b.all_events().take(5).collect());
    for (i, x) in ea.iter().enumerate() {
        for (j, y) in eb.iter().enumerate() {
            out.push(format!("X ev {la} {i} {lb} {j} eq={} cmp={}", u8::from(x == y), cmp_tok(x.partial_cmp(y))));
        }
    }
}

/// Raw links (`F` lines) and derived query results (`Q` lines) of a real storage.
pub fn forest_doc(storage: &Storage) -> Vec<String> {
    let spans: Vec<CapturedSpan<'_>> = storage.all_spans().collect();
    let events: Vec<CapturedEvent<'_>> = storage.all_events().collect();
    let spos = |s: &CapturedSpan<'_>| spans.iter().position(|x| x == s).unwrap();
    let epos = |e: &CapturedEvent<'_>| events.iter().position(|x| x == e).unwrap();
    let mut out = vec![];
    for (i, s) in spans.iter().enumerate() {
        out.push(format!(
            "F sp {i} par={} ch={} ev={} ff={}",
            s.parent().map_or("-".into(), |p| spos(&p).to_string()),
            idxs(&s.children().map(|c| spos(&c)).collect::<Vec<_>>()),
            idxs(&s.events().map(|e| epos(&e)).collect::<Vec<_>>()),
            idxs(&s.follows_from().map(|c| spos(&c)).collect::<Vec<_>>())
        ));
    }
    for (j, e) in events.iter().enumerate() {
        out.push(format!("F evn {j} par={}", e.parent().map_or("-".into(), |p| spos(&p).to_string())));
    }
    out.push(format!(
        "F roots sp={} ev={}",
        idxs(&storage.root_spans().map(|s| spos(&s)).collect::<Vec<_>>()),
        idxs(&storage.root_events().map(|e| epos(&e)).collect::<Vec<_>>())
    ));
    for (i, s) in spans.iter().enumerate() {
        out.push(format!("Q desc {i} {}", idxs(&s.descendants().map(|d| spos(&d)).collect::<Vec<_>>())));
        out.push(format!("Q anc {i} {}", idxs(&s.ancestors().map(|d| spos(&d)).collect::<Vec<_>>())));
        out.push(format!("Q dev {i} {}", idxs(&s.descendant_events().map(|e| epos(&e)).collect::<Vec<_>>())));
    }
    for (j, e) in events.iter().enumerate() {
        out.push(format!("Q eanc {j} {}", idxs(&e.ancestors().map(|d| spos(&d)).collect::<Vec<_>>())));
    }
    out
}

pub fn run_capture(prog: &Program, cfg: &Config) -> (Vec<SharedStorage>, bool) {
    let (s, p, _) = run_capture_log(prog, cfg);
    (s, p)
}

pub fn run_capture_log(prog: &Program, cfg: &Config) -> (Vec<SharedStorage>, bool, Vec<program::FeCall>) {
    let (dispatch, storages) = cfg.build();
    // `probe <op> <n>` lines: after operation <op> the storages are read while capturing goes on (a
    // test that inspects the storage half-way): the descendants of one span are walked and counted.
    // Reading must not change what later reads see.
    let probe = |i: usize| {
        for (at, n) in &cfg.probes {
            if *at == i {
                for st in &storages {
                    let lock = st.lock();
                    let len = lock.all_spans().len();
                    if len > 0 {
                        if let Some(s) = lock.all_spans().nth(n % len) {
                            let _ = (s.descendants().count(), s.descendant_events().count(), s.descendants().size_hint());
                        }
                    }
                }
            }
        }
    };
    let res = catch_unwind(AssertUnwindSafe(|| dispatcher::with_default(&dispatch, || program::run_probed(&dispatch, prog, probe))));
    match res {
        Ok(log) => (storages, false, log),
        Err(_) => (storages, true, vec![]),
    }
}

/// Independent reference interpreter of tracing's parent/scope rules (written from the statement
/// of C05, not from the layer): what a capture layer with filter `flt` must hold after the given
/// sequence of subscriber calls. Returns the dump in the format of `dump`.
pub fn expected_dump(sites: &[Site], flt: &Filt, log: &[program::FeCall], prefix: &str) -> Vec<String> {
    let tagged: Vec<(usize, program::FeCall)> = log.iter().cloned().map(|c| (0, c)).collect();
    expected_dump_tagged(sites, flt, &tagged, prefix)
}

/// The same for an interleaved log of several threads (each call tagged with its thread):
/// contextual parents resolve against the calling thread's own stack; a span counts as entered
/// if it is on any thread's stack.
pub fn expected_dump_tagged(sites: &[Site], flt: &Filt, log: &[(usize, program::FeCall)], prefix: &str) -> Vec<String> {
    use program::FeCall;
    use std::collections::HashMap;
    struct Sp { k: usize, vals: Vec<(String, crate::proto::Val)>, e: usize, x: usize, par: Option<usize>, ch: Vec<usize>, ev: Vec<usize>, ff: Vec<usize>, id: u64 }
    struct Evn { k: usize, vals: Vec<(String, crate::proto::Val)>, par: Option<usize> }
    let enabled = |k: usize, stack: &Vec<(u64, bool)>| flt.enabled_in(dynsite::metadata_for(&sites[k]), stack.iter().any(|e| !e.1));
    let values = |k: usize, vals: &program::PVals| -> Vec<(String, crate::proto::Val)> {
        let mut out = vec![];
        for (i, tok) in vals {
            if let (Some(name), Some(v)) = (sites[k].fields.get(*i), super::values::expected_capture(tok)) {
                crate::spec::ordered_insert(&mut out, name, v);
            }
        }
        out
    };
    let mut stacks: HashMap<usize, Vec<(u64, bool)>> = HashMap::new();
    let mut parent: HashMap<u64, Option<u64>> = HashMap::new();
    let mut handles: HashMap<u64, i64> = HashMap::new();
    let mut cap: HashMap<u64, usize> = HashMap::new();
    let mut spans: Vec<Sp> = vec![];
    let mut events: Vec<Evn> = vec![];
    fn closed(id: u64, handles: &HashMap<u64, i64>, stack: &[(u64, bool)], parent: &HashMap<u64, Option<u64>>) -> bool {
        handles.get(&id).copied().unwrap_or(0) <= 0
            && !stack.iter().any(|e| e.0 == id)
            && parent.iter().filter(|(_, p)| **p == Some(id)).all(|(c, _)| closed(*c, handles, stack, parent))
    }
    let current = |stack: &Vec<(u64, bool)>| stack.iter().rev().find(|e| !e.1).map(|e| e.0);
    let nearest = |mut cur: Option<u64>, cap: &HashMap<u64, usize>, parent: &HashMap<u64, Option<u64>>| -> Option<usize> {
        while let Some(id) = cur {
            if let Some(c) = cap.get(&id) {
                return Some(*c);
            }
            cur = parent.get(&id).copied().flatten();
        }
        None
    };
    let resolve = |tok: &str, stack: &Vec<(u64, bool)>| -> Option<u64> {
        match tok {
            "ctx" => current(stack),
            "root" => None,
            p => p.strip_prefix("p:").and_then(|x| x.parse().ok()),
        }
    };
    for (tid, call) in log {
        let mut stack = stacks.remove(tid).unwrap_or_default();
        let all_stacks: Vec<(u64, bool)> = stacks.values().flatten().copied().chain(stack.iter().copied()).collect();
        match call {
            FeCall::Register(_) => {}
            FeCall::NewSpan { k, id, parent: ptok, vals } => {
                let par = resolve(ptok, &stack);
                parent.insert(*id, par);
                handles.insert(*id, 1);
                if enabled(*k, &stack) {
                    let pc = nearest(par, &cap, &parent);
                    let idx = spans.len();
                    spans.push(Sp { k: *k, vals: values(*k, vals), e: 0, x: 0, par: pc, ch: vec![], ev: vec![], ff: vec![], id: *id });
                    if let Some(p) = pc {
                        spans[p].ch.push(idx);
                    }
                    cap.insert(*id, idx);
                }
            }
            FeCall::Record { id, k, vals } => {
                if let Some(c) = cap.get(id) {
                    for (n, v) in values(*k, vals) {
                        crate::spec::ordered_insert(&mut spans[*c].vals, &n, v);
                    }
                }
            }
            FeCall::Follows(a, b) => {
                if let (Some(ca), Some(cb)) = (cap.get(a), cap.get(b)) {
                    if !closed(*b, &handles, &all_stacks, &parent) {
                        let cb = *cb;
                        spans[*ca].ff.push(cb);
                    }
                }
            }
            FeCall::Enter(id) => {
                let dup = stack.iter().any(|e| e.0 == *id);
                stack.push((*id, dup));
                if let Some(c) = cap.get(id) {
                    spans[*c].e += 1;
                }
            }
            FeCall::Exit(id) => {
                if let Some(p) = stack.iter().rposition(|e| e.0 == *id) {
                    stack.remove(p);
                }
                if let Some(c) = cap.get(id) {
                    spans[*c].x += 1;
                }
            }
            FeCall::Clone(id) => *handles.entry(*id).or_default() += 1,
            FeCall::TryClose(id) => *handles.entry(*id).or_default() -= 1,
            FeCall::Event { k, parent: ptok, vals } => {
                if enabled(*k, &stack) {
                    // an explicit parent that is closed by now is no parent at all
                    let explicit_gone = ptok.starts_with("p:") && resolve(ptok, &stack).map_or(false, |id| closed(id, &handles, &all_stacks, &parent));
                    let pc = if explicit_gone { None } else { nearest(resolve(ptok, &stack), &cap, &parent) };
                    let idx = events.len();
                    events.push(Evn { k: *k, vals: values(*k, vals), par: pc });
                    if let Some(p) = pc {
                        spans[p].ev.push(idx);
                    }
                }
            }
        }
        stacks.insert(*tid, stack);
    }
    let stack: Vec<(u64, bool)> = stacks.values().flatten().copied().collect();
    let kname = |k: usize| sites.iter().position(|x| *x == sites[k]).map_or("k?".into(), |i| format!("k{i}"));
    let mut out = vec![];
    for (i, s) in spans.iter().enumerate() {
        out.push(format!(
            "{prefix}sp {i} {} {} e={} x={} c={} par={} ch={} ev={} ff={}",
            kname(s.k), entries_tok(&s.vals), s.e, s.x, u8::from(closed(s.id, &handles, &stack, &parent)),
            s.par.map_or("-".into(), |p| p.to_string()), idxs(&s.ch), idxs(&s.ev), idxs(&s.ff)
        ));
    }
    for (j, e) in events.iter().enumerate() {
        out.push(format!("{prefix}evn {j} {} {} par={}", kname(e.k), entries_tok(&e.vals), e.par.map_or("-".into(), |p| p.to_string())));
    }
    let roots: Vec<usize> = (0..spans.len()).filter(|i| spans[*i].par.is_none()).collect();
    let root_events: Vec<usize> = (0..events.len()).filter(|i| events[*i].par.is_none()).collect();
    out.push(format!("{prefix}roots sp={} ev={}", idxs(&roots), idxs(&root_events)));
    out
}

impl Suite for Capture {
    fn gen(&self, rng: &mut Rng, tier: Tier, idx: usize, focus: &str) -> Vec<String> {
        let gcfg = GenCfg {
            max_ops: if tier == Tier::Quick { 40 } else { 160 },
            max_fields: if idx % 7 == 0 { 32 } else { 4 },
            roots: true,
            clones: true,
            rich_values: idx % 4 == 0,
            leak_enters: false,
        };
        let mut prog = program::gen_program(rng, &gcfg);
        if idx % 60 == 43 {
            // a "caterpillar": 9..16 levels, each with a span that is descended into and a sibling
            // created after it (so that every level still has an unvisited sibling while a walk is at
            // the bottom), events on the siblings
            let depth = rng.range(9, 16);
            let mut ops = vec![];
            let mut nh = 0usize;
            let mut entered = vec![];
            for _ in 0..depth {
                ops.push(POp::New { k: 0, parent: program::PParent::Ctx, vals: vec![] });
                let a = nh;
                nh += 1;
                for _ in 0..rng.range(1, 2) {
                    ops.push(POp::New { k: 0, parent: program::PParent::Ctx, vals: vec![] });
                    let b = nh;
                    nh += 1;
                    if rng.chance(1, 2) {
                        ops.push(POp::Evt { k: 1, parent: program::PParent::Handle(b), vals: vec![] });
                    }
                }
                ops.push(POp::Ent(a));
                entered.push(a);
            }
            ops.push(POp::Evt { k: 1, parent: program::PParent::Ctx, vals: vec![] });
            for a in entered.into_iter().rev() {
                ops.push(POp::Ext(a));
            }
            let mut span_site = crate::gen::site(rng, Some(true), 1);
            let mut event_site = crate::gen::site(rng, Some(false), 1);
            (span_site.level, event_site.level) = (2, 2);
            prog = program::Program { sites: vec![span_site, event_site], ops, malformed: false };
            let mut lines = vec!["layers 1".to_owned(), format!("lfilter 0 {}", Filt::All.tok())];
            lines.extend(prog.lines());
            return lines;
        }
        if idx % 60 == 13 {
            // deep nesting: a chain of well over a hundred spans, each entered inside the previous
            // one (a recursive `#[instrument]` function), with an event at the bottom
            let depth = rng.range(129, 170);
            let mut ops = vec![];
            for h in 0..depth {
                ops.push(POp::New { k: 0, parent: program::PParent::Ctx, vals: vec![] });
                ops.push(POp::Ent(h));
            }
            ops.push(POp::Evt { k: 1, parent: program::PParent::Ctx, vals: vec![] });
            for h in (0..depth).rev() {
                ops.push(POp::Ext(h));
                if rng.chance(2, 3) {
                    ops.push(POp::Drp(h));
                }
            }
            let mut span_site = crate::gen::site(rng, Some(true), 1);
            let mut event_site = crate::gen::site(rng, Some(false), 1);
            (span_site.level, event_site.level) = (2, 2);
            prog = program::Program { sites: vec![span_site, event_site], ops, malformed: false };
            let mut lines = vec!["layers 1".to_owned(), format!("lfilter 0 {}", Filt::All.tok())];
            lines.extend(prog.lines());
            return lines;
        }
        // nothing is tunnelled here, so non-finite floats and signed zeros are fair game
        for op in &mut prog.ops {
            if let POp::New { vals, .. } | POp::Rec { vals, .. } | POp::Evt { vals, .. } = op {
                for (_, tok) in vals.iter_mut() {
                    let is_float = tok.starts_with("f64:") || tok.starts_with("f32:");
                    if (is_float && rng.chance(1, 3)) || (tok != "empty" && rng.chance(1, 25)) {
                        *tok = match rng.below(6) {
                            0 => "f64:7ff8000000000000".into(),
                            1 => "f64:7ff0000000000000".into(),
                            2 => "f64:fff0000000000000".into(),
                            3 => "f64:8000000000000000".into(),
                            4 => "f32:7f800000".into(),
                            _ => "f32:ffc00000".into(),
                        };
                    }
                }
            }
        }
        let mut lines = vec![];
        let n_layers = if focus == "C16" { rng.range(1, 3) } else if rng.chance(1, 4) { 2 } else { 1 };
        lines.push(format!("layers {n_layers}"));
        for i in 0..n_layers {
            let f = match rng.below(6) {
                0 | 1 => Filt::All,
                2 | 3 => Filt::Level(rng.below(5) as u8),
                4 if rng.chance(1, 2) => Filt::InSpan,
                4 => Filt::Name(format!("n{}", rng.below(4))),
                _ => Filt::Target((*rng.pick(&["app", "app::db", "other"])).to_owned()),
            };
            lines.push(format!("lfilter {i} {}", f.tok()));
        }
        // values whose `Debug` impl itself uses tracing (a lazily loaded resource whose loader logs),
        // recorded on a span later: the event they emit while being rendered reaches the same capture
        // layer. Oracle-only (the model has no such values); no global filter in these cases.
        let mut nested = false;
        if idx % 9 == 4 {
            let mut used_event_sites: Vec<usize> = vec![];
            for op in &mut prog.ops {
                match op {
                    POp::Evt { k, .. } => {
                        if !used_event_sites.contains(k) {
                            used_event_sites.push(*k);
                        }
                    }
                    POp::Rec { vals, .. } if !used_event_sites.is_empty() && !vals.is_empty() && rng.chance(2, 3) => {
                        let pos = rng.below(vals.len());
                        let k = *rng.pick(&used_event_sites);
                        vals[pos].1 = format!("dbgev:{k}.{}", crate::proto::hex(format!("Lazy({})", rng.below(3)).as_bytes()));
                        nested = true;
                    }
                    _ => {}
                }
            }
            if nested {
                lines.push("nestedtracing 1".into());
            }
        }
        if rng.chance(1, 4) && !nested {
            lines.push(format!("gfilter {}", rng.range(1, 4)));
        }
        if rng.chance(1, 3) {
            lines.push("nested 1".into());
        }
        if rng.chance(1, 3) {
            // the storage is read while the program is still running
            for _ in 0..rng.range(1, 4) {
                lines.push(format!("probe {} {}", rng.below(prog.ops.len().max(1)), rng.below(6)));
            }
        }
        if focus == "C16" && rng.chance(1, 3) && !nested {
            // only for C16 (no panic, independence): under per-layer filtering the contextual parent is
            // tracing-subscriber's nearest *entered* span enabled for the filter, which is not the
            // model's (and C05's) nearest captured ancestor when spans are entered out of hierarchy order
            lines.push("perlayer 1".into());
        }
        if focus == "C16" || rng.chance(1, 5) {
            for p in 0..=n_layers {
                if rng.chance(1, 3) {
                    lines.push(format!("pass {p}"));
                }
            }
        }
        if focus == "C16" || rng.chance(1, 6) {
            // stale follows-from targets: follow a handle that was already dropped
            let mut dropped: Vec<usize> = vec![];
            let mut live: Vec<usize> = vec![];
            let mut nh = 0usize;
            let mut extra: Vec<(usize, POp)> = vec![];
            for (pos, op) in prog.ops.iter().enumerate() {
                match op {
                    POp::New { .. } | POp::Cln(_) => {
                        live.push(nh);
                        nh += 1;
                    }
                    POp::Drp(s) => {
                        live.retain(|h| h != s);
                        dropped.push(*s);
                    }
                    _ => {}
                }
                if !dropped.is_empty() && !live.is_empty() && rng.chance(1, 6) {
                    extra.push((pos + 1, POp::Fol(*rng.pick(&live), *rng.pick(&dropped))));
                }
                // ... and events whose explicit parent is the id of a handle that was already dropped
                // (`event!(parent: id, ..)` with an id kept after the span is gone): if the span is
                // closed by then the event has no parent
                if !dropped.is_empty() && rng.chance(1, 8) {
                    if let Some(k) = prog.sites.iter().position(|x| !x.is_span) {
                        extra.push((pos + 1, POp::Evt { k, parent: PParent::Handle(*rng.pick(&dropped)), vals: vec![] }));
                    }
                }
            }
            for (pos, op) in extra.into_iter().rev() {
                prog.ops.insert(pos, op);
            }
        }
        if focus == "C16" || rng.chance(1, 8) {
            // unbalanced exits: `Dispatch::exit` on a span that is not entered (the raw subscriber API
            // permits it, and a receiver relays a guest's `SpanExited` whether or not it was entered)
            let mut live: Vec<usize> = vec![];
            let mut nh = 0usize;
            let mut extra: Vec<(usize, POp)> = vec![];
            for (pos, op) in prog.ops.iter().enumerate() {
                match op {
                    POp::New { .. } | POp::Cln(_) => {
                        live.push(nh);
                        nh += 1;
                    }
                    POp::Drp(s) => live.retain(|h| h != s),
                    _ => {}
                }
                if !live.is_empty() && rng.chance(1, 10) {
                    extra.push((pos + 1, POp::Ext(*rng.pick(&live))));
                }
            }
            for (pos, op) in extra.into_iter().rev() {
                prog.ops.insert(pos, op);
            }
        }
        lines.extend(prog.lines());
        lines
    }

    fn run(&self, lines: &[String]) -> Outcome {
        let mut out = Outcome::default();
        let (prog, rest) = Program::parse(lines);
        if prog.malformed {
            out.obs.push("bad-input".into());
            return out;
        }
        let cfg = Config::parse(&rest);
        let nested_tracing = rest.iter().any(|l| l == "nestedtracing 1")
            || prog.ops.iter().any(|o| matches!(o, POp::New { vals, .. } | POp::Rec { vals, .. } | POp::Evt { vals, .. } if vals.iter().any(|v| v.1.starts_with("dbgev:"))));
        let (storages, panicked, fe_log) = if nested_tracing {
            // user code (a `Debug` impl) re-enters tracing from inside a layer callback: run under a
            // watchdog, a callback that never returns must not hang the whole check
            let (tx, rx) = std::sync::mpsc::channel();
            let (p2, l2) = (prog.clone(), rest.clone());
            std::thread::spawn(move || {
                let cfg = Config::parse(&l2);
                let _ = tx.send(run_capture_log(&p2, &cfg));
            });
            match rx.recv_timeout(std::time::Duration::from_secs(10)) {
                Ok(r) => r,
                Err(_) => {
                    out.fails.push("C16 a capture layer callback did not return within 10 s: a recorded value whose `Debug` impl emits a tracing event is rendered while the layer holds its storage lock, and the event's own callback waits for that lock (deadlock)".into());
                    out.fails.push("C05 the program did not run to completion under the capture layer (deadlock in a layer callback)".into());
                    out.tags.push("nested-tracing".into());
                    return out;
                }
            }
        } else {
            run_capture_log(&prog, &cfg)
        };
        if panicked {
            out.obs.push("panic".into());
            out.fails.push("C16 a capture layer callback panicked".into());
        }
        // what reaches the subscriber at all is decided by the global filter alone: a capture layer's
        // own filter must not switch call sites off for the whole stack
        if !panicked {
            let passes = |k: usize| cfg.global.map_or(true, |g| prog.sites.get(k).map_or(false, |s| s.level <= g));
            let want_spans = prog.ops.iter().filter(|o| matches!(o, POp::New { k, .. } if passes(*k))).count();
            let want_events = prog.ops.iter().filter(|o| matches!(o, POp::Evt { k, .. } if passes(*k))).count();
            let got_spans = fe_log.iter().filter(|c| matches!(c, program::FeCall::NewSpan { .. })).count();
            let got_events = fe_log.iter().filter(|c| matches!(c, program::FeCall::Event { .. })).count();
            // (values that emit events while they are rendered add events of their own)
            if got_spans != want_spans || (got_events != want_events && !nested_tracing) {
                let msg = format!("the program creates {want_spans} spans and {want_events} events that pass the global filter, but only {got_spans} spans and {got_events} events were emitted to the subscriber (a layer's own filter must not disable call sites for the whole stack)");
                out.fails.push(format!("C05 {msg}"));
                out.fails.push(format!("C16 {msg}"));
            }
        }
        let mut dumps: Vec<Vec<String>> = vec![];
        for (i, st) in storages.iter().enumerate() {
            let mut d = vec![];
            match catch_unwind(AssertUnwindSafe(|| {
                let lock = st.lock();
                let mut d = vec![];
                let mut f = vec![];
                dump(&lock, &prog.sites, &format!("L{i} "), &mut d, &mut f);
                (d, f)
            })) {
                Ok((dd, ff)) => {
                    d = dd;
                    out.fails.extend(ff);
                }
                Err(_) => {
                    d.push(format!("L{i} poisoned"));
                    out.fails.push(format!("C16 storage of layer {i} is poisoned"));
                }
            }
            out.obs.extend(d.iter().cloned());
            // ---- C17: raw structure + derived queries of the REAL storage, for the `forest` driver
            if let Ok(lock) = catch_unwind(AssertUnwindSafe(|| st.lock())) {
                out.docs.push(format!("F begin L{i}"));
                out.docs.extend(forest_doc(&lock));
                out.docs.push("F end".into());
            }
            // ---- C05: the storage against the independent reference interpreter
            if !panicked && !cfg.per_layer {
                let want = expected_dump(&prog.sites, &cfg.layers[i], &fe_log, &format!("L{i} "));
                if want != d {
                    let k = want.iter().zip(&d).position(|(a, b)| a != b).unwrap_or(want.len().min(d.len()));
                    out.fails.push(format!("C05 layer {i} storage differs from what the program did: captured `{}`, expected `{}`", d.get(k).map_or("<end>", String::as_str), want.get(k).map_or("<end>", String::as_str)));
                }
            }
            dumps.push(d);
        }
        // ---- C17: items of different storages (other layers of the stack, or a second run of the
        // ---- same program) are unequal and unordered at every pair of positions
        if !panicked {
            let second;
            let others: Vec<&SharedStorage> = if storages.len() > 1 {
                storages.iter().skip(1).collect()
            } else {
                second = run_capture(&prog, &cfg).0;
                second.iter().collect()
            };
            if let Some(first) = storages.first() {
                let other_label = if storages.len() > 1 { "L1" } else { "R0" };
                for (n, o) in others.into_iter().enumerate() {
                    let _ = catch_unwind(AssertUnwindSafe(|| {
                        let (fl, ol) = (first.lock(), o.lock());
                        cross_storage_laws(&fl, &ol, &mut out.fails);
                        if n == 0 {
                            identity_doc(&fl, "L0", &fl, "L0", &mut out.docs);
                            identity_doc(&fl, "L0", &ol, other_label, &mut out.docs);
                            identity_doc(&ol, other_label, &fl, "L0", &mut out.docs);
                        }
                    }));
                }
            }
        }
        // ---- C16: each layer captures what it would capture alone
        // (not with values that emit events while they are rendered: every layer that looks at the
        // values renders them, so the number of those events depends on the number of layers)
        if (cfg.layers.len() > 1 || !cfg.pass.is_empty()) && !nested_tracing {
            for (i, f) in cfg.layers.iter().enumerate() {
                let solo = Config { layers: vec![f.clone()], global: cfg.global, pass: vec![], per_layer: cfg.per_layer, nested: cfg.nested, probes: vec![] };
                let (st, p) = run_capture(&prog, &solo);
                if p {
                    continue; // reported by the single-layer run of another case
                }
                let mut d = vec![];
                let mut ff = vec![];
                let lock = st[0].lock();
                dump(&lock, &prog.sites, &format!("L{i} "), &mut d, &mut ff);
                if dumps.get(i) != Some(&d) {
                    let k = d.iter().zip(&dumps[i]).position(|(a, b)| a != b).unwrap_or(d.len().min(dumps[i].len()));
                    out.fails.push(format!("C16 layer {i} captured differently in the stack than alone: `{}` vs `{}`", dumps[i].get(k).map_or("<end>", String::as_str), d.get(k).map_or("<end>", String::as_str)));
                }
            }
            out.tags.push("multi-layer-or-pass".into());
        }
        if nested_tracing {
            // not comparable with the model (it has no values whose rendering emits events)
            out.obs.clear();
            out.docs.clear();
            out.tags.push("nested-tracing".into());
        }
        if cfg.layers.iter().any(|f| *f == Filt::InSpan) {
            // not comparable with the model (its filters are functions of the call site)
            out.obs.clear();
            out.docs.clear();
            out.tags.push("context-filter".into());
        }
        let n_spans = dumps.first().map_or(0, |d| d.iter().filter(|l| l.contains(" sp ")).count());
        let deep = dumps.first().map_or(false, |d| d.iter().any(|l| l.contains(" sp ") && !l.contains("par=-")));
        let has_ev = dumps.first().map_or(false, |d| d.iter().any(|l| l.contains(" evn ")));
        if n_spans >= 3 && deep && has_ev {
            out.tags.push("nontrivial".into());
        }
        if prog.ops.iter().any(|o| matches!(o, POp::Fol(..))) {
            out.tags.push("has-follows".into());
        }
        if prog.ops.iter().any(|o| matches!(o, POp::New { parent: PParent::Root, .. })) {
            out.tags.push("has-explicit-root".into());
        }
        let _ = entries_from_real::<String>;
        let _ = dynsite::level_of;
        out
    }
}
