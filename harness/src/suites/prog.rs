//! Suite `prog` (C12, C01, C13): guest programs run natively on a StrictHost, under the real
//! `TracingEventSender`, and tunnelled (sender -> JSON -> receiver -> StrictHost).

use std::sync::{Arc, Mutex};

use tracing_core::dispatcher::{self, Dispatch};
use tracing_tunnel::{TracingEvent, TracingEventReceiver, TracingEventSender};

use super::{values::expected_capture, Outcome, Suite, Tier};
use crate::{
    dynsite,
    hosts::{self, StrictHost},
    program::{self, FeCall, GenCfg, POp, PParent, Program},
    proto::{Ev, Site, Toks, Val},
    rng::Rng,
    spec::ordered_insert,
};

pub struct Prog;

/// First pool index with the same description.
fn canon_k(sites: &[Site], site: &Site) -> Option<usize> {
    sites.iter().position(|s| s == site)
}

/// Rewrites ` m<idx> ` in a host log line to ` k<k> ` (pool index by content).
fn by_content(line: &str, sites: &[Site]) -> String {
    line.split(' ')
        .map(|tok| {
            if let Some(idx) = tok.strip_prefix('m').and_then(|r| r.parse::<usize>().ok()) {
                match hosts::meta_site(idx).and_then(|s| canon_k(sites, &s)) {
                    Some(k) => format!("k{k}"),
                    None => "k?".to_owned(),
                }
            } else {
                tok.to_owned()
            }
        })
        .collect::<Vec<_>>()
        .join(" ")
}

pub fn sender_stream(prog: &Program, start: Option<u32>) -> (Vec<TracingEvent>, Vec<FeCall>) {
    let events: Arc<Mutex<Vec<TracingEvent>>> = Arc::default();
    let sink = Arc::clone(&events);
    let on_event: Box<dyn Fn(TracingEvent) + Send + Sync> = Box::new(move |e| sink.lock().unwrap().push(e));
    let sender = match start {
        None => TracingEventSender::new(on_event),
        Some(n) => TracingEventSender::verif_with_next_span_id(on_event, n),
    };
    let dispatch = Dispatch::new(sender);
    // (the guest runs with the sender as its current subscriber, so that code of the guest reached
    // from inside a subscriber call - a `Debug` impl that logs - finds it)
    let log = dispatcher::with_default(&dispatch, || program::run(&dispatch, prog));
    drop(dispatch);
    let evs = std::mem::take(&mut *events.lock().unwrap());
    (evs, log)
}

/// Metadata ids (addresses) -> pool index by content.
fn canon_events(evs: &[TracingEvent], prog: &Program) -> Vec<Ev> {
    let id_of = |k: usize| dynsite::metadata_for(&prog.sites[k]) as *const _ as u64;
    let to_k = |id: u64| (0..prog.sites.len()).find(|k| id_of(*k) == id).map_or(u64::MAX, |k| canon_k(&prog.sites, &prog.sites[k]).unwrap() as u64);
    evs.iter()
        .map(|e| match Ev::from_real(e) {
            Ev::NewCallSite { id, site } => Ev::NewCallSite { id: to_k(id), site },
            Ev::NewSpan { id, parent, mt, values } => Ev::NewSpan { id, parent, mt: to_k(mt), values },
            Ev::NewEvent { mt, parent, values } => Ev::NewEvent { mt: to_k(mt), parent, values },
            other => other,
        })
        .collect()
}

fn expected_values(site: &Site, vals: &program::PVals) -> Vec<(String, Val)> {
    let mut out = vec![];
    for (i, tok) in vals {
        if let (Some(name), Some(v)) = (site.fields.get(*i), expected_capture(tok)) {
            ordered_insert(&mut out, name, v);
        }
    }
    out
}

fn widen_tok(tok: &str) -> String {
    if let Some(r) = tok.strip_prefix("i64:") {
        format!("i128:{r}")
    } else if let Some(r) = tok.strip_prefix("u64:") {
        format!("u128:{r}")
    } else {
        tok.to_owned()
    }
}

/// Normal form of a native host log for comparison with the tunnelled one: registrations
/// dropped, clones folded into the single close at handle count zero, values widened to the
/// documented value model; `root_as_ctx` additionally rewrites explicit roots (the weakening
/// that corresponds to known finding K1).
fn normalize_native(log: &[String], root_as_ctx: bool) -> Vec<String> {
    let mut counts: std::collections::HashMap<String, i64> = Default::default();
    let mut out = vec![];
    for l in log {
        let toks: Vec<&str> = l.split(' ').collect();
        match toks.get(1).copied() {
            Some("reg") => {}
            Some("cln") => *counts.entry(toks[2].to_owned()).or_insert(1) += 1,
            Some("cls") => {
                let c = counts.entry(toks[2].to_owned()).or_insert(1);
                *c -= 1;
                if *c == 0 {
                    out.push(l.clone());
                }
            }
            Some("new") | Some("evt") | Some("rec") => {
                let mut ts: Vec<String> = toks.iter().map(|t| widen_tok(t)).collect();
                if root_as_ctx {
                    for t in ts.iter_mut() {
                        if t == "root" {
                            *t = "ctx".into();
                        }
                    }
                }
                if toks[1] == "new" {
                    counts.insert(toks[2].to_owned(), 1);
                }
                out.push(ts.join(" "));
            }
            _ => out.push(l.clone()),
        }
    }
    out
}

/// Collapses repeated field names inside one value list (first position, last value): what the
/// insertion-ordered map `TracedValues` does to a value set that names a field twice (the
/// weakening that corresponds to known finding K5).
fn collapse_repeated(log: &[String]) -> Vec<String> {
    log.iter()
        .map(|l| {
            let toks: Vec<&str> = l.split(' ').collect();
            if !matches!(toks.get(1).copied(), Some("new") | Some("evt") | Some("rec")) {
                return l.clone();
            }
            let Some(ci) = (2..toks.len()).find(|i| toks[*i].parse::<usize>().is_ok()) else { return l.clone() };
            let n: usize = toks[ci].parse().unwrap();
            if toks.len() < ci + 1 + 2 * n {
                return l.clone();
            }
            let mut pairs: Vec<(&str, &str)> = vec![];
            for j in 0..n {
                let (name, val) = (toks[ci + 1 + 2 * j], toks[ci + 2 + 2 * j]);
                if let Some(p) = pairs.iter_mut().find(|p| p.0 == name) {
                    p.1 = val;
                } else {
                    pairs.push((name, val));
                }
            }
            let mut out: Vec<String> = toks[..ci].iter().map(|t| (*t).to_owned()).collect();
            out.push(pairs.len().to_string());
            for (a, b) in pairs {
                out.push(a.to_owned());
                out.push(b.to_owned());
            }
            out.extend(toks[ci + 1 + 2 * n..].iter().map(|t| (*t).to_owned()));
            out.join(" ")
        })
        .collect()
}

/// Erases everything about spans/events whose call site the host disables, renumbers host ids
/// by first occurrence and masks parent links (C13's weakened comparison).
fn erase_disabled(log: &[String], sites: &[Site], max_level: u8) -> Vec<String> {
    let disabled_k = |tok: &str| tok.strip_prefix('k').and_then(|k| k.parse::<usize>().ok()).map_or(false, |k| sites[k].level > max_level);
    let mut dead: std::collections::HashSet<String> = Default::default();
    let mut rename: std::collections::HashMap<String, String> = Default::default();
    let mut out = vec![];
    for l in log {
        let toks: Vec<&str> = l.split(' ').collect();
        match toks.get(1).copied() {
            Some("new") => {
                if disabled_k(toks[3]) {
                    dead.insert(toks[2].to_owned());
                    continue;
                }
                let n = rename.len() + 1;
                rename.insert(toks[2].to_owned(), format!("h{n}"));
            }
            Some("evt") => {
                if disabled_k(toks[2]) {
                    continue;
                }
            }
            Some("reg") => continue,
            _ => {
                if toks.len() > 2 && dead.contains(toks[2]) {
                    continue;
                }
                if toks.get(1) == Some(&"fol") && dead.contains(toks[3]) {
                    continue;
                }
            }
        }
        let line: Vec<String> = toks
            .iter()
            .map(|t| {
                if t.starts_with("p:") || *t == "root" || *t == "ctx" || t.starts_with("cur=") {
                    "_".to_owned()
                } else {
                    rename.get(*t).cloned().unwrap_or_else(|| (*t).to_owned())
                }
            })
            .collect();
        out.push(line.join(" "));
    }
    out
}

impl Suite for Prog {
    fn enumerate(&self, tier: Tier, focus: &str) -> Vec<Vec<String>> {
        if focus == "C13" {
            return vec![];
        }
        // all short programs over a small alphabet: one span site (1 field), one event site
        let max_len = if tier == Tier::Quick { 4 } else { 6 };
        let header = vec![
            format!("site 0 {}", Site { is_span: true, level: 2, name: "s".into(), target: "app".into(), module_path: None, file: None, line: None, fields: vec!["f0".into()] }.tok()),
            format!("site 1 {}", Site { is_span: false, level: 2, name: "e".into(), target: "app".into(), module_path: None, file: None, line: None, fields: vec!["message".into()] }.tok()),
        ];
        // alphabet entries are closures over the number of handles created so far
        let mut out = vec![];
        let mut frontier: Vec<(Vec<POp>, usize)> = vec![(vec![], 0)];
        for _ in 0..max_len {
            let mut next = vec![];
            for (seq, nh) in &frontier {
                let mut cands: Vec<(POp, usize)> = vec![
                    (POp::New { k: 0, parent: PParent::Ctx, vals: vec![(0, "i64:1".into())] }, nh + 1),
                    (POp::New { k: 0, parent: PParent::Root, vals: vec![] }, nh + 1),
                    (POp::Evt { k: 1, parent: PParent::Ctx, vals: vec![(0, "str:6869".into())] }, *nh),
                ];
                if *nh > 0 {
                    let s = nh - 1;
                    cands.push((POp::New { k: 0, parent: PParent::Handle(0), vals: vec![] }, nh + 1));
                    cands.push((POp::Ent(s), *nh));
                    cands.push((POp::Ext(s), *nh));
                    cands.push((POp::Cln(0), nh + 1));
                    cands.push((POp::Drp(s), *nh));
                    cands.push((POp::Rec { s: 0, vals: vec![(0, "u64:2".into())] }, *nh));
                    cands.push((POp::Evt { k: 1, parent: PParent::Handle(0), vals: vec![] }, *nh));
                }
                if *nh > 1 {
                    cands.push((POp::Fol(0, 1), *nh));
                }
                for (op, n2) in cands {
                    let mut s = seq.clone();
                    s.push(op);
                    if wf(&s) {
                        next.push((s, n2));
                    }
                }
            }
            for (s, _) in &next {
                let mut lines = header.clone();
                lines.extend(s.iter().map(POp::tok));
                out.push(lines);
            }
            frontier = next;
            if out.len() > 150_000 {
                break;
            }
        }
        out
    }

    fn gen(&self, rng: &mut Rng, tier: Tier, idx: usize, focus: &str) -> Vec<String> {
        let cfg = GenCfg {
            max_ops: if tier == Tier::Quick { 40 } else { 200 },
            max_fields: if idx % 5 == 0 { 32 } else { 5 },
            roots: true,
            clones: true,
            rich_values: idx % 3 == 0,
            leak_enters: idx % 4 == 1,
        };
        let mut prog = program::gen_program(rng, &cfg);
        let mut lines = vec![];
        if idx % 6 == 3 {
            // the events are handed to the receiver as they are (same process, no serialization),
            // so values JSON cannot carry are fair game: NaN, the infinities
            lines.push("direct 1".into());
            for op in &mut prog.ops {
                if let POp::New { vals, .. } | POp::Rec { vals, .. } | POp::Evt { vals, .. } = op {
                    for (_, tok) in vals.iter_mut() {
                        let is_float = tok.starts_with("f64:") || tok.starts_with("f32:");
                        if (is_float && rng.chance(1, 2)) || (tok != "empty" && rng.chance(1, 12)) {
                            *tok = (*rng.pick(&["f64:7ff8000000000000", "f64:7ff0000000000000", "f64:fff0000000000000", "f32:7f800000", "f32:ffc00000", "f32:ff800000"])).to_owned();
                        }
                    }
                }
            }
        }
        if idx % 8 == 5 && !lines.iter().any(|l: &String| l.starts_with("direct")) {
            // values whose `Debug` impl itself uses tracing (a lazily loaded resource whose loader
            // logs): recorded on a span later, they emit an event of an already used call site of the
            // program while they are rendered. Judged by the harness oracles only (C12: one event per
            // subscriber operation, C01: tunnelled = native); the model has no such values.
            let mut used_event_sites: Vec<usize> = vec![];
            let mut changed = false;
            for op in &mut prog.ops {
                match op {
                    POp::Evt { k, .. } if prog.sites[*k].fields.is_empty() || true => {
                        if !used_event_sites.contains(k) {
                            used_event_sites.push(*k);
                        }
                    }
                    POp::Rec { vals, .. } if !used_event_sites.is_empty() && !vals.is_empty() && rng.chance(2, 3) => {
                        let pos = rng.below(vals.len());
                        let k = *rng.pick(&used_event_sites);
                        vals[pos].1 = format!("dbgev:{k}.{}", crate::proto::hex(format!("Lazy({})", rng.below(3)).as_bytes()));
                        changed = true;
                    }
                    _ => {}
                }
            }
            if changed {
                lines.push("nestedtracing 1".into());
            }
        }
        if focus == "C12" && idx % 10 == 3 && !lines.iter().any(|l: &String| l == "nestedtracing 1") {
            lines.push(format!("threads {} {}", rng.range(2, 16), rng.range(5, 200)));
        }
        let nested = lines.iter().any(|l: &String| l == "nestedtracing 1");
        if focus == "C12" && idx % 25 == 7 && !nested {
            lines.push(format!("sender start {}", u32::MAX - rng.below(3) as u32));
        }
        if (focus == "C13" || (focus.is_empty() && idx % 4 == 0)) && !nested {
            lines.push(format!("filter {}", rng.below(5)));
        }
        if ((focus == "C13" && idx % 2 == 0) || (focus == "C01" && idx % 4 == 1)) && !nested {
            lines.push(format!("prehost {}", rng.below(3)));
        }
        lines.extend(prog.lines());
        lines
    }

    fn run(&self, lines: &[String]) -> Outcome {
        let mut out = Outcome::default();
        let (prog, rest) = Program::parse(lines);
        if prog.malformed {
            out.obs.push("bad-input".into());
            return out;
        }
        let mut max_level: Option<u8> = None;
        let mut start: Option<u32> = None;
        let mut prehost: Option<u8> = None;
        let direct = rest.iter().any(|l| l == "direct 1");
        let nested_tracing = rest.iter().any(|l| l == "nestedtracing 1")
            || prog.ops.iter().any(|o| matches!(o, POp::New { vals, .. } | POp::Rec { vals, .. } | POp::Evt { vals, .. } if vals.iter().any(|v| v.1.starts_with("dbgev:"))));
        for l in &rest {
            let mut t = Toks::new(l);
            match t.next() {
                Some("filter") => max_level = t.num(),
                Some("prehost") => prehost = t.num(),
                Some("sender") => {
                    t.next();
                    start = t.num();
                }
                Some("threads") => {
                    let (n, m): (usize, usize) = (t.num().unwrap_or(2), t.num().unwrap_or(10));
                    threads_oracle(n, m, &mut out);
                }
                _ => {}
            }
        }
        if start.is_some() {
            // only the sender is exercised when the counter is preset (wrap-around probe)
            // oracle only: the real sender panics in `Id::from_u64(0)` once the counter has wrapped
            match std::panic::catch_unwind(std::panic::AssertUnwindSafe(|| sender_stream(&prog, start))) {
                Ok((events, fe_log)) => {
                    let stream = canon_events(&events, &prog);
                    c12_oracle(&prog, &fe_log, &stream, u64::from(start.unwrap()), &mut out);
                }
                Err(_) => out.fails.push("C12 the sender panicked creating a span: the 32-bit span id counter wrapped to the invalid id 0 [span-id-wrap]".into()),
            }
            out.tags.push("sender-start-preset".into());
            return out;
        }
        // ---- an earlier host of the same process with a different (restrictive) filter sees the
        // ---- program first: whatever the process remembers about call sites must not leak into
        // ---- what a later host observes
        if let Some(level) = prehost {
            let (events, _) = sender_stream(&prog, None);
            let early = StrictHost::new(Some(level));
            let ed = Dispatch::new(early.clone());
            dispatcher::with_default(&ed, || {
                let mut recv = TracingEventReceiver::default();
                for e in events {
                    let _ = recv.try_receive(e);
                }
            });
            out.tags.push("prehost".into());
        }
        // ---- native
        let native = StrictHost::new(max_level);
        let nd = Dispatch::new(native.clone());
        let _native_calls = dispatcher::with_default(&nd, || program::run(&nd, &prog));
        let nlog: Vec<String> = native.take_log().iter().map(|l| by_content(l, &prog.sites)).collect();
        // ---- sender
        let (events, fe_log) = sender_stream(&prog, None);
        let stream = canon_events(&events, &prog);
        for e in &stream {
            out.obs.push(format!("s {}", e.tok()));
        }
        // ---- tunnelled
        let json: Vec<String> = if direct { vec![] } else { events.iter().map(|e| serde_json::to_string(e).unwrap()).collect() };
        let host = StrictHost::new(max_level);
        let hd = Dispatch::new(host.clone());
        let mut results = vec![];
        let recv = dispatcher::with_default(&hd, || {
            let mut recv = TracingEventReceiver::default();
            for j in &json {
                let e: TracingEvent = serde_json::from_str(j).expect("event decodes");
                results.push(recv.try_receive(e).is_ok());
            }
            if direct {
                for e in events.iter().cloned() {
                    results.push(recv.try_receive(e).is_ok());
                }
            }
            recv
        });
        let tlog_all: Vec<String> = host.take_log().iter().map(|l| by_content(l, &prog.sites)).collect();
        dispatcher::with_default(&hd, || drop(recv));
        let _ = host.take_log(); // finalization batch of the (never persisted) receiver
        let tlog: Vec<String> = tlog_all.iter().filter(|l| !l.starts_with("c reg ")).cloned().collect();
        for l in &nlog {
            out.obs.push(format!("n {}", &l[2..]));
        }
        for l in &tlog {
            out.obs.push(format!("t {}", &l[2..]));
        }
        out.obs.push(format!("r {}", results.iter().filter(|r| !**r).count()));

        // ---- C12 oracle: the stream against the program's own operation log
        c12_oracle(&prog, &fe_log, &stream, 1, &mut out);
        // ---- C01 / C13 oracles
        if results.iter().any(|r| !*r) {
            out.fails.push(format!("C01 {} event(s) of the sender's own stream were rejected by the receiver", results.iter().filter(|r| !**r).count()));
            out.fails.push("C13 a valid guest stream was rejected".into());
        }
        let full = normalize_native(&nlog, false);
        let weak = normalize_native(&nlog, true);
        match max_level {
            None => {
                // drop the receiver's final batch? the program may end with spans alive: the drop
                // of the receiver closes / exits them; natively nothing happens. Compare the prefix.
                let t_cmp: Vec<String> = tlog.iter().take(weak.len()).cloned().collect();
                if t_cmp != weak && t_cmp == collapse_repeated(&weak) {
                    out.fails.push("C01 a value set naming the same field more than once reaches the native host as separate visits but the tunnelled host as one (first position, last value) [repeated-field-name]".into());
                } else if t_cmp != weak {
                    let k = t_cmp.iter().zip(&weak).position(|(a, b)| a != b).unwrap_or(t_cmp.len().min(weak.len()));
                    out.fails.push(format!("C01 tunnelled trace differs from the native one at host call #{k}: tunnelled `{}` vs native `{}`", t_cmp.get(k).map_or("<end>", String::as_str), weak.get(k).map_or("<end>", String::as_str)));
                } else if full != weak {
                    // only explicit roots differ: does it matter semantically (a span was entered)?
                    let mut stack: Vec<String> = vec![];
                    let mut matters = false;
                    for l in &nlog {
                        let toks: Vec<&str> = l.split(' ').collect();
                        match toks[1] {
                            "ent" => stack.push(toks[2].to_owned()),
                            "ext" => {
                                if let Some(p) = stack.iter().rposition(|h| h == toks[2]) {
                                    stack.remove(p);
                                }
                            }
                            "new" | "evt" if toks.contains(&"root") && !stack.is_empty() => matters = true,
                            _ => {}
                        }
                    }
                    if matters {
                        out.fails.push("C01 an explicit-root span/event created while a span is entered is a root natively but a child of the current span when tunnelled [explicit-root-while-entered]".into());
                    }
                }
            }
            Some(m) => {
                let disabled_reached = tlog.iter().any(|l| {
                    let toks: Vec<&str> = l.split(' ').collect();
                    let ktok = match toks[1] { "new" => toks.get(3), "evt" => toks.get(2), _ => None };
                    ktok.and_then(|k| k.strip_prefix('k')).and_then(|k| k.parse::<usize>().ok()).map_or(false, |k| prog.sites[k].level > m)
                });
                // repeated field names inside one value set are C01's business (known finding K5)
                let n_w = erase_disabled(&collapse_repeated(&weak), &prog.sites, m);
                let t_w: Vec<String> = erase_disabled(&tlog, &prog.sites, m);
                let t_w: Vec<String> = t_w.into_iter().take(n_w.len()).collect();
                if t_w != n_w {
                    let k = t_w.iter().zip(&n_w).position(|(a, b)| a != b).unwrap_or(t_w.len().min(n_w.len()));
                    out.fails.push(format!("C13 an enabled span/event is not delivered faithfully (host call #{k}): tunnelled `{}` vs native `{}`", t_w.get(k).map_or("<end>", String::as_str), n_w.get(k).map_or("<end>", String::as_str)));
                } else if disabled_reached {
                    out.fails.push("C13 a span/event that the host disables natively is delivered when it arrives through the receiver [receiver-ignores-enabled]".into());
                }
                out.tags.push("filtered".into());
            }
        }
        // non-triviality
        let n_spans = prog.ops.iter().filter(|o| matches!(o, POp::New { .. })).count();
        let n_ent = prog.ops.iter().filter(|o| matches!(o, POp::Ent(_))).count();
        let n_ev = prog.ops.iter().filter(|o| matches!(o, POp::Evt { .. } | POp::Rec { .. })).count();
        let special = prog.ops.iter().any(|o| matches!(o, POp::Cln(_) | POp::Fol(..)) || matches!(o, POp::New { parent: PParent::Handle(_), .. }));
        if n_spans >= 2 && n_ent >= 1 && n_ev >= 1 && special {
            out.tags.push("nontrivial".into());
        }
        for o in &prog.ops {
            out.tags.push(format!("op:{}", o.tok().split(' ').nth(1).unwrap()));
        }
        if nested_tracing {
            // oracle-only: the model has no values whose rendering emits events
            out.obs.clear();
            out.tags.push("nested-tracing".into());
        }
        out
    }
}

/// Well-formedness of a short program (for the enumeration).
fn wf(ops: &[POp]) -> bool {
    let mut span_of: Vec<usize> = vec![];
    let mut live: Vec<bool> = vec![];
    let mut n_spans = 0;
    let mut entered: Vec<usize> = vec![];
    for op in ops {
        let ok = |s: &usize, live: &Vec<bool>| live.get(*s).copied().unwrap_or(false);
        match op {
            POp::New { parent, .. } => {
                if let PParent::Handle(s) = parent {
                    if !ok(s, &live) {
                        return false;
                    }
                }
                span_of.push(n_spans);
                live.push(true);
                n_spans += 1;
            }
            POp::Evt { parent, .. } => {
                if let PParent::Handle(s) = parent {
                    if !ok(s, &live) {
                        return false;
                    }
                }
            }
            POp::Ent(s) => {
                if !ok(s, &live) {
                    return false;
                }
                entered.push(span_of[*s]);
            }
            POp::Ext(s) => {
                if !ok(s, &live) {
                    return false;
                }
                match entered.iter().rposition(|x| *x == span_of[*s]) {
                    Some(p) => {
                        entered.remove(p);
                    }
                    None => return false,
                }
            }
            POp::Cln(s) => {
                if !ok(s, &live) {
                    return false;
                }
                span_of.push(span_of[*s]);
                live.push(true);
            }
            POp::Drp(s) => {
                if !ok(s, &live) {
                    return false;
                }
                let span = span_of[*s];
                let others = (0..live.len()).filter(|i| i != s && live[*i] && span_of[*i] == span).count();
                if others == 0 && entered.contains(&span) {
                    return false;
                }
                live[*s] = false;
            }
            POp::Rec { s, .. } => {
                if !ok(s, &live) {
                    return false;
                }
            }
            POp::Fol(a, b) => {
                if !ok(a, &live) || !ok(b, &live) {
                    return false;
                }
            }
            POp::Reg(_) => {}
        }
    }
    true
}

/// 2..16 threads create spans concurrently through one shared sender: ids pairwise distinct.
fn threads_oracle(n: usize, m: usize, out: &mut Outcome) {
    let site = Site { is_span: true, level: 2, name: "conc".into(), target: "app".into(), module_path: None, file: None, line: None, fields: vec![] };
    let meta = dynsite::metadata_for(&site);
    let events: Arc<Mutex<Vec<TracingEvent>>> = Arc::default();
    let sink = Arc::clone(&events);
    let dispatch = Dispatch::new(TracingEventSender::new(move |e| sink.lock().unwrap().push(e)));
    dispatch.register_callsite(meta);
    let ids: Vec<Vec<u64>> = std::thread::scope(|scope| {
        let handles: Vec<_> = (0..n)
            .map(|_| {
                let dispatch = dispatch.clone();
                scope.spawn(move || {
                    (0..m)
                        .map(|_| {
                            let vs = meta.fields().value_set(&[]);
                            dispatch.new_span(&tracing_core::span::Attributes::new(meta, &vs)).into_u64()
                        })
                        .collect::<Vec<u64>>()
                })
            })
            .collect();
        handles.into_iter().map(|h| h.join().unwrap()).collect()
    });
    let mut all: Vec<u64> = ids.iter().flatten().copied().collect();
    all.sort_unstable();
    let want: Vec<u64> = (1..=(n * m) as u64).collect();
    if all != want {
        out.fails.push(format!("C12 span ids handed out to {n} concurrent threads are not pairwise distinct / not 1..={}: {:?}", n * m, &all[..all.len().min(20)]));
    }
    let in_stream: Vec<u64> = events.lock().unwrap().iter().filter_map(|e| if let TracingEvent::NewSpan { id, .. } = e { Some(*id) } else { None }).collect();
    if in_stream.len() != n * m {
        out.fails.push(format!("C12 {} new-span events for {} concurrent creations", in_stream.len(), n * m));
    }
    out.tags.push(format!("threads:{n}"));
}

fn c12_oracle(prog: &Program, fe_log: &[FeCall], stream: &[Ev], start: u64, out: &mut Outcome) {
    if fe_log.len() != stream.len() {
        out.fails.push(format!("C12 the sender emitted {} events for {} subscriber operations", stream.len(), fe_log.len()));
        return;
    }
    let k_of = |k: usize| canon_k(&prog.sites, &prog.sites[k]).unwrap() as u64;
    let par = |p: &str| p.strip_prefix("p:").and_then(|x| x.parse::<u64>().ok());
    let mut announced: std::collections::HashMap<u64, Site> = Default::default();
    let mut n_created = 0u64;
    let mut alive: std::collections::HashMap<u64, i64> = Default::default();
    for (i, (call, ev)) in fe_log.iter().zip(stream).enumerate() {
        let ok = match (call, ev) {
            (FeCall::Register(k), Ev::NewCallSite { id, site }) => {
                announced.insert(*id, site.clone());
                *id == k_of(*k) && *site == prog.sites[*k]
            }
            (FeCall::NewSpan { k, id, parent, vals }, Ev::NewSpan { id: eid, parent: ep, mt, values }) => {
                n_created += 1;
                let expect = start + n_created - 1;
                let wrapped = expect >= (1 << 32) - 1 + 1 || (expect == (1 << 32) - 1 + 0 && false);
                let tag = if expect >= (1u64 << 32) { " [span-id-wrap]" } else { "" };
                let _ = wrapped;
                if *eid == 0 {
                    out.fails.push(format!("C12 span id 0 handed out (event #{i}, span creation number {expect}){tag}"));
                } else if *eid != expect {
                    out.fails.push(format!("C12 span ids are not fresh consecutive numbers: creation #{n_created} got id {eid}{tag}"));
                }
                if alive.insert(*eid, 1).is_some() {
                    out.fails.push(format!("C12 span id {eid} reused{tag}"));
                }
                if announced.get(mt) != Some(&prog.sites[*k]) {
                    out.fails.push(format!("C12 call site {mt} used by a span before being announced with content equal to its metadata (event #{i})"));
                }
                eid == id && *ep == par(parent) && *mt == k_of(*k) && *values == expected_values(&prog.sites[*k], vals)
            }
            (FeCall::Record { id, k, vals }, Ev::Recorded { id: eid, values }) => eid == id && *values == expected_values(&prog.sites[*k], vals),
            (FeCall::Follows(a, b), Ev::FollowsFrom { id, follows }) => id == a && follows == b,
            (FeCall::Enter(a), Ev::Entered(b)) | (FeCall::Exit(a), Ev::Exited(b)) => a == b,
            (FeCall::Clone(a), Ev::Cloned(b)) => {
                *alive.entry(*a).or_default() += 1;
                a == b
            }
            (FeCall::TryClose(a), Ev::Dropped(b)) => {
                *alive.entry(*a).or_default() -= 1;
                a == b
            }
            (FeCall::Event { k, parent, vals }, Ev::NewEvent { mt, parent: ep, values }) => {
                if announced.get(mt) != Some(&prog.sites[*k]) {
                    out.fails.push(format!("C12 call site {mt} used by an event before being announced with content equal to its metadata (event #{i})"));
                }
                *mt == k_of(*k) && *ep == par(parent) && *values == expected_values(&prog.sites[*k], vals)
            }
            _ => false,
        };
        if !ok {
            out.fails.push(format!("C12 event #{i} `{}` does not carry the operation's ids / explicit parent / values (operation: {call:?})", ev.tok()));
        }
        // references only between creation and last drop
        let refs: Vec<u64> = match ev {
            Ev::NewSpan { parent: Some(p), .. } | Ev::NewEvent { parent: Some(p), .. } => vec![*p],
            Ev::FollowsFrom { id, follows } => vec![*id, *follows],
            Ev::Entered(a) | Ev::Exited(a) | Ev::Cloned(a) | Ev::Recorded { id: a, .. } => vec![*a],
            _ => vec![],
        };
        for r in refs {
            if !matches!(ev, Ev::Cloned(_)) && alive.get(&r).copied().unwrap_or(0) <= 0 {
                out.fails.push(format!("C12 event #{i} refers to span {r} outside its lifetime"));
            }
        }
    }
}
