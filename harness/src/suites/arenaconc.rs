//! Suite `arenaconc` (C10): schedules of concurrent announcements forced on the real arena
//! through the cfg-guarded yield point between the read-locked scan and the write-locked
//! insertion; plus free-running stress.

use std::{
    cell::Cell,
    collections::HashMap,
    sync::{
        mpsc::{channel, Receiver as Rx, Sender as Tx},
        Arc, Mutex, Once,
    },
    thread,
};

use tracing_core::dispatcher::{self, Dispatch};
use tracing_tunnel::{TracingEvent, TracingEventReceiver};

use super::{Outcome, Suite, Tier};
use crate::{
    gen,
    hosts::StrictHost,
    proto::{Ev, Site, Toks},
    rng::Rng,
};

pub struct ArenaConc;

thread_local! {
    /// Index of the controlled thread (None = free running).
    static TID: Cell<Option<usize>> = const { Cell::new(None) };
}

#[derive(Debug)]
enum Report {
    Yielded(usize),
    Done(usize, usize, bool), // tid, metadata index, is_new
}

struct Control {
    report: Tx<Report>,
    grants: Vec<Mutex<Rx<()>>>,
}

static CONTROL: Mutex<Option<Arc<Control>>> = Mutex::new(None);
static HOOK: Once = Once::new();

fn install_hook() {
    HOOK.call_once(|| {
        tracing_tunnel::verif::verif_set_yield(Some(Box::new(|point| {
            if point != "meta:after-read" {
                return;
            }
            let Some(tid) = TID.with(Cell::get) else { return };
            let ctl = CONTROL.lock().unwrap().clone();
            if let Some(ctl) = ctl {
                ctl.report.send(Report::Yielded(tid)).unwrap();
                ctl.grants[tid].lock().unwrap().recv().unwrap();
            }
        })));
    });
}

/// Announces `site` through a fresh receiver on `host`, then uses it once so that the metadata
/// object shows; returns (interning index, whether a registration reached the host).
fn announce(host: &StrictHost, dispatch: &Dispatch, id: u64, site: &Site) -> (usize, bool) {
    let mut recv = dispatcher::with_default(dispatch, TracingEventReceiver::default);
    let r = announce_with(&mut recv, host, dispatch, id, 1, site);
    dispatcher::with_default(dispatch, || drop(recv));
    let _ = host.take_log();
    r
}

/// The same through a receiver that the caller keeps (one per thread), so that call-site ids are
/// re-announced with other descriptions within one receiver.
fn announce_with(recv: &mut TracingEventReceiver, host: &StrictHost, dispatch: &Dispatch, id: u64, span_id: u64, site: &Site) -> (usize, bool) {
    dispatcher::with_default(dispatch, || {
        recv.try_receive(TracingEvent::NewCallSite { id, data: site.to_real() }).expect("announcement accepted");
        let registered = host.take_log().iter().any(|l| l.starts_with("c reg "));
        let use_ev = if site.is_span {
            Ev::NewSpan { id: span_id, parent: None, mt: id, values: vec![] }
        } else {
            Ev::NewEvent { mt: id, parent: None, values: vec![] }
        };
        recv.try_receive(use_ev.to_real()).expect("use accepted");
        let log = host.take_log();
        let idx = log
            .iter()
            .find_map(|l| {
                let toks: Vec<&str> = l.split(' ').collect();
                match toks.get(1) {
                    Some(&"new") => toks.get(3).and_then(|m| m[1..].parse().ok()),
                    Some(&"evt") => toks.get(2).and_then(|m| m[1..].parse().ok()),
                    _ => None,
                }
            })
            .expect("metadata index observed");
        if site.is_span {
            recv.try_receive(TracingEvent::SpanDropped { id: span_id }).expect("drop accepted");
        }
        let _ = host.take_log();
        (idx, registered)
    })
}

fn run_schedule(work: &[(usize, Vec<Site>)], sched: &[usize]) -> Result<HashMap<usize, Vec<(usize, bool)>>, String> {
    install_hook();
    let n = work.iter().map(|w| w.0).max().map_or(0, |m| m + 1);
    let (rtx, rrx) = channel::<Report>();
    let mut gtx: Vec<Option<Tx<()>>> = (0..n).map(|_| None).collect();
    let mut grx: Vec<Mutex<Rx<()>>> = vec![];
    for slot in gtx.iter_mut() {
        let (tx, rx) = channel::<()>();
        *slot = Some(tx);
        grx.push(Mutex::new(rx));
    }
    let ctl = Arc::new(Control { report: rtx.clone(), grants: grx });
    *CONTROL.lock().unwrap() = Some(Arc::clone(&ctl));

    // thread state as the controller sees it
    #[derive(Clone, Copy, PartialEq, Debug)]
    enum St {
        Idle,    // waiting for a grant to start the next announcement (or finished)
        Yielded, // parked between the phases
    }
    let mut state: HashMap<usize, St> = HashMap::new();
    let mut remaining: HashMap<usize, usize> = HashMap::new();
    let mut results: HashMap<usize, Vec<(usize, bool)>> = HashMap::new();
    let mut handles = vec![];
    for (tid, sites) in work {
        let (tid, sites) = (*tid, sites.clone());
        state.insert(tid, St::Idle);
        remaining.insert(tid, sites.len());
        results.insert(tid, vec![]);
        let ctl = Arc::clone(&ctl);
        handles.push(thread::spawn(move || {
            TID.with(|t| t.set(Some(tid)));
            let host = StrictHost::new(None);
            let dispatch = Dispatch::new(host.clone());
            // one receiver per thread; its call-site ids alternate between two values, so an id is
            // announced again with another description
            let mut recv = dispatcher::with_default(&dispatch, TracingEventReceiver::default);
            for (k, site) in sites.iter().enumerate() {
                ctl.grants[tid].lock().unwrap().recv().unwrap(); // grant for step (A)
                let (idx, is_new) = announce_with(&mut recv, &host, &dispatch, 500 + (k % 2) as u64, k as u64 + 1, site);
                ctl.report.send(Report::Done(tid, idx, is_new)).unwrap();
            }
            dispatcher::with_default(&dispatch, || drop(recv));
        }));
    }
    for &t in sched {
        let Some(st) = state.get(&t).copied() else { continue };
        if st == St::Idle && remaining[&t] == 0 {
            continue; // finished thread: the step is a no-op
        }
        gtx[t].as_ref().unwrap().send(()).map_err(|e| e.to_string())?;
        match rrx.recv_timeout(std::time::Duration::from_secs(20)).map_err(|e| format!("thread {t} made no progress: {e}"))? {
            Report::Yielded(who) => {
                if who != t {
                    return Err(format!("thread {who} yielded while {t} was scheduled"));
                }
                state.insert(t, St::Yielded);
            }
            Report::Done(who, idx, is_new) => {
                if who != t {
                    return Err(format!("thread {who} finished while {t} was scheduled"));
                }
                results.get_mut(&t).unwrap().push((idx, is_new));
                *remaining.get_mut(&t).unwrap() -= 1;
                state.insert(t, St::Idle);
            }
        }
    }
    // unobserved tail: complete the remaining work deterministically, thread by thread in tid
    // order (the model does the same), so that the process-wide arena evolves predictably
    let mut tids: Vec<usize> = work.iter().map(|w| w.0).collect();
    tids.sort_unstable();
    for t in tids {
        while state[&t] == St::Yielded || remaining[&t] > 0 {
            gtx[t].as_ref().unwrap().send(()).map_err(|e| e.to_string())?;
            match rrx.recv_timeout(std::time::Duration::from_secs(20)).map_err(|e| format!("thread {t} made no progress in the tail: {e}"))? {
                Report::Yielded(_) => {
                    state.insert(t, St::Yielded);
                }
                Report::Done(who, _, _) => {
                    *remaining.get_mut(&who).unwrap() -= 1;
                    state.insert(who, St::Idle);
                }
            }
        }
    }
    *CONTROL.lock().unwrap() = None;
    drop(gtx);
    for h in handles {
        let _ = h.join();
    }
    Ok(results)
}

fn stress(n_threads: usize, per_thread: usize, pool: &[Site], out: &mut Outcome) {
    let seen: Arc<Mutex<HashMap<String, Vec<(usize, bool)>>>> = Arc::default();
    let barrier = std::sync::Barrier::new(n_threads);
    let barrier = &barrier;
    thread::scope(|scope| {
        for t in 0..n_threads {
            let seen = Arc::clone(&seen);
            scope.spawn(move || {
                let host = StrictHost::new(None);
                let dispatch = Dispatch::new(host.clone());
                for k in 0..per_thread {
                    let site = &pool[(t * 7 + k * 3) % pool.len()];
                    let r = announce(&host, &dispatch, 900 + k as u64, site);
                    seen.lock().unwrap().entry(site.tok()).or_default().push(r);
                }
                // rounds: all threads announce the same not yet interned description at the same
                // moment (the window between a miss under the read lock and the insertion)
                let mut recv = dispatcher::with_default(&dispatch, TracingEventReceiver::default);
                for r in 0..per_thread * 10 {
                    let mut site = pool[r % pool.len()].clone();
                    site.name = format!("{}-round{r}", site.name);
                    barrier.wait();
                    let res = announce_with(&mut recv, &host, &dispatch, 700 + (r % 3) as u64, r as u64 + 1, &site);
                    seen.lock().unwrap().entry(site.tok()).or_default().push(res);
                }
                dispatcher::with_default(&dispatch, || drop(recv));
            });
        }
    });
    let seen = seen.lock().unwrap();
    let mut by_idx: HashMap<usize, String> = HashMap::new();
    for (desc, rs) in seen.iter() {
        let idxs: std::collections::HashSet<usize> = rs.iter().map(|r| r.0).collect();
        if idxs.len() != 1 {
            out.fails.push(format!("C10 equal descriptions resolved to different metadata objects under free-running threads: {idxs:?}"));
        }
        if rs.iter().filter(|r| r.1).count() > 1 {
            out.fails.push("C10 more than one host registration for one description under free-running threads".into());
        }
        for i in idxs {
            if let Some(other) = by_idx.insert(i, desc.clone()) {
                if other != *desc {
                    out.fails.push(format!("C10 different descriptions share metadata object m{i}"));
                }
            }
        }
    }
    out.tags.push(format!("stress:{n_threads}"));
}

fn all_schedules(counts: &[(usize, usize)], out: &mut Vec<Vec<usize>>, cur: &mut Vec<usize>, left: &mut Vec<usize>) {
    if left.iter().all(|c| *c == 0) {
        out.push(cur.clone());
        return;
    }
    for i in 0..counts.len() {
        if left[i] > 0 {
            left[i] -= 1;
            cur.push(counts[i].0);
            all_schedules(counts, out, cur, left);
            cur.pop();
            left[i] += 1;
        }
    }
}

impl Suite for ArenaConc {
    fn enumerate(&self, tier: Tier, _focus: &str) -> Vec<Vec<String>> {
        // all interleavings of 2 (quick) / 2-3 (thorough) threads x 1-2 announcements, for work
        // shapes equal / different / mixed; each case uses descriptions made unique by a nonce so
        // that the process-wide arena does not already contain them
        let mut out = vec![];
        let mut nonce = 0usize;
        let shapes: Vec<Vec<Vec<usize>>> = if tier == Tier::Quick {
            vec![vec![vec![0], vec![0]], vec![vec![0], vec![1]], vec![vec![0, 1], vec![1]]]
        } else {
            vec![
                vec![vec![0], vec![0]], vec![vec![0], vec![1]], vec![vec![0, 1], vec![1]], vec![vec![0, 1], vec![1, 0]],
                vec![vec![0], vec![0], vec![0]], vec![vec![0], vec![1], vec![0]], vec![vec![0, 1], vec![1], vec![0]],
            ]
        };
        for shape in shapes {
            let counts: Vec<(usize, usize)> = shape.iter().enumerate().map(|(t, ds)| (t, 2 * ds.len())).collect();
            let mut scheds = vec![];
            all_schedules(&counts, &mut scheds, &mut vec![], &mut counts.iter().map(|c| c.1).collect());
            for sched in scheds {
                for weak in [false, true] {
                    nonce += 1;
                    let mut lines = vec![];
                    if weak {
                        lines.push("weakhash".into());
                    }
                    for (t, ds) in shape.iter().enumerate() {
                        for d in ds {
                            let name = if weak { format!("wconc{nonce}-{d}") } else { format!("conc{nonce}-{d}") };
                            let site = Site { is_span: true, level: 2, name, target: "app".into(), module_path: None, file: None, line: None, fields: vec!["shared".into(), format!("f{d}")] };
                            lines.push(format!("t {t} {}", site.tok()));
                        }
                    }
                    lines.push(format!("sched {}", sched.iter().map(ToString::to_string).collect::<Vec<_>>().join(" ")));
                    out.push(lines);
                }
            }
        }
        out
    }

    fn gen(&self, rng: &mut Rng, tier: Tier, idx: usize, _focus: &str) -> Vec<String> {
        let mut lines = vec![];
        if idx % 10 == 9 {
            if rng.chance(1, 2) {
                lines.push("weakhash".into());
            }
            lines.push(format!("stress {} {} {}", rng.range(2, 16), if tier == Tier::Quick { 20 } else { 200 }, rng.next() % 100_000));
            return lines;
        }
        let n_threads = rng.range(2, 4);
        let nonce = rng.next() % 1_000_000;
        let weak = rng.chance(1, 2);
        if weak {
            lines.push("weakhash".into());
        }
        let pool: Vec<Site> = (0..3).map(|d| {
            let mut s = gen::site(rng, None, 3);
            s.name = if weak { format!("w{nonce}-{d}") } else { format!("r{nonce}-{d}") };
            s
        }).collect();
        let mut total = vec![];
        for t in 0..n_threads {
            let k = rng.range(1, 3);
            for _ in 0..k {
                lines.push(format!("t {t} {}", rng.pick(&pool).tok()));
            }
            total.extend(std::iter::repeat(t).take(2 * k));
        }
        // random permutation of the steps, possibly truncated (incomplete schedules are fine)
        for i in (1..total.len()).rev() {
            total.swap(i, rng.below(i + 1));
        }
        if rng.chance(1, 4) {
            total.truncate(rng.range(1, total.len()));
        }
        lines.push(format!("sched {}", total.iter().map(ToString::to_string).collect::<Vec<_>>().join(" ")));
        lines
    }

    fn run(&self, lines: &[String]) -> Outcome {
        // `weakhash`: for the duration of the case every description hashes to the same bucket
        // (cfg hook), so that `eq_metadata` and the bucket-tail re-scan decide alone; such cases use
        // descriptions that never occur without the switch
        struct WeakHash;
        impl Drop for WeakHash {
            fn drop(&mut self) {
                tracing_tunnel::verif::verif_set_weak_hash(false);
            }
        }
        let _guard = if lines.iter().any(|l| l == "weakhash") {
            tracing_tunnel::verif::verif_set_weak_hash(true);
            Some(WeakHash)
        } else {
            None
        };
        let mut out = Outcome::default();
        if _guard.is_some() {
            out.tags.push("weakhash".into());
        }
        let mut work: Vec<(usize, Vec<Site>)> = vec![];
        for line in lines {
            let mut t = Toks::new(line);
            match t.next() {
                Some("t") => {
                    let tid: usize = t.num().expect("tid");
                    let site = Site::parse(&mut t).expect("site");
                    match work.iter_mut().find(|w| w.0 == tid) {
                        Some(w) => w.1.push(site),
                        None => work.push((tid, vec![site])),
                    }
                }
                Some("sched") => {
                    let sched: Vec<usize> = t.rest().iter().filter_map(|x| x.parse().ok()).collect();
                    match run_schedule(&work, &sched) {
                        Ok(results) => {
                            let mut tids: Vec<usize> = work.iter().map(|w| w.0).collect();
                            tids.sort_unstable();
                            // objects are named by order of first appearance within the case
                            let mut names: Vec<usize> = vec![];
                            for tid in tids {
                                let r = &results[&tid];
                                let toks: Vec<String> = r.iter().map(|(i, n)| {
                                    let k = names.iter().position(|x| x == i).unwrap_or_else(|| { names.push(*i); names.len() - 1 });
                                    format!("o{k}:{}", u8::from(*n))
                                }).collect();
                                out.obs.push(format!("res {tid} {}", toks.join(" ")).trim_end().to_owned());
                            }
                            // C10 oracle on what was observed
                            let mut by_desc: HashMap<String, usize> = HashMap::new();
                            let mut by_idx: HashMap<usize, String> = HashMap::new();
                            let mut news: HashMap<usize, usize> = HashMap::new();
                            for (tid, sites) in &work {
                                for (site, (idx, is_new)) in sites.iter().zip(&results[tid]) {
                                    if let Some(prev) = by_desc.insert(site.tok(), *idx) {
                                        if prev != *idx {
                                            out.fails.push(format!("C10 equal descriptions obtained different metadata objects m{prev} and m{idx}"));
                                        }
                                    }
                                    if let Some(prev) = by_idx.insert(*idx, site.tok()) {
                                        if prev != site.tok() {
                                            out.fails.push(format!("C10 different descriptions obtained the same metadata object m{idx}"));
                                        }
                                    }
                                    if *is_new {
                                        *news.entry(*idx).or_default() += 1;
                                    }
                                }
                            }
                            for (idx, n) in news {
                                if n > 1 {
                                    out.fails.push(format!("C10 metadata object m{idx} was registered with a host {n} times"));
                                }
                            }
                            let overlap = sched.windows(2).any(|w| w[0] != w[1]);
                            if overlap && work.len() >= 2 {
                                out.tags.push("nontrivial".into());
                            }
                        }
                        Err(e) => {
                            out.obs.push("stuck".into());
                            out.fails.push(format!("C10 an announcement did not complete under a forced schedule: {e}"));
                        }
                    }
                    work.clear();
                }
                Some("stress") => {
                    let (n, m, nonce): (usize, usize, u64) = (t.num().unwrap_or(4), t.num().unwrap_or(20), t.num().unwrap_or(0));
                    let pool: Vec<Site> = (0..6).map(|d| Site { is_span: d % 2 == 0, level: (d % 5) as u8, name: format!("{}stress{nonce}-{d}", if _guard.is_some() { "w" } else { "" }), target: "app::stress".into(), module_path: Some("shared".into()), file: None, line: None, fields: vec!["shared".into()] }).collect();
                    stress(n, m, &pool, &mut out);
                }
                Some("weakhash") => {}
                _ => out.obs.push("bad-op".into()),
            }
        }
        out
    }
}
