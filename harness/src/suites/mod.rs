pub mod arenaconc;
pub mod capconc;
pub mod capture;
pub mod normalize;
pub mod pred;
#[rustfmt::skip]
pub mod pred_table;
pub mod prog;
pub mod receiver;
pub mod values;
pub mod wire;

use crate::rng::Rng;

#[derive(Debug, Clone, Copy, PartialEq, Eq)]
pub enum Tier {
    Quick,
    Thorough,
}

#[derive(Debug, Default)]
pub struct Outcome {
    /// Observation lines of the real implementation (compared with the model's).
    pub obs: Vec<String>,
    /// Failures of implementation-only oracles (the property fails on this input).
    pub fails: Vec<String>,
    /// Tags for the input-distribution statistics; `nontrivial` marks non-trivial cases.
    pub tags: Vec<String>,
    /// Raw documents produced by the real code (e.g. JSON texts for schema validation).
    pub docs: Vec<String>,
}

pub trait Suite {
    /// Bounded-exhaustive cases (run before the random ones).
    fn enumerate(&self, _tier: Tier, _focus: &str) -> Vec<Vec<String>> {
        vec![]
    }
    /// One random case: operation lines (without the `case` header).
    fn gen(&self, rng: &mut Rng, tier: Tier, idx: usize, focus: &str) -> Vec<String>;
    /// Runs the real implementation on the operation lines.
    fn run(&self, lines: &[String]) -> Outcome;
}

pub fn by_name(name: &str) -> Option<Box<dyn Suite>> {
    Some(match name {
        "values" => Box::new(values::Values),
        "normalize" => Box::new(normalize::Normalize),
        "wire" => Box::new(wire::Wire),
        "receiver" => Box::new(receiver::Receiver),
        "prog" => Box::new(prog::Prog),
        "capture" => Box::new(capture::Capture),
        "arenaconc" => Box::new(arenaconc::ArenaConc),
        "pred" => Box::new(pred::Pred),
        "capconc" => Box::new(capconc::CapConc),
        _ => return None,
    })
}
