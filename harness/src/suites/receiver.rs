//! Suite `receiver` (C02, C03, C04, C06, C07, C08, C09-content): event streams and
//! persist / restore / discard histories against the real `TracingEventReceiver` on a StrictHost.

use std::{
    collections::{BTreeMap, HashMap, HashSet},
    panic::{catch_unwind, AssertUnwindSafe},
};

use tracing_core::dispatcher::{self, Dispatch};
use tracing_tunnel::{LocalSpans, PersistedMetadata, PersistedSpans, ReceiveError, TracingEventReceiver};

use super::{wire, Outcome, Suite, Tier};
use crate::{
    gen,
    hosts::StrictHost,
    json,
    proto::{Entries, Ev, Site, Toks, Val},
    rng::Rng,
    spec::{self, Reason, Spec},
};

pub struct Receiver;

fn guest_of(e: &Ev) -> Option<u64> {
    match e {
        Ev::NewSpan { id, .. } | Ev::Recorded { id, .. } | Ev::FollowsFrom { id, .. } => Some(*id),
        Ev::Entered(id) | Ev::Exited(id) | Ev::Cloned(id) | Ev::Dropped(id) => Some(*id),
        _ => None,
    }
}

struct Sys {
    host: StrictHost,
    dispatch: Dispatch,
    recv: Option<TracingEventReceiver>,
    last_pm: String,
    last_ps: String,
    spec: Spec,
    spec_persisted: Spec,
    /// guests that have a host span in the receiver's local map (by the reference bookkeeping)
    has_host: HashMap<u64, u64>,
    /// guests presented (`new`) to the host since the local map was last lost
    presented: HashSet<u64>,
    /// guests born in the current receiver lifetime
    born: HashSet<u64>,
    lifetime_stack: Vec<(u64, bool)>,
    map_lost: bool,
    /// host spans whose guest span lost its last handle while still entered in this lifetime
    orphaned: HashSet<u64>,
    /// host spans that were open when the local span map was lost (lose / discard): nothing can
    /// refer to them any more, by the history's own doing
    forgotten: HashSet<u64>,
}

impl Sys {
    fn new(max_level: Option<u8>) -> Self {
        let host = StrictHost::new(max_level);
        let dispatch = Dispatch::new(host.clone());
        Self {
            host,
            dispatch,
            recv: Some(TracingEventReceiver::default()),
            last_pm: "{}".into(),
            last_ps: "{}".into(),
            spec: Spec::default(),
            spec_persisted: Spec::default(),
            has_host: HashMap::new(),
            orphaned: HashSet::new(),
            forgotten: HashSet::new(),
            presented: HashSet::new(),
            born: HashSet::new(),
            lifetime_stack: vec![],
            map_lost: false,
        }
    }
}

/// Every distinct call-site description this process has handed to a receiver (announced in an
/// accepted event, or contained in restored metadata): what the process-wide arena may retain.
static DISTINCT_SITES: std::sync::OnceLock<std::sync::Mutex<HashSet<Site>>> = std::sync::OnceLock::new();

fn note_site(site: Site) {
    DISTINCT_SITES.get_or_init(Default::default).lock().unwrap().insert(site);
}

fn note_restored(pm: &PersistedMetadata) {
    for (_, d) in pm.iter() {
        note_site(Site::from_real(d));
    }
}

fn pm_line(text: &str) -> String {
    let mut tree = json::parse(text).expect("metadata JSON");
    json::sort_numeric_keys(&mut tree);
    format!("pm {}", wire::meta_rows(&tree).map_or("unreadable".into(), |r| wire::meta_tok(&r)))
}

fn ps_line(text: &str) -> String {
    let mut tree = json::parse(text).expect("spans JSON");
    json::sort_numeric_keys(&mut tree);
    format!("ps {}", wire::spans_rows(&tree).map_or("unreadable".into(), |r| wire::spans_tok(&r)))
}

fn expected_ps(spec: &Spec) -> String {
    let rows: Vec<_> = spec.alive.iter().map(|(id, r)| (*id, r.mt, r.parent, r.rc, r.values.clone())).collect();
    format!("ps {}", wire::spans_tok(&rows))
}

fn expected_pm(spec: &Spec) -> String {
    let rows: Vec<_> = spec.known.iter().map(|(id, s)| (*id, s.clone())).collect();
    format!("pm {}", wire::meta_tok(&rows))
}

#[derive(Default)]
pub struct RunResult {
    pub out: Outcome,
    /// per `ev` line: result token
    pub results: Vec<String>,
    /// host log without `reg` lines and without finalize batches (for pairwise comparisons)
    pub host_log: Vec<String>,
    /// the same including the (sorted) finalize batches of persist / discard / drop
    pub host_log_full: Vec<String>,
    /// pm/ps lines at each persist
    pub persisted: Vec<String>,
    /// indices (into lines) of rejected events
    pub rejected: Vec<usize>,
    pub cut_nonquiescent: bool,
}

/// Mirrors the cfg hook `verif_set_weak_hash` so that nested runs restore the previous setting.
static WEAK_HASH_ON: std::sync::atomic::AtomicBool = std::sync::atomic::AtomicBool::new(false);

struct WeakHashRestore(bool);

impl Drop for WeakHashRestore {
    fn drop(&mut self) {
        WEAK_HASH_ON.store(self.0, std::sync::atomic::Ordering::SeqCst);
        tracing_tunnel::verif::verif_set_weak_hash(self.0);
    }
}

pub fn run_lines(lines: &[String], oracles: bool) -> RunResult {
    let _weak_restore = WeakHashRestore(WEAK_HASH_ON.load(std::sync::atomic::Ordering::SeqCst));
    let mut rr = RunResult::default();
    let mut max_level = None;
    let mut sys = Sys::new(None);
    let mut poisoned = false;
    // a span id re-announced while alive: outside the proviso of C06, so the bookkeeping-based
    // oracles (C02, C03, C04, C06, C09) no longer apply; C07 / C08 are claimed for every stream
    let mut wild = false;
    let mut seg_start = 0usize; // index of first line of the current lifetime segment
    let mut discarded: Option<(usize, Vec<String>)> = None; // (seg_start, segment lines) of last discard
    let mut had_loss = false;
    let mut had_discard = false;
    let mut n_drops = 0usize;
    let mut n_cuts_with_alive = 0usize;
    let mut n_rejected_with_state = 0usize;
    let mut n_entered_at_abort = 0usize;
    let mut n_restored_presentations = 0usize;
    // C09: interning index -> description, as observed through registrations and uses
    let mut c09_seen: HashMap<usize, String> = HashMap::new();
    let mut c09_registered: HashSet<usize> = HashSet::new();

    macro_rules! fail {
        ($($arg:tt)*) => {
            if oracles && !poisoned {
                let msg = format!($($arg)*);
                if !wild || msg.starts_with("C07") || msg.starts_with("C08") {
                    rr.out.fails.push(msg);
                }
            }
        };
    }

    let mut i = 0usize;
    while i <= lines.len() {
        let is_end = i == lines.len();
        let line = if is_end { "h drop".to_owned() } else { lines[i].clone() };
        let mut t = Toks::new(&line);
        if !is_end {
            // marker: which operation the following observation lines belong to
            let mut m = line.split(' ');
            rr.out.obs.push(format!("@{} {}", m.next().unwrap_or(""), m.next().unwrap_or("")).trim_end().to_owned());
        } else {
            rr.out.obs.push("@end".into());
        }
        match t.next() {
            Some("host") => match t.next() {
                Some("filter") => {
                    max_level = t.num::<u8>();
                    sys = Sys::new(max_level);
                }
                Some("weakhash") => {
                    WEAK_HASH_ON.store(true, std::sync::atomic::Ordering::SeqCst);
                    tracing_tunnel::verif::verif_set_weak_hash(true);
                    rr.out.tags.push("weakhash".into());
                }
                Some("base") => {
                    let k: usize = t.num().unwrap_or(1);
                    let mut st = sys.host.state.lock().unwrap();
                    for _ in 0..k {
                        let id = st.next;
                        st.next += 1;
                        st.issued.insert(id);
                        st.stack.push((id, false));
                        rr.out.obs.push(format!("c base h{id}"));
                    }
                    sys.lifetime_stack = st.stack.clone();
                }
                _ => rr.out.obs.push("bad-op".into()),
            },
            Some("regprobe") => {
                // C04 (rollback) on a host built from tracing-subscriber's `Registry`, whose own
                // bookkeeping goes through the current dispatcher (closing a span releases its reference
                // on the parent that way): an execution that creates nested spans is discarded; every
                // span born in it must end up closed on the host and no span may stay current. A
                // capture layer on the registry tells what the host has closed.
                use tracing_subscriber::layer::SubscriberExt;
                let mut r = Rng::new(t.num::<u64>().unwrap_or(1));
                let storage = tracing_capture::SharedStorage::default();
                let host = tracing_subscriber::Registry::default().with(tracing_capture::CaptureLayer::new(&storage));
                let d = Dispatch::new(host);
                let site = Site { is_span: true, level: 2, name: "reg".into(), target: "regprobe".into(), module_path: None, file: None, line: None, fields: vec!["a".into()] };
                note_site(site.clone());
                let mut evs = vec![Ev::NewCallSite { id: 9100, site }];
                let n = r.range(2, 7) as u64;
                let mut entered: Vec<u64> = vec![];
                for id in 1..=n {
                    let parent = if id > 1 && r.chance(1, 3) { Some(1 + r.below(id as usize - 1) as u64) } else { None };
                    evs.push(Ev::NewSpan { id, parent, mt: 9100, values: vec![] });
                    if r.chance(2, 3) {
                        evs.push(Ev::Entered(id));
                        entered.push(id);
                    } else if r.chance(1, 3) {
                        if let Some(e) = entered.pop() {
                            evs.push(Ev::Exited(e));
                        }
                    }
                }
                let current_after = dispatcher::with_default(&d, || {
                    let mut recv = TracingEventReceiver::default();
                    for e in &evs {
                        let _ = recv.try_receive(e.to_real());
                    }
                    drop(recv);
                    dispatcher::get_default(|d| d.current_span().id().map(tracing_core::span::Id::into_u64))
                });
                let lock = storage.lock();
                let open: Vec<usize> = lock.all_spans().enumerate().filter(|(_, s)| !s.stats().is_closed).map(|(i, _)| i).collect();
                let total = lock.all_spans().len();
                // (the description interned here gets the next interning number, as in the driver)
                if let Some(sp) = lock.all_spans().next() {
                    let _ = crate::hosts::meta_index(sp.metadata());
                }
                drop(lock);
                if total != n as usize || !open.is_empty() || current_after.is_some() {
                    fail!("C04 an execution with {n} spans was discarded on a Registry host: {total} spans reached the host, spans {open:?} (in creation order) were not closed, current span afterwards {current_after:?}; stream: {}", evs.iter().map(Ev::tok).collect::<Vec<_>>().join(" ; "));
                }
                rr.out.tags.push("regprobe".into());
            }
            Some("leakprobe") => {
                // C09, last clause: what the process retains for call sites is bounded by the number of
                // distinct descriptions, not by the number of executions. The same small execution
                // (restore, a span, an event, persist) is repeated; once everything is interned the live
                // heap of this thread must not grow with the number of repetitions. No host is installed
                // (a recording host would grow its own log).
                let n: usize = t.num().unwrap_or(200);
                // (cases that run under the degraded hash use descriptions of their own, like all C09 cases)
                let target = t.next().unwrap_or("leakprobe").to_owned();
                let sink = crate::hosts::NoHostYet::default();
                let none = Dispatch::new(sink.clone());
                let sites: Vec<Site> = (0..6).map(|i| Site { is_span: i % 2 == 0, level: 2, name: format!("leak{i}"), target: target.clone(), module_path: None, file: Some("src/leak.rs".into()), line: Some(i), fields: vec!["a".into(), "b".into()] }).collect();
                let (mut pm_text, mut ps_text) = dispatcher::with_default(&none, || {
                    let mut r = TracingEventReceiver::default();
                    for (i, s) in sites.iter().enumerate() {
                        note_site(s.clone());
                        let _ = r.try_receive(Ev::NewCallSite { id: 9000 + i as u64, site: s.clone() }.to_real());
                    }
                    let _ = r.try_receive(Ev::NewSpan { id: 1, parent: None, mt: 9000, values: vec![] }.to_real());
                    let pm = r.persist_metadata();
                    let (ps, _) = r.persist();
                    (serde_json::to_string(&pm).unwrap(), serde_json::to_string(&ps).unwrap())
                });
                // (the descriptions interned here get the next interning numbers, as in the driver)
                for m in sink.seen.lock().unwrap().iter() {
                    let _ = crate::hosts::meta_index(m);
                }
                let mut marks = vec![];
                for i in 0..n + 20 {
                    if i == 20 || i == n + 19 {
                        marks.push(crate::heap::live());
                    }
                    let (a, b) = dispatcher::with_default(&none, || {
                        let pm: PersistedMetadata = serde_json::from_str(&pm_text).unwrap();
                        let ps: PersistedSpans = serde_json::from_str(&ps_text).unwrap();
                        let mut r = TracingEventReceiver::new(pm, ps, LocalSpans::default());
                        let _ = r.try_receive(Ev::NewSpan { id: 2, parent: None, mt: 9002, values: vec![] }.to_real());
                        let _ = r.try_receive(Ev::NewEvent { mt: 9001, parent: None, values: vec![] }.to_real());
                        let _ = r.try_receive(Ev::Dropped(2).to_real());
                        let pm = r.persist_metadata();
                        let (ps, _) = r.persist();
                        (serde_json::to_string(&pm).unwrap(), serde_json::to_string(&ps).unwrap())
                    });
                    pm_text = a;
                    ps_text = b;
                }
                let grown = marks[1] - marks[0];
                if grown > 16 * n as isize {
                    fail!("C09 the live heap grows by {grown} bytes over {n} executions of the same program on the same call sites ({} bytes per execution): memory retained is not bounded by the number of distinct descriptions", grown / n as isize);
                }
                rr.out.tags.push("leakprobe".into());
            }
            Some("stats") => {
                let (strings, metadata) = tracing_tunnel::verif::verif_arena_stats();
                rr.out.obs.push(format!("stats {strings} {metadata}"));
                // C09: memory retained for call sites is bounded by the distinct descriptions: the
                // arena holds one metadata object per distinct description this process ever handed
                // to a receiver, however many ids, executions and restores there were
                let distinct = DISTINCT_SITES.get_or_init(Default::default).lock().unwrap().len();
                if metadata != distinct {
                    fail!("C09 the process-wide arena holds {metadata} metadata objects, but only {distinct} distinct call-site descriptions have been announced or restored in this process");
                }
            }
            Some("ev") => {
                let e = Ev::parse(&mut t).expect("event");
                if let Ev::NewCallSite { site, .. } = &e {
                    note_site(site.clone());
                }
                let real = e.to_real();
                sys.host.state.lock().unwrap().tag = guest_of(&e);
                let news_before = sys.host.state.lock().unwrap().news.len();
                let closes_before = sys.host.state.lock().unwrap().closes.len();
                let recv = sys.recv.as_mut().expect("receiver alive");
                let queries_before = sys.host.state.lock().unwrap().enabled_queries;
                let res = dispatcher::with_default(&sys.dispatch, || {
                    catch_unwind(AssertUnwindSafe(|| recv.try_receive(real)))
                });
                let delta = sys.host.take_log();
                let tok = match &res {
                    Ok(Ok(())) => "r ok".to_owned(),
                    Ok(Err(ReceiveError::UnknownMetadataId(id))) => format!("r err um {id}"),
                    Ok(Err(ReceiveError::UnknownSpanId(id))) => format!("r err us {id}"),
                    Ok(Err(ReceiveError::TooManyValues { actual, .. })) => format!("r err tm {actual}"),
                    Ok(Err(_)) => "r err other".to_owned(),
                    Err(_) => "r panic".to_owned(),
                };
                for l in &delta {
                    let toks: Vec<&str> = l.split(' ').collect();
                    if toks.get(1) == Some(&"reg") {
                        let idx: usize = toks[2][1..].parse().unwrap();
                        let site = toks[3..].join(" ");
                        if !c09_registered.insert(idx) && oracles {
                            rr.out.fails.push(format!("C09 metadata object m{idx} was registered with the host more than once"));
                        }
                        if let Ev::NewCallSite { site: announced, .. } = &e {
                            if announced.tok() != site && oracles {
                                rr.out.fails.push(format!("C09 call site announced as `{}` reached the host as `{site}`", announced.tok()));
                            }
                        }
                        c09_seen.insert(idx, site);
                    }
                }
                rr.out.obs.push(tok.clone());
                rr.results.push(tok.clone());
                rr.out.obs.extend(delta.iter().cloned());
                rr.host_log.extend(delta.iter().filter(|l| !l.starts_with("c reg ")).cloned());
                rr.host_log_full.extend(delta.iter().filter(|l| !l.starts_with("c reg ")).cloned());

                // ---- oracles
                if let Ev::NewSpan { id, .. } = &e {
                    if sys.spec.alive.contains_key(id) && !wild {
                        wild = true;
                        rr.out.tags.push("wild:reannounce-while-alive".into());
                    }
                }
                let reasons = if wild { vec![] } else { sys.spec.invalid(&e) };
                match &res {
                    Err(_) => {
                        fail!("C06 try_receive panicked on `{}`", e.tok());
                        poisoned = true;
                    }
                    Ok(Ok(())) => {
                        if !reasons.is_empty() {
                            fail!("C06 invalid event accepted: `{}` should be rejected ({})", e.tok(), reasons.iter().map(Reason::tok).collect::<Vec<_>>().join(" | "));
                            poisoned = true;
                        }
                    }
                    Ok(Err(_)) => {
                        rr.rejected.push(i);
                        rr.out.tags.push(format!("reject:{}", tok.split(' ').nth(2).unwrap_or("?")));
                        if !delta.is_empty() && wild {
                            fail!("C07 rejected event `{}` still reached the host: {}", e.tok(), delta.join(" ; "));
                        }
                        if wild {
                            // nothing else can be judged without the bookkeeping
                        } else if reasons.is_empty() {
                            let k = if had_loss { "C03" } else { "C06" };
                            fail!("{k} valid event rejected: `{}` -> {tok}", e.tok());
                            fail!("C06 valid event rejected: `{}` -> {tok}", e.tok());
                            if had_discard {
                                fail!("C04 after a discard the retried stream is not accepted like the run without the discard: valid `{}` -> {tok}", e.tok());
                            }
                            if max_level.is_some() {
                                fail!("C13 a valid guest stream was rejected under a filtering host: `{}` -> {tok}", e.tok());
                            }
                            poisoned = true;
                        } else if !reasons.iter().any(|r| format!("r err {}", r.tok()) == tok) {
                            fail!("C06 reported reason `{tok}` is not applicable to `{}` (applicable: {})", e.tok(), reasons.iter().map(Reason::tok).collect::<Vec<_>>().join(" | "));
                        }
                        if !delta.is_empty() {
                            fail!("C07 rejected event `{}` still reached the host: {}", e.tok(), delta.join(" ; "));
                        }
                        let queries = sys.host.state.lock().unwrap().enabled_queries - queries_before;
                        if queries > 0 {
                            // `enabled()` is not a pure question for every subscriber (per-layer filters keep
                            // the answer for the next span or event)
                            fail!("C07 rejected event `{}` made the receiver call the host's enabled() {queries} time(s)", e.tok());
                        }
                        if !sys.spec.alive.is_empty() {
                            n_rejected_with_state += 1;
                        }
                    }
                }
                if let (Some(m), Ok(Ok(())), Ev::NewEvent { mt, .. }) = (max_level, &res, &e) {
                    // C13: an event the host enables is delivered (whatever happened to its ancestors)
                    if let Some(site) = sys.spec.known.get(mt) {
                        if reasons.is_empty() && !wild && site.level <= m && !delta.iter().any(|l| l.starts_with("c evt ")) {
                            fail!("C13 an event the host enables was not delivered: `{}`", e.tok());
                        }
                    }
                }
                if matches!(res, Ok(Ok(()))) && reasons.is_empty() && oracles && !wild {
                    let used: Option<(u64, usize)> = match &e {
                        Ev::NewSpan { mt, .. } => delta.iter().find(|l| l.starts_with("c new ")).and_then(|l| l.split(' ').nth(3)).and_then(|m| m[1..].parse().ok()).map(|i| (*mt, i)),
                        Ev::NewEvent { mt, .. } => delta.iter().find(|l| l.starts_with("c evt ")).and_then(|l| l.split(' ').nth(2)).and_then(|m| m[1..].parse().ok()).map(|i| (*mt, i)),
                        _ => None,
                    };
                    if let Some((mt, idx)) = used {
                        if let Some(site) = sys.spec.known.get(&mt) {
                            let real = crate::hosts::meta_site(idx).map(|s| s.tok());
                            if real.as_deref() != Some(site.tok().as_str()) {
                                rr.out.fails.push(format!("C09 metadata m{idx} presented for call site {mt} has content `{}`, announced `{}`", real.unwrap_or_default(), site.tok()));
                            }
                            for (other, desc) in &c09_seen {
                                if *other != idx && *desc == site.tok() {
                                    rr.out.fails.push(format!("C09 equal call-site descriptions resolved to different metadata objects m{other} and m{idx}"));
                                }
                            }
                            c09_seen.insert(idx, site.tok());
                        }
                    }
                }
                if matches!(res, Ok(Ok(()))) && reasons.is_empty() && !wild {
                    // presentation bookkeeping (C03, C08)
                    let st = sys.host.state.lock().unwrap();
                    let news: Vec<_> = st.news[news_before..].to_vec();
                    let closes: Vec<u64> = st.closes[closes_before..].to_vec();
                    drop(st);
                    for (hid, tag, midx, vals) in &news {
                        let Some(g) = tag else { continue };
                        if !sys.presented.insert(*g) {
                            fail!("C03 guest span {g} presented to the host more than once since the local map was last lost (host span h{hid})");
                        }
                        if sys.has_host.contains_key(g) {
                            fail!("C08 guest span {g} already has host span h{} but a second one (h{hid}) was created", sys.has_host[g]);
                        }
                        sys.has_host.insert(*g, *hid);
                        let _ = midx;
                        // content: call site and values
                        let (site, stored): (Option<&Site>, Entries) = match &e {
                            Ev::NewSpan { mt, values, .. } => (sys.spec.known.get(mt), values.clone()),
                            _ => {
                                n_restored_presentations += 1;
                                let row = sys.spec.alive.get(g);
                                (row.and_then(|r| sys.spec.known.get(&r.mt)), row.map(|r| r.values.clone()).unwrap_or_default())
                            }
                        };
                        if let Some(site) = site {
                            let want = spec::applicable(site, &stored);
                            // `new` carries the first <= 32, later `rec` calls (before any `ent`) the rest
                            let mut got: Vec<String> = vec![];
                            let mut push = |vals: &str| {
                                let toks: Vec<&str> = vals.split(' ').collect();
                                for pair in toks[1..].chunks(2) {
                                    got.push(pair.join(" "));
                                }
                            };
                            push(vals);
                            for l in &delta {
                                if let Some(rest) = l.strip_prefix(&format!("c rec h{hid} ")) {
                                    if !matches!(e, Ev::Recorded { .. }) {
                                        push(rest);
                                    }
                                }
                            }
                            if got != want {
                                fail!("C03 host span for guest {g} created with values [{}], expected the latest value of every recorded field [{}]", got.join(", "), want.join(", "));
                            }
                            let reg_site = delta.iter().chain(rr.out.obs.iter()).find_map(|l| l.strip_prefix(&format!("c reg m{midx} ")).map(str::to_owned));
                            if let Some(rs) = reg_site {
                                if rs != site.tok() {
                                    fail!("C09 metadata m{midx} registered as `{rs}` but the announced call site is `{}`", site.tok());
                                }
                            }
                        }
                    }
                    if let Ev::Entered(g) = &e {
                        match sys.has_host.get(g) {
                            Some(h) => {
                                if !delta.iter().any(|l| *l == format!("c ent h{h}")) {
                                    fail!("C03 entering guest span {g} did not enter its host span h{h}: {}", delta.join(" ; "));
                                    let enabled = sys.spec.alive.get(g).and_then(|r| sys.spec.known.get(&r.mt)).map_or(false, |site| max_level.map_or(false, |m| site.level <= m));
                                    if enabled {
                                        fail!("C13 a span the host enables lost its enter history: entering guest span {g} did not enter host span h{h}");
                                    }
                                }
                            }
                            None => fail!("C03 guest span {g} entered but no host span was presented for it"),
                        }
                    }
                    if let Ev::Dropped(g) = &e {
                        let last = sys.spec.alive.get(g).map_or(false, |r| r.rc == 1);
                        match (last, sys.has_host.get(g).copied()) {
                            (true, Some(h)) => {
                                if sys.spec.entered.get(g).copied().unwrap_or(0) > 0 {
                                    sys.orphaned.insert(h);
                                }
                                if closes != vec![h] {
                                    fail!("C08 last handle of guest span {g} dropped: expected exactly one close of h{h}, host saw closes {closes:?}");
                                }
                                sys.has_host.remove(g);
                            }
                            _ => {
                                if !closes.is_empty() {
                                    fail!("C08 drop of guest span {g} (not its last handle, or no host span) closed host spans {closes:?}");
                                }
                            }
                        }
                    } else if !closes.is_empty() {
                        fail!("C08 event `{}` closed host spans {closes:?}", e.tok());
                    }
                    if let Ev::NewSpan { id, .. } = &e {
                        sys.born.insert(*id);
                    }
                    sys.spec.step(&e);
                    if let Ev::Dropped(g) = &e {
                        if !sys.spec.alive.contains_key(g) {
                            sys.born.remove(g);
                            sys.presented.remove(g);
                        }
                    }
                }
            }
            Some("h") => {
                let op = t.next().unwrap_or("");
                let mode = t.next().unwrap_or("");
                let recv = sys.recv.take().expect("receiver alive");
                let closes_before = sys.host.state.lock().unwrap().closes.len();
                let entered_now = sys.spec.entered.values().sum::<usize>();
                match op {
                    "persist" => {
                        if !sys.spec.alive.is_empty() {
                            n_cuts_with_alive += 1;
                        }
                        if !sys.spec.quiescent() {
                            rr.cut_nonquiescent = true;
                            n_entered_at_abort += 1;
                        }
                        let (pm_text, ps_text, local, pm_api, ps_api) = dispatcher::with_default(&sys.dispatch, || {
                            let pm = recv.persist_metadata();
                            let (ps, local) = recv.persist();
                            // the same state seen through the accessors (len / is_empty / iter)
                            let mut rows: Vec<(u64, Site)> = pm.iter().map(|(id, d)| (id, Site::from_real(d))).collect();
                            rows.sort_by_key(|r| r.0);
                            let pm_api = (pm.len(), pm.is_empty(), format!("pm {}", wire::meta_tok(&rows)));
                            let ps_api = (ps.len(), ps.is_empty());
                            (serde_json::to_string(&pm).unwrap(), serde_json::to_string(&ps).unwrap(), local, pm_api, ps_api)
                        });
                        {
                            let n_pm = pm_line(&pm_text);
                            let n_sites = json::parse(&pm_text).ok().and_then(|t| wire::meta_rows(&t)).map_or(0, |r| r.len());
                            let n_spans = json::parse(&ps_text).ok().and_then(|t| wire::spans_rows(&t)).map_or(0, |r| r.len());
                            if pm_api.2 != n_pm || pm_api.0 != n_sites || pm_api.1 != (n_sites == 0) {
                                fail!("C09 persisted metadata read through iter()/len()/is_empty() (`{}`, {}, {}) differs from its encoding `{n_pm}`", pm_api.2, pm_api.0, pm_api.1);
                            }
                            if ps_api.0 != n_spans || ps_api.1 != (n_spans == 0) {
                                fail!("C02 persisted spans report len {} / is_empty {} but encode {n_spans} spans", ps_api.0, ps_api.1);
                            }
                        }
                        {
                            // C08: the host spans this chain created and has not closed are exactly the
                            // ones the local span map still refers to (nothing leaked, nothing stale)
                            let st = sys.host.state.lock().unwrap();
                            let open: std::collections::BTreeSet<u64> = st.news.iter().map(|n| n.0).filter(|h| !st.closed.contains(h) && !sys.forgotten.contains(h)).collect();
                            drop(st);
                            let mapped: std::collections::BTreeSet<u64> = local.verif_entries().into_iter().map(|e| e.1).collect();
                            if open != mapped {
                                let leaked: Vec<u64> = open.difference(&mapped).copied().collect();
                                let stale: Vec<u64> = mapped.difference(&open).copied().collect();
                                fail!("C08 at persist: host spans {leaked:?} are open but the local span map does not refer to them (leaked); the map refers to {stale:?} which are closed or were never issued to this chain");
                            }
                        }
                        let mut delta = sys.host.take_log();
                        delta.sort();
                        rr.out.obs.extend(delta.iter().cloned());
                        rr.host_log_full.extend(delta.iter().cloned());
                        if sys.spec.quiescent() && !wild && !delta.is_empty() {
                            // C02: a cut where no guest span is entered is invisible to the host, so
                            // persisting there makes no host call at all
                            fail!("C02 persisting at a point where no guest span is entered made host calls: {}", delta.join(" ; "));
                        }
                        let sk = sys.host.state.lock().unwrap().stack_line();
                        rr.out.obs.push(sk);
                        let (pml, psl) = (pm_line(&pm_text), ps_line(&ps_text));
                        rr.out.obs.push(pml.clone());
                        rr.out.obs.push(psl.clone());
                        rr.persisted.push(pml.clone());
                        rr.persisted.push(psl.clone());
                        // C04: context restored, nothing closed
                        let stack_now = sys.host.state.lock().unwrap().stack.clone();
                        if stack_now != sys.lifetime_stack {
                            let rest: Vec<(u64, bool)> = stack_now.iter().filter(|e| !sys.orphaned.contains(&e.0)).copied().collect();
                            if rest == sys.lifetime_stack {
                                fail!("C04 after persist host span(s) {:?} are still entered: the guest dropped their last handle while they were entered, and the receiver forgot that it had entered them [last-handle-dropped-while-entered]", sys.orphaned);
                            } else {
                                fail!("C04 after persist the host span stack is {:?}, it was {:?} before this receiver processed anything ({} enters outstanding)", stack_now, sys.lifetime_stack, entered_now);
                            }
                        }
                        sys.orphaned.clear();
                        let closes: Vec<u64> = sys.host.state.lock().unwrap().closes[closes_before..].to_vec();
                        if !closes.is_empty() {
                            fail!("C04 persist closed host spans {closes:?}");
                        }
                        // C02: persisted state is the reference bookkeeping
                        if psl != expected_ps(&sys.spec) {
                            fail!("C02 persisted spans `{psl}` differ from the guest history's alive spans `{}`", expected_ps(&sys.spec));
                        }
                        if pml != expected_pm(&sys.spec) {
                            fail!("C02 persisted metadata `{pml}` differs from the announced call sites `{}`", expected_pm(&sys.spec));
                        }
                        // C04 retry clause: seg; discard; seg; persist  ==  seg; persist
                        if let Some((dstart, seg)) = discarded.take() {
                            let again: Vec<String> = lines[seg_start..i].to_vec();
                            if oracles && !poisoned && again == seg {
                                let mut alt: Vec<String> = lines[..dstart].to_vec();
                                alt.extend(seg.iter().cloned());
                                alt.push(line.clone());
                                let ar = run_lines(&alt, false);
                                let n = seg.iter().filter(|l| l.starts_with("ev ")).count();
                                let mine = &rr.results[rr.results.len() - n..];
                                let theirs = &ar.results[ar.results.len() - n..];
                                if mine != theirs {
                                    fail!("C04 retry after discard: acceptance results {:?} differ from the run without the discard {:?}", mine, theirs);
                                }
                                let k = ar.persisted.len();
                                if k >= 2 && (ar.persisted[k - 2] != pml || ar.persisted[k - 1] != psl) {
                                    fail!("C04 retry after discard: final persisted state `{pml}` / `{psl}` differs from the run without the discard `{}` / `{}`", ar.persisted[k - 2], ar.persisted[k - 1]);
                                }
                                rr.out.tags.push("retry-compared".into());
                            }
                        }
                        let prev = (sys.spec_persisted.clone(), sys.last_pm.clone(), sys.last_ps.clone());
                        sys.spec_persisted = sys.spec.clone();
                        sys.last_pm = pm_text.clone();
                        sys.last_ps = ps_text.clone();
                        let (pm_text, ps_text) = if mode == "stale" { (prev.1.clone(), prev.2.clone()) } else { (pm_text, ps_text) };
                        let mut pm: PersistedMetadata = serde_json::from_str(&pm_text).expect("metadata round trip");
                        // every other restore decodes from a reader rather than from the text in memory (a
                        // decoder must not rely on borrowing from its input); not through `serde_json::Value`:
                        // its maps are sorted by key, which is not a lossless carrier for ordered value sets
                        let ps: PersistedSpans = if ps_text.len() % 2 == 0 {
                            serde_json::from_str(&ps_text).expect("spans round trip")
                        } else {
                            serde_json::from_reader(ps_text.as_bytes()).expect("spans round trip (from a reader)")
                        };
                        let cold = mode.strip_prefix("cold:");
                        if let Some(nonce) = cold {
                            // "cold start": the state is brought up in a process that has never seen these
                            // call sites (their names get a fresh suffix) and *before* the host is installed
                            let mut tree: serde_json::Value = serde_json::from_str(&pm_text).expect("metadata JSON");
                            if let Some(map) = tree.as_object_mut() {
                                for (_, site) in map.iter_mut() {
                                    if let Some(name) = site.get("name").and_then(|n| n.as_str()).map(str::to_owned) {
                                        site["name"] = serde_json::Value::String(format!("{name}#{nonce}"));
                                    }
                                }
                            }
                            pm = serde_json::from_value(tree).expect("renamed metadata decodes");
                            for site in sys.spec.known.values_mut() {
                                site.name = format!("{}#{nonce}", site.name);
                            }
                            sys.spec_persisted = sys.spec.clone();
                            sys.last_pm = serde_json::to_string(&pm).unwrap();
                        }
                        match mode {
                            "keep" => {}
                            "stale" => {
                                // what this receiver persisted is lost: the next one starts from the state of
                                // the previous persist, with the local span map of this one. The span state
                                // and the map no longer belong together, so only the claims made for every
                                // history remain (C07, C08: no misuse of host ids, nothing leaked)
                                (sys.spec_persisted, sys.last_pm, sys.last_ps) = prev.clone();
                                sys.spec = sys.spec_persisted.clone();
                                sys.map_lost = true; // (the "completed execution leaves nothing open" clause needs a map that belongs to the state)
                                if !wild {
                                    wild = true;
                                    rr.out.tags.push("wild:stale-restore".into());
                                }
                            }
                            m if m.starts_with("cold:") => {
                                {
                                    let st = sys.host.state.lock().unwrap();
                                    let open: Vec<u64> = st.news.iter().map(|n| n.0).filter(|h| !st.closed.contains(h)).collect();
                                    drop(st);
                                    sys.forgotten.extend(open);
                                }
                                had_loss = true;
                                sys.map_lost = true;
                                sys.has_host.clear();
                                sys.presented.clear();
                            }
                            "lose" => {
                                {
                                    let st = sys.host.state.lock().unwrap();
                                    let open: Vec<u64> = st.news.iter().map(|n| n.0).filter(|h| !st.closed.contains(h)).collect();
                                    drop(st);
                                    sys.forgotten.extend(open);
                                }
                                had_loss = true;
                                sys.map_lost = true;
                                sys.has_host.clear();
                                sys.presented.clear();
                            }
                            "losenew" => {
                                had_loss = true;
                                sys.map_lost = true;
                                sys.has_host.clear();
                                sys.presented.clear();
                                sys.host = StrictHost::new(max_level);
                                sys.forgotten.clear();
                                sys.dispatch = Dispatch::new(sys.host.clone());
                            }
                            _ => rr.out.obs.push("bad-op".into()),
                        }
                        let local = if mode == "keep" || mode == "stale" { local } else { LocalSpans::default() };
                        sys.recv = Some(if cold.is_some() {
                            // no host installed yet. The receiver interns the fresh descriptions in its map's
                            // iteration order; the harness numbers the new metadata objects afterwards in
                            // ascending order of the (smallest) call-site id they stand for, as the driver does
                            let sink = crate::hosts::NoHostYet::default();
                            note_restored(&pm);
                            let r = dispatcher::with_default(&Dispatch::new(sink.clone()), || TracingEventReceiver::new(pm, ps, local));
                            let mut fresh: Vec<(u64, &'static tracing_core::Metadata<'static>)> = sink
                                .seen
                                .lock()
                                .unwrap()
                                .iter()
                                .map(|m| {
                                    let site = Site::from_metadata(m);
                                    (sys.spec.known.iter().find(|(_, s)| **s == site).map_or(u64::MAX, |(id, _)| *id), *m)
                                })
                                .collect();
                            fresh.sort_by_key(|e| e.0);
                            for (_, m) in fresh {
                                let _ = crate::hosts::meta_index(m);
                            }
                            r
                        } else {
                            note_restored(&pm);
                            dispatcher::with_default(&sys.dispatch, || TracingEventReceiver::new(pm, ps, local))
                        });
                        rr.out.obs.extend(sys.host.take_log());
                        sys.born.clear();
                        sys.lifetime_stack = sys.host.state.lock().unwrap().stack.clone();
                        seg_start = i + 1;
                        rr.out.tags.push(format!("persist:{}", if cold.is_some() { "cold" } else { mode }));
                    }
                    "discard" | "drop" => {
                        if entered_now > 0 {
                            n_entered_at_abort += 1;
                        }
                        n_drops += 1;
                        if n_drops % 2 == 0 {
                            // the receiver goes away while its thread unwinds (the host panicked after the
                            // guest aborted): the rollback must happen all the same
                            let _ = catch_unwind(AssertUnwindSafe(|| {
                                dispatcher::with_default(&sys.dispatch, || {
                                    let _recv = recv;
                                    panic!("host gives up on the execution");
                                })
                            }));
                        } else {
                            dispatcher::with_default(&sys.dispatch, || drop(recv));
                        }
                        let mut delta = sys.host.take_log();
                        delta.sort();
                        rr.out.obs.extend(delta.iter().cloned());
                        rr.host_log_full.extend(delta.iter().cloned());
                        let sk = sys.host.state.lock().unwrap().stack_line();
                        rr.out.obs.push(sk);
                        let stack_now = sys.host.state.lock().unwrap().stack.clone();
                        if stack_now != sys.lifetime_stack {
                            let rest: Vec<(u64, bool)> = stack_now.iter().filter(|e| !sys.orphaned.contains(&e.0)).copied().collect();
                            if rest == sys.lifetime_stack {
                                fail!("C04 after drop host span(s) {:?} are still entered: the guest dropped their last handle while they were entered, and the receiver forgot that it had entered them [last-handle-dropped-while-entered]", sys.orphaned);
                            } else {
                                fail!("C04 after drop the host span stack is {:?}, it was {:?} before this receiver processed anything ({} enters outstanding)", stack_now, sys.lifetime_stack, entered_now);
                            }
                        }
                        sys.orphaned.clear();
                        let mut closes: Vec<u64> = sys.host.state.lock().unwrap().closes[closes_before..].to_vec();
                        closes.sort_unstable();
                        let mut want: Vec<u64> = sys.born.iter().filter(|g| sys.spec.alive.contains_key(g)).filter_map(|g| sys.has_host.get(g).copied()).collect();
                        want.sort_unstable();
                        if closes != want {
                            fail!("C04 dropping without persisting closed host spans {closes:?}; the spans born in this lifetime and still alive are {want:?}");
                            let leaked: Vec<u64> = want.iter().filter(|h| !closes.contains(h)).copied().collect();
                            if !leaked.is_empty() && !wild {
                                fail!("C08 host spans {leaked:?}, created for guest spans of the discarded lifetime, are left open with nothing referring to them (leaked)");
                            }
                        }
                        {
                            // whatever is still open now has lost its local map entry (the map dies with the receiver)
                            let st = sys.host.state.lock().unwrap();
                            let open: Vec<u64> = st.news.iter().map(|n| n.0).filter(|h| !st.closed.contains(h)).collect();
                            drop(st);
                            sys.forgotten.extend(open);
                        }
                        if op == "discard" {
                            discarded = Some((seg_start, lines[seg_start..i].to_vec()));
                            had_discard = true;
                            sys.spec = sys.spec_persisted.clone();
                            sys.has_host.clear();
                            sys.presented.clear();
                            sys.born.clear();
                            had_loss = true;
                            sys.map_lost = true;
                            let pm: PersistedMetadata = serde_json::from_str(&sys.last_pm).unwrap();
                            let ps: PersistedSpans = serde_json::from_str(&sys.last_ps).unwrap();
                            note_restored(&pm);
                            sys.recv = Some(dispatcher::with_default(&sys.dispatch, || TracingEventReceiver::new(pm, ps, LocalSpans::default())));
                            rr.out.obs.extend(sys.host.take_log());
                            sys.lifetime_stack = sys.host.state.lock().unwrap().stack.clone();
                            seg_start = i + 1;
                            rr.out.tags.push("discard".into());
                        } else if !is_end {
                            rr.out.obs.push("bad-op".into());
                        }
                    }
                    _ => {
                        sys.recv = Some(recv);
                        rr.out.obs.push("bad-op".into());
                    }
                }
            }
            Some(_) => rr.out.obs.push("bad-op".into()),
            None => {}
        }
        // C08: the strict host flags any misuse of ids
        let misuse: Vec<String> = std::mem::take(&mut sys.host.state.lock().unwrap().misuse);
        if let Some(m) = misuse.first() {
            fail!("C08 host id misuse after `{line}`: {m}");
        }
        if let Some(f) = crate::hosts::take_callsite_flaws().first() {
            fail!("C09 after `{line}`: {f}");
        }
        i += 1;
    }

    if oracles && !poisoned {
        // C08: complete run with the map preserved leaves no host span open
        if !sys.map_lost && sys.spec.alive.is_empty() {
            let open: Vec<u64> = sys.host.state.lock().unwrap().open_spans().into_iter().filter(|h| !sys.lifetime_stack.iter().any(|e| e.0 == *h)).collect();
            let base: HashSet<u64> = rr.out.obs.iter().filter_map(|l| l.strip_prefix("c base h").and_then(|h| h.parse().ok())).collect();
            let open: Vec<u64> = open.into_iter().filter(|h| !base.contains(h)).collect();
            if !open.is_empty() {
                rr.out.fails.push(format!("C08 every guest span was dropped and the local map was preserved, yet host spans {open:?} are still open"));
            }
        }
        // C07: the stream without the rejected events gives the same host observation and state
        if !rr.rejected.is_empty() {
            let filtered: Vec<String> = lines.iter().enumerate().filter(|(k, _)| !rr.rejected.contains(k)).map(|(_, l)| l.clone()).collect();
            let fr = run_lines(&filtered, false);
            if fr.host_log_full != rr.host_log_full {
                let k = fr.host_log_full.iter().zip(&rr.host_log_full).position(|(a, b)| a != b).unwrap_or(fr.host_log_full.len().min(rr.host_log_full.len()));
                rr.out.fails.push(format!("C07 host observation differs from the stream without the rejected events at call #{k}: `{}` vs `{}`", rr.host_log_full.get(k).map_or("<end>", String::as_str), fr.host_log_full.get(k).map_or("<end>", String::as_str)));
            }
            if fr.persisted != rr.persisted {
                rr.out.fails.push("C07 persisted state differs from the stream without the rejected events".into());
            }
        }
        // C02: quiescent cuts with the map kept are invisible
        let keeps: Vec<usize> = lines.iter().enumerate().filter(|(_, l)| *l == "h persist keep").map(|(k, _)| k).collect();
        let only_keeps = !lines.iter().any(|l| l.starts_with("h persist lose") || l == "h discard");
        if !keeps.is_empty() && only_keeps && !rr.cut_nonquiescent {
            let uncut: Vec<String> = lines.iter().filter(|l| *l != "h persist keep").cloned().collect();
            let ur = run_lines(&uncut, false);
            if ur.host_log != rr.host_log {
                let k = ur.host_log.iter().zip(&rr.host_log).position(|(a, b)| a != b).unwrap_or(ur.host_log.len().min(rr.host_log.len()));
                rr.out.fails.push(format!("C02 host observation of the cut run differs from the uncut run at call #{k}: `{}` vs `{}`", rr.host_log.get(k).map_or("<end>", String::as_str), ur.host_log.get(k).map_or("<end>", String::as_str)));
            }
            if ur.results != rr.results {
                rr.out.fails.push("C02 acceptance results of the cut run differ from the uncut run".into());
            }
            rr.out.tags.push("cut-vs-uncut-compared".into());
        }
    }
    let n_ev = lines.iter().filter(|l| l.starts_with("ev ")).count();
    if n_cuts_with_alive > 0 && n_ev >= 4 {
        rr.out.tags.push("nontrivial".into());
        rr.out.tags.push("nt:cut-with-alive-span".into());
    }
    if n_rejected_with_state > 0 {
        rr.out.tags.push("nontrivial".into());
        rr.out.tags.push("nt:reject-with-state".into());
    }
    if n_entered_at_abort > 0 {
        rr.out.tags.push("nt:entered-at-abort".into());
    }
    if n_restored_presentations > 0 {
        rr.out.tags.push("nt:restored-presentation".into());
    }
    rr
}

// ---------------------------------------------------------------------------------------------
// generation

#[derive(Clone, Default)]
struct GSpan {
    mt: u64,
    rc: u64,
    entered: usize,
}

#[derive(Clone, Default)]
struct Guest {
    sites: BTreeMap<u64, Site>,
    spans: BTreeMap<u64, GSpan>,
    next_span: u64,
    /// draw most span ids from a tiny pool, so that ids of dead spans are recycled often
    small_ids: bool,
}

fn site_values(rng: &mut Rng, site: &Site, max: usize) -> Entries {
    let mut es: Entries = vec![];
    let n = site.fields.len().min(max);
    let take = if rng.chance(1, 6) { n } else { rng.range(0, n.min(4)) };
    let start = if site.fields.len() > take { rng.below(site.fields.len() - take + 1) } else { 0 };
    for f in site.fields.iter().skip(start).take(take) {
        if !es.iter().any(|e| &e.0 == f) {
            es.push((f.clone(), gen::small_val(rng)));
        }
    }
    if rng.chance(1, 10) {
        es.push(("not_a_field".into(), Val::Bool(true)));
    }
    // a hand-built value set lists its fields in any order
    if es.len() > 1 && rng.chance(1, 4) {
        if rng.chance(1, 2) {
            es.reverse();
        } else {
            for i in (1..es.len()).rev() {
                let j = rng.below(i + 1);
                es.swap(i, j);
            }
        }
    }
    es
}

fn many_values(n: usize) -> Entries {
    (0..n).map(|i| (format!("f{i}"), Val::UInt(i as u128))).collect()
}

impl Guest {
    fn wf_op(&mut self, rng: &mut Rng, out: &mut Vec<String>, wide: bool) {
        let alive: Vec<u64> = self.spans.keys().copied().collect();
        let push = |out: &mut Vec<String>, e: Ev| out.push(format!("ev {}", e.tok()));
        match rng.below(20) {
            0 | 1 => {
                // announce (new or repeated)
                let id = if !self.sites.is_empty() && rng.chance(1, 3) {
                    *rng.pick(&self.sites.keys().copied().collect::<Vec<_>>())
                } else {
                    1000 + rng.below(12) as u64
                };
                let site = match self.sites.get(&id) {
                    Some(s) => s.clone(),
                    // a second id for a description that is already known (two macros expanded on one
                    // line, a rebuilt guest): both ids stay valid, also after persist / restore
                    None if !self.sites.is_empty() && rng.chance(1, 3) => rng.pick(&self.sites.values().cloned().collect::<Vec<_>>()).clone(),
                    None => gen::site(rng, None, if wide { 64 } else { 6 }),
                };
                self.sites.insert(id, site.clone());
                push(out, Ev::NewCallSite { id, site });
            }
            2..=5 => {
                let span_sites: Vec<u64> = self.sites.iter().filter(|(_, s)| s.is_span).map(|(k, _)| *k).collect();
                if span_sites.is_empty() {
                    let id = 1000 + rng.below(12) as u64;
                    let site = gen::site(rng, Some(true), if wide { 64 } else { 6 });
                    self.sites.insert(id, site.clone());
                    push(out, Ev::NewCallSite { id, site });
                    return;
                }
                let mt = *rng.pick(&span_sites);
                self.next_span += 1;
                // mostly the next id; sometimes any id that is not alive (smaller than earlier ones,
                // recycled after its span died, far away): ids are opaque to the receiver
                let id = if self.small_ids && rng.chance(2, 3) {
                    let mut c = rng.range(1, 5) as u64;
                    while self.spans.contains_key(&c) {
                        c += 1;
                    }
                    c
                } else if rng.chance(1, 4) {
                    let mut c = match rng.below(3) { 0 => rng.range(1, 12) as u64, 1 => 1000 - self.next_span, _ => self.next_span + 50 };
                    while self.spans.contains_key(&c) {
                        c += 1;
                    }
                    c
                } else {
                    let mut c = self.next_span;
                    while self.spans.contains_key(&c) {
                        c += 1;
                    }
                    c
                };
                let parent = if !alive.is_empty() && rng.chance(1, 3) { Some(*rng.pick(&alive)) } else { None };
                let values = site_values(rng, &self.sites[&mt], 32);
                self.spans.insert(id, GSpan { mt, rc: 1, entered: 0 });
                push(out, Ev::NewSpan { id, parent, mt, values });
            }
            6..=8 if !alive.is_empty() => {
                let id = *rng.pick(&alive);
                self.spans.get_mut(&id).unwrap().entered += 1;
                push(out, Ev::Entered(id));
            }
            9..=11 => {
                let entered: Vec<u64> = self.spans.iter().filter(|(_, s)| s.entered > 0).map(|(k, _)| *k).collect();
                if let Some(id) = entered.last().copied().filter(|_| rng.chance(3, 4)).or_else(|| if entered.is_empty() { None } else { Some(*rng.pick(&entered)) }) {
                    self.spans.get_mut(&id).unwrap().entered -= 1;
                    push(out, Ev::Exited(id));
                }
            }
            12 if !alive.is_empty() => {
                let id = *rng.pick(&alive);
                self.spans.get_mut(&id).unwrap().rc += 1;
                push(out, Ev::Cloned(id));
            }
            13 | 14 if !alive.is_empty() => {
                let id = *rng.pick(&alive);
                let s = self.spans.get_mut(&id).unwrap();
                if s.rc > 1 || s.entered == 0 {
                    s.rc -= 1;
                    if s.rc == 0 {
                        self.spans.remove(&id);
                    }
                    push(out, Ev::Dropped(id));
                }
            }
            15 if !alive.is_empty() => {
                let id = *rng.pick(&alive);
                let site = &self.sites[&self.spans[&id].mt];
                let values = site_values(rng, site, 32);
                push(out, Ev::Recorded { id, values });
            }
            16 if alive.len() >= 2 => {
                let a = *rng.pick(&alive);
                let b = *rng.pick(&alive);
                push(out, Ev::FollowsFrom { id: a, follows: b });
            }
            _ => {
                let ev_sites: Vec<u64> = self.sites.iter().filter(|(_, s)| !s.is_span).map(|(k, _)| *k).collect();
                if ev_sites.is_empty() {
                    let id = 2000 + rng.below(6) as u64;
                    let site = gen::site(rng, Some(false), 6);
                    self.sites.insert(id, site.clone());
                    push(out, Ev::NewCallSite { id, site });
                    return;
                }
                let mt = *rng.pick(&ev_sites);
                let parent = if !alive.is_empty() && rng.chance(1, 4) { Some(*rng.pick(&alive)) } else { None };
                let values = site_values(rng, &self.sites[&mt], 32);
                push(out, Ev::NewEvent { mt, parent, values });
            }
        }
    }

    fn invalid_op(&mut self, rng: &mut Rng, out: &mut Vec<String>) {
        let dead = 900 + rng.below(5) as u64;
        let alive: Vec<u64> = self.spans.keys().copied().collect();
        let some_alive = alive.first().copied().unwrap_or(dead);
        let known = self.sites.keys().next().copied().unwrap_or(7777);
        let e = match rng.below(12) {
            0 => Ev::Entered(dead),
            1 => Ev::Exited(dead),
            2 => Ev::Cloned(dead),
            3 => Ev::Dropped(dead),
            4 => Ev::Recorded { id: dead, values: vec![] },
            5 => Ev::FollowsFrom { id: some_alive, follows: dead },
            6 => Ev::FollowsFrom { id: dead, follows: some_alive },
            7 => { self.next_span += 1; while self.spans.contains_key(&self.next_span) { self.next_span += 1; } Ev::NewSpan { id: self.next_span, parent: None, mt: 7000 + rng.below(3) as u64, values: vec![] } }
            8 => { self.next_span += 1; while self.spans.contains_key(&self.next_span) { self.next_span += 1; } Ev::NewSpan { id: self.next_span, parent: Some(dead), mt: known, values: vec![] } }
            9 => { self.next_span += 1; while self.spans.contains_key(&self.next_span) { self.next_span += 1; } Ev::NewSpan { id: self.next_span, parent: None, mt: known, values: many_values(rng.range(33, 40)) } }
            10 => Ev::NewEvent { mt: if rng.chance(1, 2) { 7000 } else { known }, parent: Some(dead), values: many_values(if rng.chance(1, 2) { 33 } else { 0 }) },
            _ => Ev::Recorded { id: some_alive, values: many_values(rng.range(33, 40)) },
        };
        out.push(format!("ev {}", e.tok()));
    }
}

impl Suite for Receiver {
    fn enumerate(&self, tier: Tier, focus: &str) -> Vec<Vec<String>> {
        if !matches!(focus, "C06" | "C07" | "" | "C04" | "C08") {
            return vec![];
        }
        // exhaustive short sequences over a small alphabet: 2 call sites, 2 span ids, value sets 0/33
        let max_len = if tier == Tier::Quick { 3 } else { 5 };
        let s0 = Site { is_span: true, level: 2, name: "s".into(), target: "app".into(), module_path: None, file: None, line: None, fields: vec!["f0".into()] };
        let alphabet: Vec<String> = vec![
            format!("ev {}", Ev::NewCallSite { id: 10, site: s0 }.tok()),
            format!("ev {}", Ev::NewSpan { id: 1, parent: None, mt: 10, values: vec![("f0".into(), Val::Int(1))] }.tok()),
            format!("ev {}", Ev::NewSpan { id: 2, parent: Some(1), mt: 10, values: vec![] }.tok()),
            format!("ev {}", Ev::NewSpan { id: 2, parent: None, mt: 11, values: vec![] }.tok()),
            "ev ent 1".into(),
            "ev ext 1".into(),
            "ev cln 1".into(),
            "ev drp 1".into(),
            "ev ent 2".into(),
            "ev drp 2".into(),
            format!("ev {}", Ev::Recorded { id: 1, values: many_values(33) }.tok()),
            "ev ff 2 1".into(),
            "h persist keep".into(),
            "h persist lose".into(),
            "h discard".into(),
        ];
        let mut out: Vec<Vec<String>> = vec![];
        let mut frontier: Vec<(Vec<String>, HashSet<u64>)> = vec![(vec![], HashSet::new())];
        for _ in 0..max_len {
            let mut next = vec![];
            for (seq, alive) in &frontier {
                for op in &alphabet {
                    // respect the proviso of C06: a span id is not re-announced while alive
                    let mut alive = alive.clone();
                    if let Some(rest) = op.strip_prefix("ev nsp ") {
                        let id: u64 = rest.split(' ').next().unwrap().parse().unwrap();
                        if alive.contains(&id) {
                            continue;
                        }
                        // only a valid announcement makes it alive; being conservative is fine
                        alive.insert(id);
                    }
                    let mut s = seq.clone();
                    s.push(op.clone());
                    next.push((s, alive));
                }
            }
            out.extend(next.iter().map(|n| n.0.clone()));
            frontier = next;
            if out.len() > 250_000 {
                break;
            }
        }
        out
    }

    fn gen(&self, rng: &mut Rng, tier: Tier, idx: usize, focus: &str) -> Vec<String> {
        let mut lines = vec![];
        let long = if tier == Tier::Quick { 40 } else { 160 };
        if focus == "C09" {
            return gen_c09(rng);
        }
        if matches!(focus, "C07" | "C08") && idx % 6 == 5 {
            return gen_unknown_site_after_restore(rng);
        }
        let kind = match focus {
            "C06" => [0, 1, 1, 3][idx % 4],
            "C07" | "C08" => [0, 1, 7, 3, 7][idx % 5],
            "C04" => [0, 2, 2, 4][idx % 4],
            "C02" => [0, 5, 5, 3][idx % 4],
            "C03" => [0, 3, 3][idx % 3],
            "C13" => 8,
            _ => idx % 6,
        };
        if focus == "C04" && idx % 5 == 3 {
            lines.push(format!("regprobe {}", rng.next() % 1_000_000));
        }
        let mut g = Guest::default();
        let mut snap = g.clone();
        let (mut cold_n, mut cold_line) = (0usize, String::new());
        if focus == "C13" {
            g.small_ids = true;
            // a host with a level filter; well-formed streams across kept / lost local maps
            lines.push(format!("host filter {}", rng.below(5)));
        }
        if rng.chance(1, 4) {
            lines.push(format!("host base {}", rng.range(1, 2)));
        }
        let len = rng.range(4, long);
        match kind {
            3 => {
                // accumulated values beyond 32 on a wide call site, restart, re-enter (D4 shape)
                // up to three further batches of 32 after the first value set
                let nf = match rng.below(3) { 0 => rng.range(33, 64), 1 => rng.range(65, 96), _ => rng.range(97, 130) };
                let site = Site { is_span: true, level: 2, name: "wide".into(), target: "app".into(), module_path: None, file: None, line: None, fields: (0..nf).map(|i| format!("f{i}")).collect() };
                lines.push(format!("ev {}", Ev::NewCallSite { id: 50, site }.tok()));
                let first = rng.range(0, 32);
                lines.push(format!("ev {}", Ev::NewSpan { id: 1, parent: None, mt: 50, values: many_values(first) }.tok()));
                let mut have = first;
                while have < nf && rng.chance(9, 10) {
                    let n = if rng.chance(1, 2) { 32.min(nf - have) } else { rng.range(1, 32.min(nf - have)) };
                    lines.push(format!("ev {}", Ev::Recorded { id: 1, values: (have..have + n).map(|i| (format!("f{i}"), Val::Int(i as i128))).collect() }.tok()));
                    have += n;
                }
                lines.push((*rng.pick(&["h persist lose", "h persist losenew", "h persist keep"])).to_owned());
                lines.push("ev ent 1".into());
                lines.push("ev ext 1".into());
                lines.push("ev drp 1".into());
            }
            _ => {
                for k in 0..len {
                    let invalid = (kind == 1 || kind == 7) && rng.chance(1, 5);
                    if kind == 7 && rng.chance(1, 8) && !g.spans.is_empty() {
                        // re-announce an alive span id, possibly with an unknown call site / dead parent
                        let ids: Vec<u64> = g.spans.keys().copied().collect();
                        let id = *rng.pick(&ids);
                        let mt = if rng.chance(1, 2) { 7000 + rng.below(3) as u64 } else { g.sites.keys().next().copied().unwrap_or(7000) };
                        let parent = if rng.chance(1, 3) { Some(900 + rng.below(3) as u64) } else { None };
                        lines.push(format!("ev {}", Ev::NewSpan { id, parent, mt, values: vec![] }.tok()));
                    } else if invalid {
                        g.invalid_op(rng, &mut lines);
                    } else {
                        let wide = kind == 1 && rng.chance(1, 10);
                        g.wf_op(rng, &mut lines, wide);
                    }
                    let cut = match kind {
                        0 | 1 | 7 => rng.chance(1, 8),
                        2 | 4 => rng.chance(1, 6),
                        5 => rng.chance(1, 5),
                        8 => rng.chance(1, 5),
                        _ => false,
                    };
                    if cut && k + 1 < len {
                        let quiescent = g.spans.values().all(|s| s.entered == 0);
                        if quiescent && matches!(kind, 5 | 0) && g.spans.len() >= 2 && rng.chance(1, 2) {
                            // overlapping (non-LIFO) and re-entrant enters that are all matched again
                            // right before the cut: the cut must still be invisible
                            let ids: Vec<u64> = g.spans.keys().copied().collect();
                            let (a, b) = (*rng.pick(&ids), *rng.pick(&ids));
                            for e in [Ev::Entered(a), Ev::Entered(b), Ev::Exited(a), Ev::Entered(a), Ev::Exited(b), Ev::Exited(a)] {
                                lines.push(format!("ev {}", e.tok()));
                            }
                        }
                        let op = match kind {
                            5 => if quiescent { "h persist keep" } else { continue },
                            8 if rng.chance(1, 4) => { cold_n += 1; cold_line = format!("h persist cold:{}x{cold_n}", rng.next() % 1_000_000); cold_line.as_str() }
                            8 => *rng.pick(&["h persist keep", "h persist keep", "h persist lose"]),
                            2 | 4 => *rng.pick(&["h discard", "h persist keep", "h persist lose", "h discard"]),
                            7 if rng.chance(1, 3) => "h persist stale",
                            _ if kind == 0 && rng.chance(1, 10) => { cold_n += 1; cold_line = format!("h persist cold:{}y{cold_n}", rng.next() % 1_000_000); cold_line.as_str() }
                            _ => *rng.pick(&["h persist keep", "h persist keep", "h persist lose", "h persist losenew", "h discard"]),
                        };
                        if op == "h discard" {
                            lines.push(op.into());
                            g = snap.clone();
                            if kind == 4 || rng.chance(1, 2) {
                                // retry the discarded segment verbatim, then commit
                                let seg_start = lines[..lines.len() - 1].iter().rposition(|l| l.starts_with("h ")).map_or(0, |p| p + 1);
                                let seg: Vec<String> = lines[seg_start..lines.len() - 1].iter().filter(|l| !l.starts_with("host ")).cloned().collect();
                                // re-run the generator state over the segment by replaying its effects
                                for l in &seg {
                                    let mut t = Toks::new(l);
                                    t.next();
                                    if let Some(e) = Ev::parse(&mut t) {
                                        g.apply(&e);
                                    }
                                }
                                lines.extend(seg);
                                lines.push("h persist keep".into());
                                snap = g.clone();
                            }
                        } else if op == "h persist stale" {
                            lines.push(op.into());
                            let before = g.clone();
                            g = snap.clone();
                            if rng.chance(1, 2) {
                                // the lost segment is replayed verbatim
                                let seg_start = lines[..lines.len() - 1].iter().rposition(|l| l.starts_with("h ")).map_or(0, |p| p + 1);
                                let seg: Vec<String> = lines[seg_start..lines.len() - 1].iter().filter(|l| !l.starts_with("host ")).cloned().collect();
                                lines.extend(seg);
                                lines.push("h persist keep".into());
                                g = before;
                                snap = g.clone();
                            }
                        } else {
                            lines.push(op.into());
                            snap = g.clone();
                        }
                    }
                }
            }
        }
        lines
    }

    fn run(&self, lines: &[String]) -> Outcome {
        run_lines(lines, true).out
    }
}

/// Out-of-proviso region for C07 / C08 (claimed for every stream): a span whose call site the
/// receiver does not know (re-announced while alive with an unknown call site, then the local map
/// is lost), events on it being rejected, the call site announced later, and an abort.
fn gen_unknown_site_after_restore(rng: &mut Rng) -> Vec<String> {
    let mut lines = vec![];
    let site = gen::site(rng, Some(true), 3);
    let (a, b) = (10u64, 7000 + rng.below(3) as u64);
    lines.push(format!("ev {}", Ev::NewCallSite { id: a, site: site.clone() }.tok()));
    let n = rng.range(1, 3) as u64;
    for id in 1..=n {
        lines.push(format!("ev {}", Ev::NewSpan { id, parent: None, mt: a, values: vec![] }.tok()));
    }
    let victim = rng.range(1, n as usize) as u64;
    for _ in 0..rng.below(3) {
        lines.push(format!("ev ent {victim}"));
        lines.push(format!("ev ext {victim}"));
    }
    lines.push(format!("ev {}", Ev::NewSpan { id: victim, parent: None, mt: b, values: vec![] }.tok()));
    lines.push((*rng.pick(&["h persist lose", "h persist losenew"])).to_owned());
    let mut tail = vec![
        format!("ev ent {victim}"),
        format!("ev {}", Ev::Recorded { id: victim, values: vec![] }.tok()),
        format!("ev {}", Ev::NewCallSite { id: b, site: { let mut s2 = site.clone(); s2.name.push('b'); s2 } }.tok()),
        format!("ev ent {victim}"),
        format!("ev ext {victim}"),
    ];
    if rng.chance(1, 3) {
        tail.swap(0, 1);
    }
    if rng.chance(1, 4) {
        tail.insert(1, format!("ev ent {victim}"));
    }
    lines.extend(tail);
    if rng.chance(1, 2) {
        lines.push("ev ent 1".into());
    }
    lines.push((*rng.pick(&["h persist keep", "h discard", "h persist lose"])).to_owned());
    lines.push(format!("ev drp {victim}"));
    lines
}

/// C09: descriptions differing in exactly one attribute, repeated announcements under different
/// ids and across receivers / restore cycles, each used once so that the metadata object shows.
fn gen_c09(rng: &mut Rng) -> Vec<String> {
    let mut lines = vec![];
    // half of the cases run with the arena's hash degraded to a constant (cfg hook): all
    // descriptions share one bucket and `eq_metadata` alone keeps them apart; their descriptions
    // carry a marker so that they never meet the ones interned under the real hash
    let weak = rng.chance(1, 2);
    if weak {
        lines.push("host weakhash".into());
    }
    let nf = *rng.pick(&[0usize, 3, 8, 64]);
    let base = gen::site(rng, Some(true), nf);
    let mut variants: Vec<Site> = vec![base.clone()];
    let mut v = base.clone(); v.is_span = !v.is_span; variants.push(v);
    let mut v = base.clone(); v.level = (v.level + 1) % 5; variants.push(v);
    let mut v = base.clone(); v.name.push('x'); variants.push(v);
    let mut v = base.clone(); v.name = String::new(); variants.push(v);
    let mut v = base.clone(); v.target.push_str("::x"); variants.push(v);
    let mut v = base.clone(); v.module_path = match v.module_path { Some(_) => None, None => Some(String::new()) }; variants.push(v);
    let mut v = base.clone(); v.file = match v.file { Some(f) => Some(f + "é"), None => Some("f".into()) }; variants.push(v);
    let mut v = base.clone(); v.line = match v.line { Some(l) => Some(l + 1), None => Some(0) }; variants.push(v);
    let mut v = base.clone(); v.fields.push("extra".into()); variants.push(v);
    let mut v = base.clone(); if !v.fields.is_empty() { v.fields.reverse(); } else { v.fields.push(String::new()); } variants.push(v);
    let mut v = base.clone(); if let Some(f) = v.fields.first_mut() { f.push('_'); } else { v.target = "🦀".into(); } variants.push(v);
    if weak {
        for v in &mut variants {
            v.target.push_str("::wk");
        }
    }
    let mut next_id = 100u64;
    let mut span = 0u64;
    let mut kept: Vec<u64> = vec![];
    if rng.chance(1, 10) {
        lines.push(format!("leakprobe {} {}", rng.range(100, 300), if weak { "leakprobe::wk" } else { "leakprobe" }));
    }
    lines.push("stats".into());
    for round in 0..rng.range(2, 4) {
        for site in &variants {
            if rng.chance(1, 3) && round > 0 {
                continue;
            }
            next_id += 1;
            let id = if rng.chance(1, 4) { 100 + rng.below(5) as u64 } else { next_id };
            lines.push(format!("ev {}", Ev::NewCallSite { id, site: site.clone() }.tok()));
            if site.is_span {
                span += 1;
                lines.push(format!("ev {}", Ev::NewSpan { id: span, parent: None, mt: id, values: vec![] }.tok()));
                // some spans stay alive while their call-site id is announced again with another
                // description (a rebuilt guest): the new description replaces the old one all the same
                if rng.chance(1, 3) {
                    kept.push(span);
                } else {
                    lines.push(format!("ev drp {span}"));
                }
            } else {
                lines.push(format!("ev {}", Ev::NewEvent { mt: id, parent: None, values: vec![] }.tok()));
            }
        }
        let drop_before = rng.chance(1, 2);
        if drop_before {
            for s in kept.drain(..) {
                lines.push(format!("ev drp {s}"));
            }
        }
        // (cold = the state is brought up in a process that has never seen these descriptions: every
        // id of the restored metadata is interned in one go, equal descriptions under several ids included)
        let cold = format!("h persist cold:{}c{round}", rng.next() % 1_000_000);
        // (not under the degraded hash: there every new description lengthens the one bucket all cases share)
        let op = if weak || rng.chance(3, 4) { *rng.pick(&["h persist keep", "h persist lose", "h persist losenew", "h discard"]) } else { cold.as_str() };
        lines.push(op.to_owned());
        lines.push("stats".into());
        if op == "h discard" {
            kept.clear(); // (rolled back with the discarded segment)
        }
        for s in kept.drain(..) {
            lines.push(format!("ev drp {s}"));
        }
    }
    lines
}

impl Guest {
    /// Effect of a (valid) event on the generator's view of the guest.
    fn apply(&mut self, e: &Ev) {
        match e {
            Ev::NewCallSite { id, site } => {
                self.sites.insert(*id, site.clone());
            }
            Ev::NewSpan { id, mt, .. } => {
                if self.sites.contains_key(mt) {
                    self.spans.insert(*id, GSpan { mt: *mt, rc: 1, entered: 0 });
                    self.next_span = self.next_span.max(*id);
                }
            }
            Ev::Entered(id) => {
                if let Some(s) = self.spans.get_mut(id) {
                    s.entered += 1;
                }
            }
            Ev::Exited(id) => {
                if let Some(s) = self.spans.get_mut(id) {
                    s.entered = s.entered.saturating_sub(1);
                }
            }
            Ev::Cloned(id) => {
                if let Some(s) = self.spans.get_mut(id) {
                    s.rc += 1;
                }
            }
            Ev::Dropped(id) => {
                if let Some(s) = self.spans.get_mut(id) {
                    s.rc -= 1;
                    if s.rc == 0 {
                        self.spans.remove(id);
                    }
                }
            }
            _ => {}
        }
    }
}
