//! Suite `wire` (C11): serde encoding of events, persisted spans and persisted metadata.

use tracing_tunnel::{PersistedMetadata, PersistedSpans, TracingEvent};

use super::{Outcome, Suite, Tier};
use crate::{
    gen,
    json::{self, J},
    proto::{entries_tok, opt_num, Entries, Ev, Site, Toks, Val, LEVELS},
    rng::Rng,
};

pub struct Wire;

pub type SpanRow = (u64, u64, Option<u64>, u64, Entries);

// ---- harness-side reference encoding (used to *build* documents; the real encoder is compared
// ---- with the Lean model, not with this)

fn num(n: impl ToString) -> J {
    J::Int(n.to_string())
}

fn site_fields(s: &Site) -> Vec<(String, J)> {
    let mut f = vec![
        ("kind".to_owned(), J::Str(if s.is_span { "span" } else { "event" }.into())),
        ("name".to_owned(), J::Str(s.name.clone())),
        ("target".to_owned(), J::Str(s.target.clone())),
        ("level".to_owned(), J::Str(LEVELS[s.level as usize].into())),
    ];
    if let Some(m) = &s.module_path {
        f.push(("module_path".into(), J::Str(m.clone())));
    }
    if let Some(m) = &s.file {
        f.push(("file".into(), J::Str(m.clone())));
    }
    if let Some(l) = s.line {
        f.push(("line".into(), num(l)));
    }
    f.push(("fields".into(), J::Arr(s.fields.iter().map(|x| J::Str(x.clone())).collect())));
    f
}

fn ev_tree(e: &Ev) -> J {
    let (tag, fields): (&str, Vec<(String, J)>) = match e {
        Ev::NewCallSite { id, site } => {
            let mut f = vec![("id".to_owned(), num(id))];
            f.extend(site_fields(site));
            ("new_call_site", f)
        }
        Ev::NewSpan { id, parent, mt, values } => {
            let mut f = vec![("id".to_owned(), num(id))];
            if let Some(p) = parent {
                f.push(("parent_id".into(), num(p)));
            }
            f.push(("metadata_id".into(), num(mt)));
            f.push(("values".into(), json::entries_tree(values)));
            ("new_span", f)
        }
        Ev::FollowsFrom { id, follows } => ("follows_from", vec![("id".into(), num(id)), ("follows_from".into(), num(follows))]),
        Ev::Entered(id) => ("span_entered", vec![("id".into(), num(id))]),
        Ev::Exited(id) => ("span_exited", vec![("id".into(), num(id))]),
        Ev::Cloned(id) => ("span_cloned", vec![("id".into(), num(id))]),
        Ev::Dropped(id) => ("span_dropped", vec![("id".into(), num(id))]),
        Ev::Recorded { id, values } => ("values_recorded", vec![("id".into(), num(id)), ("values".into(), json::entries_tree(values))]),
        Ev::NewEvent { mt, parent, values } => {
            let mut f = vec![("metadata_id".to_owned(), num(mt))];
            if let Some(p) = parent {
                f.push(("parent".into(), num(p)));
            }
            f.push(("values".into(), json::entries_tree(values)));
            ("new_event", f)
        }
    };
    J::Obj(vec![(tag.into(), J::Obj(fields))])
}

fn spans_tree(rows: &[SpanRow]) -> J {
    J::Obj(
        rows.iter()
            .map(|(id, mt, parent, rc, values)| {
                let mut f = vec![("metadata_id".to_owned(), num(mt))];
                if let Some(p) = parent {
                    f.push(("parent_id".into(), num(p)));
                }
                f.push(("ref_count".into(), num(rc)));
                f.push(("values".into(), json::entries_tree(values)));
                (id.to_string(), J::Obj(f))
            })
            .collect(),
    )
}

fn meta_tree(rows: &[(u64, Site)]) -> J {
    J::Obj(rows.iter().map(|(id, s)| (id.to_string(), J::Obj(site_fields(s)))).collect())
}

// ---- harness-side reading of a tree into mirror rows (for printing what the real code decoded)

fn get<'a>(kvs: &'a [(String, J)], k: &str) -> Option<&'a J> {
    kvs.iter().find(|kv| kv.0 == k).map(|kv| &kv.1)
}
fn as_u64(j: &J) -> Option<u64> {
    if let J::Int(t) = j { t.parse().ok() } else { None }
}
fn as_str(j: &J) -> Option<String> {
    if let J::Str(s) = j { Some(s.clone()) } else { None }
}
fn val_of(j: &J) -> Option<Val> {
    let J::Obj(kvs) = j else { return None };
    let (k, v) = kvs.first()?;
    Some(match (k.as_str(), v) {
        ("bool", J::Bool(b)) => Val::Bool(*b),
        ("int", J::Int(t)) => Val::Int(t.parse().ok()?),
        ("u_int", J::Int(t)) => Val::UInt(t.parse().ok()?),
        ("float", J::Float(b)) => Val::Float(*b),
        ("string", J::Str(s)) => Val::Str(s.clone()),
        ("object", J::Str(s)) => Val::Obj(s.clone()),
        ("error", e) => {
            let mut chain = vec![];
            let mut cur = e;
            loop {
                let J::Obj(f) = cur else { return None };
                chain.push(as_str(get(f, "message")?)?);
                match get(f, "source") {
                    Some(J::Null) | None => break,
                    Some(next) => cur = next,
                }
            }
            Val::Err(chain)
        }
        _ => return None,
    })
}
fn entries_of(j: &J) -> Option<Entries> {
    let J::Obj(kvs) = j else { return None };
    kvs.iter().map(|(k, v)| Some((k.clone(), val_of(v)?))).collect()
}
fn site_of(kvs: &[(String, J)]) -> Option<Site> {
    Some(Site {
        is_span: as_str(get(kvs, "kind")?)? == "span",
        level: LEVELS.iter().position(|l| Some((*l).to_owned()) == as_str(get(kvs, "level").unwrap_or(&J::Null)))? as u8,
        name: as_str(get(kvs, "name")?)?,
        target: as_str(get(kvs, "target")?)?,
        module_path: get(kvs, "module_path").and_then(as_str),
        file: get(kvs, "file").and_then(as_str),
        line: get(kvs, "line").and_then(as_u64).map(|l| l as u32),
        fields: if let J::Arr(xs) = get(kvs, "fields")? { xs.iter().map(as_str).collect::<Option<_>>()? } else { return None },
    })
}
pub fn spans_rows(j: &J) -> Option<Vec<SpanRow>> {
    let J::Obj(kvs) = j else { return None };
    let mut rows: Vec<SpanRow> = kvs
        .iter()
        .map(|(k, v)| {
            let J::Obj(f) = v else { return None };
            Some((k.parse().ok()?, as_u64(get(f, "metadata_id")?)?, get(f, "parent_id").and_then(as_u64), as_u64(get(f, "ref_count")?)?, entries_of(get(f, "values")?)?))
        })
        .collect::<Option<_>>()?;
    rows.sort_by_key(|r| r.0);
    Some(rows)
}
pub fn meta_rows(j: &J) -> Option<Vec<(u64, Site)>> {
    let J::Obj(kvs) = j else { return None };
    let mut rows: Vec<(u64, Site)> = kvs
        .iter()
        .map(|(k, v)| {
            let J::Obj(f) = v else { return None };
            Some((k.parse().ok()?, site_of(f)?))
        })
        .collect::<Option<_>>()?;
    rows.sort_by_key(|r| r.0);
    Some(rows)
}
pub fn spans_tok(rows: &[SpanRow]) -> String {
    let mut s = rows.len().to_string();
    for (id, mt, parent, rc, values) in rows {
        s.push_str(&format!(" {id} {mt} {} {rc} {}", opt_num(*parent), entries_tok(values)));
    }
    s
}
pub fn meta_tok(rows: &[(u64, Site)]) -> String {
    let mut s = rows.len().to_string();
    for (id, site) in rows {
        s.push_str(&format!(" {id} {}", site.tok()));
    }
    s
}
fn parse_spans(t: &mut Toks<'_>) -> Option<Vec<SpanRow>> {
    let n: usize = t.num()?;
    (0..n).map(|_| Some((t.num()?, t.num()?, t.opt_num()?, t.num()?, t.entries()?))).collect()
}
fn parse_meta(t: &mut Toks<'_>) -> Option<Vec<(u64, Site)>> {
    let n: usize = t.num()?;
    (0..n).map(|_| Some((t.num()?, Site::parse(t)?))).collect()
}

/// Shuffles the fields of struct-like objects (never the entries of a `values` map).
fn permute(j: &J, rng: &mut Rng, inside_values: bool) -> J {
    match j {
        J::Obj(kvs) => {
            let mut out: Vec<(String, J)> = kvs.iter().map(|(k, v)| (k.clone(), permute(v, rng, k == "values"))).collect();
            let is_tagged_value = inside_values; // entries of `values`: keep order
            if !is_tagged_value && out.len() > 1 {
                for i in (1..out.len()).rev() {
                    out.swap(i, rng.below(i + 1));
                }
            }
            J::Obj(out)
        }
        other => other.clone(),
    }
}

/// A malformed variant of a document: a dropped field, a wrongly typed field, an unknown variant
/// tag, a duplicated struct field, an unknown extra field, an out-of-range number.
fn malform(j: &J, rng: &mut Rng) -> J {
    let J::Obj(top) = j else { return J::Null };
    let Some((tag, J::Obj(fields))) = top.first().cloned() else { return J::Arr(vec![]) };
    let mut fields = fields;
    let mut tag = tag;
    match rng.below(8) {
        0 if !fields.is_empty() => {
            fields.remove(rng.below(fields.len()));
        }
        1 if !fields.is_empty() => {
            let i = rng.below(fields.len());
            fields[i].1 = match &fields[i].1 {
                J::Int(_) => J::Str("7".into()),
                J::Str(_) => J::Int("7".into()),
                J::Obj(_) => J::Arr(vec![]),
                _ => J::Null,
            };
        }
        2 => tag = format!("{tag}_x"),
        3 if !fields.is_empty() => {
            let i = rng.below(fields.len());
            let dup = fields[i].clone();
            fields.push(dup);
        }
        4 => fields.push(("unknown_field".into(), J::Int("1".into()))),
        5 if !fields.is_empty() => {
            let i = rng.below(fields.len());
            if let J::Int(_) = fields[i].1 {
                fields[i].1 = J::Int(if rng.chance(1, 2) { "-1".into() } else { "18446744073709551616".into() });
            }
        }
        6 if !fields.is_empty() => {
            let i = rng.below(fields.len());
            if let J::Int(t) = &fields[i].1 {
                if let Ok(v) = t.parse::<f64>() {
                    fields[i].1 = J::Float((v + 0.5).to_bits());
                }
            }
        }
        _ => return J::Obj(vec![(tag.clone(), J::Obj(fields.clone())), ("second_variant".into(), J::Null)]),
    }
    J::Obj(vec![(tag, J::Obj(fields))])
}

fn gen_id(rng: &mut Rng) -> u64 {
    match rng.below(5) {
        0 => 0,
        1 => u64::MAX,
        2 => rng.next(),
        _ => rng.below(50) as u64,
    }
}

fn gen_wire_entries(rng: &mut Rng) -> Entries {
    match rng.below(6) {
        0 => vec![],
        1 => (0..32).map(|i| (format!("f{i}"), gen::val(rng, true))).collect(),
        _ => gen::entries_nodup(rng, 6, false, true),
    }
}

/// Values of a *persisted* span: what accumulated over its creation and later records, so possibly
/// more than the 32 one value set can carry.
fn gen_persisted_entries(rng: &mut Rng) -> Entries {
    if rng.chance(1, 5) {
        (0..rng.range(33, 70)).map(|i| (format!("f{i}"), gen::val(rng, true))).collect()
    } else {
        gen_wire_entries(rng)
    }
}

fn gen_event(rng: &mut Rng) -> Ev {
    match rng.below(9) {
        0 => Ev::NewCallSite { id: gen_id(rng), site: gen::site(rng, None, 8) },
        1 => Ev::NewSpan { id: gen_id(rng), parent: if rng.chance(1, 2) { Some(gen_id(rng)) } else { None }, mt: gen_id(rng), values: gen_wire_entries(rng) },
        2 => Ev::FollowsFrom { id: gen_id(rng), follows: gen_id(rng) },
        3 => Ev::Entered(gen_id(rng)),
        4 => Ev::Exited(gen_id(rng)),
        5 => Ev::Cloned(gen_id(rng)),
        6 => Ev::Dropped(gen_id(rng)),
        7 => Ev::Recorded { id: gen_id(rng), values: gen_wire_entries(rng) },
        _ => Ev::NewEvent { mt: gen_id(rng), parent: if rng.chance(1, 2) { Some(gen_id(rng)) } else { None }, values: gen_wire_entries(rng) },
    }
}

impl Suite for Wire {
    fn gen(&self, rng: &mut Rng, _tier: Tier, idx: usize, _focus: &str) -> Vec<String> {
        let mut lines = vec![];
        match idx % 4 {
            0 | 1 => {
                for _ in 0..rng.range(1, 6) {
                    let e = gen_event(rng);
                    let tree = ev_tree(&e);
                    lines.push(format!("w enc ev {}", e.tok()));
                    if rng.chance(1, 3) {
                        let dup = |rng: &mut Rng| gen::entries(rng, 6, true, true);
                        let ec = match rng.below(3) {
                            0 => Ev::NewSpan { id: 1, parent: None, mt: 7, values: dup(rng) },
                            1 => Ev::Recorded { id: 1, values: dup(rng) },
                            _ => Ev::NewEvent { mt: 7, parent: None, values: dup(rng) },
                        };
                        lines.push(format!("w enc evc {}", ec.tok()));
                    }
                    lines.push(format!("w dec ev 1 {}", json::canon_string(&tree)));
                    if rng.chance(1, 2) {
                        lines.push(format!("w dec ev 0 {}", json::canon_string(&permute(&tree, rng, false))));
                    }
                    if rng.chance(1, 2) {
                        lines.push(format!("w dec ev 0 {}", json::canon_string(&malform(&tree, rng))));
                    }
                    if rng.chance(1, 3) {
                        // duplicate keys inside `values`: legal, last value wins at the first position
                        if let Ev::Recorded { id, values } | Ev::NewSpan { id, values, .. } = &e {
                            let mut dup = values.clone();
                            dup.extend(gen::entries(rng, 3, true, true));
                            if let Some(first) = values.first() {
                                dup.push((first.0.clone(), gen::val(rng, true)));
                            }
                            let t = ev_tree(&Ev::Recorded { id: *id, values: dup });
                            lines.push(format!("w dec ev 0 {}", json::canon_string(&t)));
                        }
                    }
                }
            }
            2 => {
                let mut rows: Vec<SpanRow> = vec![];
                for _ in 0..rng.range(0, 5) {
                    let id = gen_id(rng);
                    if rows.iter().all(|r| r.0 != id) {
                        rows.push((id, gen_id(rng), if rng.chance(1, 2) { Some(gen_id(rng)) } else { None }, rng.range(1, 4) as u64, gen_persisted_entries(rng)));
                    }
                }
                lines.push(format!("w enc ps {}", spans_tok(&rows)));
                let tree = spans_tree(&rows);
                lines.push(format!("w dec ps 1 {}", json::canon_string(&tree)));
                lines.push(format!("w dec ps 0 {}", json::canon_string(&permute(&tree, rng, false))));
            }
            _ => {
                let mut rows: Vec<(u64, Site)> = vec![];
                for _ in 0..rng.range(0, 5) {
                    let id = gen_id(rng);
                    if rows.iter().all(|r| r.0 != id) {
                        rows.push((id, gen::site(rng, None, 8)));
                    }
                }
                lines.push(format!("w enc pm {}", meta_tok(&rows)));
                let tree = meta_tree(&rows);
                lines.push(format!("w dec pm 1 {}", json::canon_string(&tree)));
                lines.push(format!("w dec pm 0 {}", json::canon_string(&permute(&tree, rng, false))));
            }
        }
        lines
    }

    fn run(&self, lines: &[String]) -> Outcome {
        let mut out = Outcome::default();
        let mut nontrivial = false;
        for line in lines {
            let mut t = Toks::new(line);
            let (w, dir, what) = (t.next(), t.next(), t.next());
            if w != Some("w") {
                out.obs.push("bad-op".into());
                continue;
            }
            out.tags.push(format!("{}:{}", dir.unwrap_or("?"), what.unwrap_or("?")));
            match (dir, what) {
                (Some("enc"), Some("evc")) => {
                    // the event's value set is built through `FromIterator` (collect) from entries
                    // that may repeat a name, the way a program assembles values by hand
                    let e = Ev::parse(&mut t).expect("event");
                    let collect = |values: &crate::proto::Entries| -> tracing_tunnel::TracedValues<String> { values.iter().map(|(k, v)| (k.clone(), v.to_real())).collect() };
                    let real = match &e {
                        Ev::NewSpan { id, parent, mt, values } => TracingEvent::NewSpan { id: *id, parent_id: *parent, metadata_id: *mt, values: collect(values) },
                        Ev::Recorded { id, values } => TracingEvent::ValuesRecorded { id: *id, values: collect(values) },
                        Ev::NewEvent { mt, parent, values } => TracingEvent::NewEvent { metadata_id: *mt, parent: *parent, values: collect(values) },
                        other => other.to_real(),
                    };
                    let text = serde_json::to_string(&real).expect("serialize event");
                    out.docs.push(format!("{{\"kind\":\"event\",\"doc\":{text}}}"));
                    let tree = json::parse(&text).expect("event JSON parses");
                    out.obs.push(format!("j {}", json::canon_string(&tree)));
                    match serde_json::from_str::<TracingEvent>(&text) {
                        Ok(back) => {
                            let again = serde_json::to_string(&back).unwrap();
                            if again != text {
                                out.fails.push(format!("C11 event with collected values does not re-encode identically: {text} -> {again}"));
                            }
                        }
                        Err(err) => out.fails.push(format!("C11 event does not decode from its own encoding {text}: {err}")),
                    }
                }
                (Some("enc"), Some("ev")) => {
                    let e = Ev::parse(&mut t).expect("event");
                    if let Ev::NewSpan { values, .. } | Ev::Recorded { values, .. } | Ev::NewEvent { values, .. } = &e {
                        let kinds: std::collections::HashSet<_> = values.iter().map(|v| std::mem::discriminant(&v.1)).collect();
                        if values.len() >= 3 && kinds.len() >= 3 {
                            nontrivial = true;
                        }
                        out.tags.push(format!("values:{}", match values.len() { 0 => "0", 32 => "32", _ => "1-31" }));
                    }
                    let real = e.to_real();
                    let text = serde_json::to_string(&real).expect("serialize event");
                    out.docs.push(format!("{{\"kind\":\"event\",\"doc\":{text}}}"));
                    let tree = json::parse(&text).expect("event JSON parses");
                    out.obs.push(format!("j {}", json::canon_string(&tree)));
                    // oracle: decodes to a value that re-encodes identically
                    match serde_json::from_str::<TracingEvent>(&text) {
                        Ok(back) => {
                            let again = serde_json::to_string(&back).unwrap();
                            if again != text {
                                out.fails.push(format!("C11 event does not re-encode identically: {text} -> {again}"));
                            }
                            if Ev::from_real(&back) != e {
                                out.fails.push(format!("C11 event changed through the round trip: {} -> {}", e.tok(), Ev::from_real(&back).tok()));
                            }
                        }
                        Err(err) => out.fails.push(format!("C11 event does not decode from its own encoding {text}: {err}")),
                    }
                }
                (Some("dec"), Some("ev")) => {
                    let canon = t.next() == Some("1");
                    let rest = t.rest();
                    let (tree, _) = json::parse_canon(&rest).expect("tree");
                    let text = json::to_text(&tree);
                    match serde_json::from_str::<TracingEvent>(&text) {
                        Ok(e) => out.obs.push(format!("d {}", Ev::from_real(&e).tok())),
                        Err(_) => out.obs.push("d err".into()),
                    }
                    out.obs.push(format!("c {}", if canon { "1" } else { "-" }));
                }
                (Some("enc"), Some("ps")) => {
                    let rows = parse_spans(&mut t).expect("spans");
                    let doc = json::to_text(&spans_tree(&rows));
                    match serde_json::from_str::<PersistedSpans>(&doc) {
                        Ok(ps) => {
                            let text = serde_json::to_string(&ps).unwrap();
                            out.docs.push(format!("{{\"kind\":\"spans\",\"doc\":{text}}}"));
                            let mut tree = json::parse(&text).expect("spans JSON parses");
                            json::sort_numeric_keys(&mut tree);
                            out.obs.push(format!("j {}", json::canon_string(&tree)));
                            if ps.len() != rows.len() {
                                out.fails.push(format!("C11 persisted spans: {} entries decoded from {}", ps.len(), rows.len()));
                            }
                            let back: PersistedSpans = serde_json::from_str(&text).expect("re-decode");
                            let mut t2 = json::parse(&serde_json::to_string(&back).unwrap()).unwrap();
                            json::sort_numeric_keys(&mut t2);
                            if t2 != tree {
                                out.fails.push("C11 persisted spans do not re-encode identically (as a map)".into());
                            }
                            if spans_rows(&tree).as_deref() != Some(&{ let mut r = rows.clone(); r.sort_by_key(|x| x.0); r }[..]) {
                                out.fails.push("C11 persisted spans changed through the round trip".into());
                            }
                        }
                        Err(e) => {
                            out.obs.push("j err".into());
                            out.fails.push(format!("C11 persisted spans document {doc} rejected: {e}"));
                        }
                    }
                }
                (Some("dec"), Some("ps")) => {
                    let canon = t.next() == Some("1");
                    let rest = t.rest();
                    let (tree, _) = json::parse_canon(&rest).expect("tree");
                    match serde_json::from_str::<PersistedSpans>(&json::to_text(&tree)) {
                        Ok(ps) => {
                            let mut back = json::parse(&serde_json::to_string(&ps).unwrap()).unwrap();
                            json::sort_numeric_keys(&mut back);
                            out.obs.push(format!("d {}", spans_rows(&back).map_or("unreadable".into(), |r| spans_tok(&r))));
                        }
                        Err(_) => out.obs.push("d err".into()),
                    }
                    out.obs.push(format!("c {}", if canon { "1" } else { "-" }));
                }
                (Some("enc"), Some("pm")) => {
                    let rows = parse_meta(&mut t).expect("meta");
                    let doc = json::to_text(&meta_tree(&rows));
                    match serde_json::from_str::<PersistedMetadata>(&doc) {
                        Ok(pm) => {
                            let text = serde_json::to_string(&pm).unwrap();
                            out.docs.push(format!("{{\"kind\":\"metadata\",\"doc\":{text}}}"));
                            let mut tree = json::parse(&text).expect("metadata JSON parses");
                            json::sort_numeric_keys(&mut tree);
                            out.obs.push(format!("j {}", json::canon_string(&tree)));
                            let back: PersistedMetadata = serde_json::from_str(&text).expect("re-decode");
                            let mut t2 = json::parse(&serde_json::to_string(&back).unwrap()).unwrap();
                            json::sort_numeric_keys(&mut t2);
                            if t2 != tree {
                                out.fails.push("C11 persisted metadata does not re-encode identically (as a map)".into());
                            }
                            if meta_rows(&tree).as_deref() != Some(&{ let mut r = rows.clone(); r.sort_by_key(|x| x.0); r }[..]) {
                                out.fails.push("C11 persisted metadata changed through the round trip".into());
                            }
                        }
                        Err(e) => {
                            out.obs.push("j err".into());
                            out.fails.push(format!("C11 persisted metadata document {doc} rejected: {e}"));
                        }
                    }
                }
                (Some("dec"), Some("pm")) => {
                    let canon = t.next() == Some("1");
                    let rest = t.rest();
                    let (tree, _) = json::parse_canon(&rest).expect("tree");
                    match serde_json::from_str::<PersistedMetadata>(&json::to_text(&tree)) {
                        Ok(pm) => {
                            let mut back = json::parse(&serde_json::to_string(&pm).unwrap()).unwrap();
                            json::sort_numeric_keys(&mut back);
                            out.obs.push(format!("d {}", meta_rows(&back).map_or("unreadable".into(), |r| meta_tok(&r))));
                        }
                        Err(_) => out.obs.push("d err".into()),
                    }
                    out.obs.push(format!("c {}", if canon { "1" } else { "-" }));
                }
                _ => out.obs.push("bad-op".into()),
            }
        }
        if nontrivial {
            out.tags.push("nontrivial".into());
        }
        out
    }
}
