//! Guest programs at the level of subscriber calls: parsing, generation and execution against
//! any `Dispatch` (emulating what the `tracing` front end does: `enabled` before
//! `new_span`/`event`, registration before first use, `child_of(None) = new_root`).

use std::collections::HashSet;

use tracing_core::{
    dispatcher::Dispatch,
    field::{Field, Value},
    span::{Attributes, Id, Record},
    Event, Metadata,
};

use crate::{
    dynsite, gen,
    proto::{Site, Toks},
    rng::Rng,
    suites::values::{gen_prim_tok, Prim},
};

#[derive(Debug, Clone, PartialEq)]
pub enum PParent {
    Ctx,
    Root,
    Handle(usize),
}

impl PParent {
    pub fn tok(&self) -> String {
        match self {
            PParent::Ctx => "ctx".into(),
            PParent::Root => "root".into(),
            PParent::Handle(s) => format!("p:{s}"),
        }
    }
    pub fn parse(t: &str) -> Option<Self> {
        Some(match t {
            "ctx" => PParent::Ctx,
            "root" => PParent::Root,
            _ => PParent::Handle(t.strip_prefix("p:")?.parse().ok()?),
        })
    }
}

pub type PVals = Vec<(usize, String)>; // (field index, prim token)

#[derive(Debug, Clone, PartialEq)]
pub enum POp {
    Reg(usize),
    New { k: usize, parent: PParent, vals: PVals },
    Rec { s: usize, vals: PVals },
    Fol(usize, usize),
    Ent(usize),
    Ext(usize),
    Cln(usize),
    Drp(usize),
    Evt { k: usize, parent: PParent, vals: PVals },
}

fn vals_tok(vals: &PVals) -> String {
    let mut s = vals.len().to_string();
    for (i, p) in vals {
        s.push_str(&format!(" {i} {p}"));
    }
    s
}

fn parse_vals(t: &mut Toks<'_>) -> Option<PVals> {
    let n: usize = t.num()?;
    (0..n).map(|_| Some((t.num()?, t.next()?.to_owned()))).collect()
}

impl POp {
    pub fn tok(&self) -> String {
        match self {
            POp::Reg(k) => format!("p reg {k}"),
            POp::New { k, parent, vals } => format!("p new {k} {} {}", parent.tok(), vals_tok(vals)),
            POp::Rec { s, vals } => format!("p rec {s} {}", vals_tok(vals)),
            POp::Fol(s, t) => format!("p fol {s} {t}"),
            POp::Ent(s) => format!("p ent {s}"),
            POp::Ext(s) => format!("p ext {s}"),
            POp::Cln(s) => format!("p cln {s}"),
            POp::Drp(s) => format!("p drp {s}"),
            POp::Evt { k, parent, vals } => format!("p evt {k} {} {}", parent.tok(), vals_tok(vals)),
        }
    }

    /// Parses the tokens after the leading `p`.
    pub fn parse(t: &mut Toks<'_>) -> Option<Self> {
        Some(match t.next()? {
            "reg" => POp::Reg(t.num()?),
            "new" => POp::New { k: t.num()?, parent: PParent::parse(t.next()?)?, vals: parse_vals(t)? },
            "rec" => POp::Rec { s: t.num()?, vals: parse_vals(t)? },
            "fol" => POp::Fol(t.num()?, t.num()?),
            "ent" => POp::Ent(t.num()?),
            "ext" => POp::Ext(t.num()?),
            "cln" => POp::Cln(t.num()?),
            "drp" => POp::Drp(t.num()?),
            "evt" => POp::Evt { k: t.num()?, parent: PParent::parse(t.next()?)?, vals: parse_vals(t)? },
            _ => return None,
        })
    }
}

#[derive(Debug, Clone, Default)]
pub struct Program {
    pub sites: Vec<Site>,
    pub ops: Vec<POp>,
    /// The input lines do not form a program (e.g. a shrunk case lost a site declaration).
    pub malformed: bool,
}

impl Program {
    pub fn lines(&self) -> Vec<String> {
        let mut out: Vec<String> = self.sites.iter().enumerate().map(|(k, s)| format!("site {k} {}", s.tok())).collect();
        out.extend(self.ops.iter().map(POp::tok));
        out
    }

    /// Parses `site` and `p` lines; other lines are returned untouched.
    pub fn parse(lines: &[String]) -> (Self, Vec<String>) {
        let mut p = Program::default();
        let mut rest = vec![];
        for l in lines {
            let mut t = Toks::new(l);
            match t.next() {
                Some("site") => {
                    let k: usize = t.num().expect("site index");
                    if k != p.sites.len() {
                        p.malformed = true;
                        continue;
                    }
                    p.sites.push(Site::parse(&mut t).expect("site"));
                }
                Some("p") => p.ops.push(POp::parse(&mut t).expect("program op")),
                _ => rest.push(l.clone()),
            }
        }
        // operations must refer to declared call sites (a shrunk case may have lost a declaration)
        let n = p.sites.len();
        if p.ops.iter().any(|o| matches!(o, POp::Reg(k) | POp::New { k, .. } | POp::Evt { k, .. } if *k >= n)) {
            p.malformed = true;
        }
        (p, rest)
    }
}

fn with_values<R>(meta: &'static Metadata<'static>, vals: &PVals, f: impl FnOnce(&tracing_core::field::ValueSet<'_>) -> R) -> R {
    let n_fields = meta.fields().len();
    let prims: Vec<(usize, Option<Prim>)> = vals
        .iter()
        .filter(|(i, _)| *i < n_fields)
        .map(|(i, tok)| (*i, Prim::parse(tok).expect("prim token")))
        .collect();
    let fields: Vec<Field> = prims.iter().map(|(i, _)| dynsite::nth_field(meta, *i)).collect();
    let values: Vec<(&Field, Option<&dyn Value>)> = fields.iter().zip(&prims).map(|(f, (_, p))| (f, p.as_ref().map(Prim::as_value))).collect();
    dynsite::with_value_set(meta.fields(), &values, f)
}

thread_local! {
    /// call sites of the program being run, and the events emitted from inside `Debug` impls since
    /// the runner last looked
    static NESTED: std::cell::RefCell<(Vec<&'static Metadata<'static>>, Vec<usize>)> = const { std::cell::RefCell::new((Vec::new(), Vec::new())) };
}

/// Called from the `Debug` impl of a `dbgev` value: the guest's own code uses tracing while one of
/// its values is being rendered. The event goes to whatever subscriber is current.
pub fn nested_emit(k: usize) {
    let meta = NESTED.with(|n| n.borrow().0.get(k).copied());
    if let Some(meta) = meta {
        tracing_core::dispatcher::get_default(|d| {
            dynsite::with_value_set(meta.fields(), &[], |vs| d.event(&Event::new(meta, vs)));
        });
        NESTED.with(|n| n.borrow_mut().1.push(k));
    }
}

fn take_nested() -> Vec<usize> {
    NESTED.with(|n| std::mem::take(&mut n.borrow_mut().1))
}

/// What the front end did for each program operation (the program's own operation log).
#[derive(Debug, Clone, PartialEq)]
pub enum FeCall {
    Register(usize),
    NewSpan { k: usize, id: u64, parent: String, vals: PVals },
    Record { id: u64, k: usize, vals: PVals },
    Follows(u64, u64),
    Enter(u64),
    Exit(u64),
    Clone(u64),
    TryClose(u64),
    Event { k: usize, parent: String, vals: PVals },
}

/// Step-wise front end: the state kept between operations of one thread.
/// What the `tracing` macros check first: the process-wide maximum level (the combined
/// `max_level_hint` of the live dispatchers, recomputed whenever a dispatcher is created).
fn level_enabled(meta: &Metadata<'_>) -> bool {
    *meta.level() <= tracing_core::LevelFilter::current()
}

pub struct Runner {
    metas: Vec<&'static Metadata<'static>>,
    pub handles: Vec<Option<(Id, usize)>>,
    registered: HashSet<usize>,
    /// what `register_callsite` answered last for each call site (the macros cache it)
    interest: std::collections::HashMap<usize, tracing_core::Interest>,
    pub log: Vec<FeCall>,
}

impl Runner {
    pub fn new(sites: &[Site]) -> Self {
        let metas: Vec<&'static Metadata<'static>> = sites.iter().map(dynsite::metadata_for).collect();
        NESTED.with(|n| *n.borrow_mut() = (metas.clone(), vec![]));
        Self { metas, handles: vec![], registered: HashSet::new(), interest: Default::default(), log: vec![] }
    }

    /// The macros' decision: the process-wide maximum level, then the interest the subscriber
    /// declared when the call site was registered (`never`: skip, `always`: go ahead, `sometimes`:
    /// ask `enabled`).
    fn site_enabled(&self, dispatch: &Dispatch, k: usize, meta: &'static Metadata<'static>) -> bool {
        if !level_enabled(meta) {
            return false;
        }
        match self.interest.get(&k) {
            Some(i) if i.is_never() => false,
            Some(i) if i.is_always() => true,
            _ => dispatch.enabled(meta),
        }
    }

    fn resolve(&self, p: &PParent) -> (Option<Option<Id>>, String) {
        // None = contextual, Some(None) = root, Some(Some(id)) = explicit
        match p {
            PParent::Ctx => (None, "ctx".into()),
            PParent::Root => (Some(None), "root".into()),
            PParent::Handle(s) => match self.handles.get(*s).cloned().flatten() {
                Some((id, _)) => {
                    let tok = format!("p:{}", id.into_u64());
                    (Some(Some(id)), tok)
                }
                None => (Some(None), "root".into()),
            },
        }
    }

    pub fn step(&mut self, dispatch: &Dispatch, op: &POp) {
        let (metas, log) = (self.metas.clone(), &mut Vec::new());
        std::mem::swap(log, &mut self.log);
        let mut log = std::mem::take(log);
        match op {
            POp::Reg(k) => {
                if let Some(meta) = metas.get(*k) {
                    let i = dispatch.register_callsite(meta);
                    self.interest.insert(*k, i);
                    self.registered.insert(*k);
                    log.push(FeCall::Register(*k));
                }
            }
            POp::New { k, parent, vals } => match metas.get(*k).copied() {
                None => self.handles.push(None),
                Some(meta) => {
                    if self.registered.insert(*k) {
                        let i = dispatch.register_callsite(meta);
                        self.interest.insert(*k, i);
                        log.push(FeCall::Register(*k));
                    }
                    if !self.site_enabled(dispatch, *k, meta) {
                        self.handles.push(None);
                    } else {
                        let (par, ptok) = self.resolve(parent);
                        let id = with_values(meta, vals, |vs| {
                            let attrs = match par {
                                None => Attributes::new(meta, vs),
                                Some(None) => Attributes::new_root(meta, vs),
                                Some(Some(pid)) => Attributes::child_of(pid, meta, vs),
                            };
                            dispatch.new_span(&attrs)
                        });
                        log.push(FeCall::NewSpan { k: *k, id: id.into_u64(), parent: ptok, vals: vals.clone() });
                        self.handles.push(Some((id, *k)));
                    }
                }
            },
            POp::Rec { s, vals } => {
                if let Some((id, k)) = self.handles.get(*s).cloned().flatten() {
                    let _ = take_nested();
                    with_values(metas[k], vals, |vs| dispatch.record(&id, &Record::new(vs)));
                    // events the values' own `Debug` impls emitted while they were being rendered
                    // come first: they are subscriber operations of the program too
                    for ke in take_nested() {
                        log.push(FeCall::Event { k: ke, parent: PParent::Ctx.tok(), vals: vec![] });
                    }
                    log.push(FeCall::Record { id: id.into_u64(), k, vals: vals.clone() });
                }
            }
            POp::Fol(s, t) => {
                if let (Some((a, _)), Some((b, _))) = (self.handles.get(*s).cloned().flatten(), self.handles.get(*t).cloned().flatten()) {
                    dispatch.record_follows_from(&a, &b);
                    log.push(FeCall::Follows(a.into_u64(), b.into_u64()));
                }
            }
            POp::Ent(s) => {
                if let Some((id, _)) = self.handles.get(*s).cloned().flatten() {
                    dispatch.enter(&id);
                    log.push(FeCall::Enter(id.into_u64()));
                }
            }
            POp::Ext(s) => {
                if let Some((id, _)) = self.handles.get(*s).cloned().flatten() {
                    dispatch.exit(&id);
                    log.push(FeCall::Exit(id.into_u64()));
                }
            }
            POp::Cln(s) => match self.handles.get(*s).cloned().flatten() {
                Some((id, k)) => {
                    let new_id = dispatch.clone_span(&id);
                    log.push(FeCall::Clone(id.into_u64()));
                    self.handles.push(Some((new_id, k)));
                }
                None => self.handles.push(None),
            },
            POp::Drp(s) => {
                if let Some((id, _)) = self.handles.get(*s).cloned().flatten() {
                    log.push(FeCall::TryClose(id.into_u64()));
                    dispatch.try_close(id);
                }
            }
            POp::Evt { k, parent, vals } => {
                if let Some(meta) = metas.get(*k).copied() {
                    if self.registered.insert(*k) {
                        let i = dispatch.register_callsite(meta);
                        self.interest.insert(*k, i);
                        log.push(FeCall::Register(*k));
                    }
                    if self.site_enabled(dispatch, *k, meta) {
                        let (par, ptok) = self.resolve(parent);
                        with_values(meta, vals, |vs| {
                            let event = match par {
                                None => Event::new(meta, vs),
                                Some(pid) => Event::new_child_of(pid, meta, vs),
                            };
                            dispatch.event(&event);
                        });
                        log.push(FeCall::Event { k: *k, parent: ptok, vals: vals.clone() });
                    }
                }
            }
        }
        self.log = log;
    }
}

/// Runs the program against `dispatch`; returns the log of subscriber calls made.
pub fn run(dispatch: &Dispatch, prog: &Program) -> Vec<FeCall> {
    run_probed(dispatch, prog, |_| {})
}

/// The same, calling `after(i)` when operation number `i` has been executed (the program's own
/// code looking at what has been recorded so far).
pub fn run_probed(dispatch: &Dispatch, prog: &Program, mut after: impl FnMut(usize)) -> Vec<FeCall> {
    if prog.malformed {
        return vec![];
    }
    let mut runner = Runner::new(&prog.sites);
    for (i, op) in prog.ops.iter().enumerate() {
        runner.step(dispatch, op);
        after(i);
    }
    runner.log
}

// ---------------------------------------------------------------------------------------------
// generation of well-formed programs

#[derive(Clone)]
struct H {
    span: usize, // span number (handles of the same span share it)
    live: bool,
}

pub struct GenCfg {
    pub max_ops: usize,
    pub max_fields: usize,
    pub roots: bool,
    pub clones: bool,
    pub rich_values: bool,
    /// Sometimes drop the last handle of a span while it is still entered (a leaked enter guard:
    /// `mem::forget(span.enter()); drop(span)`); the span then stays entered for good.
    pub leak_enters: bool,
}

fn gen_vals(rng: &mut Rng, site: &Site, rich: bool) -> PVals {
    let n = site.fields.len();
    if n == 0 {
        return vec![];
    }
    let count = match rng.below(6) {
        0 => 0,
        1 => n.min(32),
        _ => rng.range(0, n.min(4)),
    };
    let start = rng.below(n - count.min(n) + 1);
    // mostly a contiguous run in declaration order (what the macros produce); sometimes the
    // public `FieldSet::value_set` API is used directly: arbitrary order, repeated fields
    let mut idxs: Vec<usize> = (start..start + count).collect();
    if count > 0 && rng.chance(1, 5) {
        match rng.below(3) {
            0 => idxs.reverse(),
            1 => {
                for i in (1..idxs.len()).rev() {
                    let j = rng.below(i + 1);
                    idxs.swap(i, j);
                }
            }
            _ => {
                let extra = rng.range(1, 3).min(32 - idxs.len().min(32));
                for _ in 0..extra {
                    let pos = rng.below(idxs.len() + 1);
                    idxs.insert(pos, rng.below(n));
                }
            }
        }
    }
    idxs.into_iter()
        .map(|i| {
            let tok = if rich {
                // JSON (the reference lossless encoding of C01) cannot carry non-finite floats
                loop {
                    let t = gen_prim_tok(rng);
                    let finite = match t.split_once(':') {
                        Some(("f64", p)) => f64::from_bits(u64::from_str_radix(p, 16).unwrap()).is_finite(),
                        Some(("f32", p)) => f32::from_bits(u32::from_str_radix(p, 16).unwrap()).is_finite(),
                        _ => true,
                    };
                    if finite {
                        break t;
                    }
                }
            } else {
                match rng.below(6) {
                    0 => format!("i64:{}", rng.below(9) as i64 - 4),
                    1 => format!("u64:{}", rng.below(5)),
                    2 => format!("bool:{}", rng.below(2)),
                    3 => format!("str:{}", crate::proto::hex(format!("s{}", rng.below(3)).as_bytes())),
                    4 => format!("dbg:{}", crate::proto::hex(format!("D({})", rng.below(3)).as_bytes())),
                    _ => "empty".to_owned(),
                }
            };
            (i, tok)
        })
        .collect()
}

/// A well-formed single-threaded program: handles live when used, exit only what is entered
/// (any order, re-entrant allowed), the last handle of a span is not dropped while entered.
pub fn gen_program(rng: &mut Rng, cfg: &GenCfg) -> Program {
    let n_sites = rng.range(1, 5);
    let mut sites: Vec<Site> = vec![];
    for i in 0..n_sites {
        let is_span = i % 2 == 0 || rng.chance(1, 3);
        let mut s = gen::site(rng, Some(is_span), cfg.max_fields);
        if !sites.iter().any(|x: &Site| x.is_span) && i == n_sites - 1 {
            s.is_span = true;
        }
        sites.push(s);
    }
    if !sites.iter().any(|s| !s.is_span) {
        sites.push(gen::site(rng, Some(false), cfg.max_fields));
    }
    let span_sites: Vec<usize> = sites.iter().enumerate().filter(|(_, s)| s.is_span).map(|(k, _)| k).collect();
    let event_sites: Vec<usize> = sites.iter().enumerate().filter(|(_, s)| !s.is_span).map(|(k, _)| k).collect();
    let ops = gen_ops(rng, cfg, &sites, &span_sites, &event_sites, 0, 0);
    Program { sites, ops, malformed: false }
}

/// Operations of one thread of a multi-threaded run: its own call sites are `sites[base..base+3]`
/// (two span sites, one event site); handles `0..n_shared` are the shared spans (of site 0),
/// which it may use (enter, record, explicit parent, follows-from) but never drops.
pub fn gen_thread_program(rng: &mut Rng, cfg: &GenCfg, sites: &[Site], base: usize, n_shared: usize) -> Vec<POp> {
    gen_ops(rng, cfg, sites, &[base, base + 1], &[base + 2], n_shared, 0)
}

fn gen_ops(rng: &mut Rng, cfg: &GenCfg, sites: &[Site], span_sites: &[usize], event_sites: &[usize], n_shared: usize, shared_site: usize) -> Vec<POp> {
    let sites = sites.to_vec();
    let span_sites = span_sites.to_vec();
    let event_sites = event_sites.to_vec();

    let mut ops = vec![];
    let mut handles: Vec<H> = (0..n_shared).map(|i| H { span: i, live: true }).collect();
    let mut span_site: Vec<usize> = vec![shared_site; n_shared]; // per span number
    let mut entered: Vec<usize> = vec![]; // span numbers, in enter order (with repeats)
    let n = rng.range(1, cfg.max_ops);
    let parent = |rng: &mut Rng, handles: &Vec<H>, roots: bool| -> PParent {
        let live: Vec<usize> = handles.iter().enumerate().filter(|(_, h)| h.live).map(|(i, _)| i).collect();
        match rng.below(6) {
            0 if roots => PParent::Root,
            1 | 2 if !live.is_empty() => PParent::Handle(*rng.pick(&live)),
            _ => PParent::Ctx,
        }
    };
    for _ in 0..n {
        let live: Vec<usize> = handles.iter().enumerate().filter(|(_, h)| h.live).map(|(i, _)| i).collect();
        match rng.below(16) {
            0..=3 => {
                let k = *rng.pick(&span_sites);
                let p = parent(rng, &handles, cfg.roots);
                ops.push(POp::New { k, parent: p, vals: gen_vals(rng, &sites[k], cfg.rich_values) });
                handles.push(H { span: span_site.len(), live: true });
                span_site.push(k);
            }
            4..=6 if !live.is_empty() => {
                let s = *rng.pick(&live);
                ops.push(POp::Ent(s));
                entered.push(handles[s].span);
            }
            7..=8 if !entered.is_empty() => {
                // mostly LIFO, sometimes out of order
                let pos = if rng.chance(3, 4) { entered.len() - 1 } else { rng.below(entered.len()) };
                let span = entered.remove(pos);
                let s = handles.iter().position(|h| h.live && h.span == span).expect("entered span has a live handle");
                ops.push(POp::Ext(s));
            }
            9 if cfg.clones && !live.is_empty() => {
                let s = *rng.pick(&live);
                ops.push(POp::Cln(s));
                let span = handles[s].span;
                handles.push(H { span, live: true });
            }
            10..=11 if !live.is_empty() => {
                let s = *rng.pick(&live);
                let span = handles[s].span;
                let others = handles.iter().enumerate().filter(|(i, h)| *i != s && h.live && h.span == span).count();
                if s >= n_shared && (others > 0 || !entered.contains(&span)) {
                    ops.push(POp::Drp(s));
                    handles[s].live = false;
                } else if s >= n_shared && cfg.leak_enters && rng.chance(1, 3) {
                    // the last handle goes away while the span is entered: it can never be exited
                    ops.push(POp::Drp(s));
                    handles[s].live = false;
                    entered.retain(|e| *e != span);
                }
            }
            12 if !live.is_empty() => {
                let s = *rng.pick(&live);
                let k = span_site[handles[s].span];
                ops.push(POp::Rec { s, vals: gen_vals(rng, &sites[k], cfg.rich_values) });
            }
            13 if live.len() >= 2 => {
                let a = *rng.pick(&live);
                let b = *rng.pick(&live);
                ops.push(POp::Fol(a, b));
            }
            14 if rng.chance(1, 8) => ops.push(POp::Reg(rng.below(sites.len()))),
            _ => {
                let k = *rng.pick(&event_sites);
                let p = parent(rng, &handles, cfg.roots);
                ops.push(POp::Evt { k, parent: p, vals: gen_vals(rng, &sites[k], cfg.rich_values) });
            }
        }
    }
    // wind down: exit everything, drop all handles (complete run) in half of the cases
    if rng.chance(1, 2) {
        while let Some(span) = entered.pop() {
            let s = handles.iter().position(|h| h.live && h.span == span).unwrap();
            ops.push(POp::Ext(s));
        }
        for s in n_shared..handles.len() {
            if handles[s].live {
                ops.push(POp::Drp(s));
                handles[s].live = false;
            }
        }
    }
    ops
}
