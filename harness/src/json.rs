//! Minimal JSON reader/writer owned by the harness (serde_json::Value cannot hold 128-bit
//! integers). Numbers are kept as text; floats are converted to bit patterns with Rust's
//! `f64::from_str`.

use std::fmt::Write as _;

use crate::proto::{hex, Val};

#[derive(Debug, Clone, PartialEq)]
pub enum J {
    Null,
    Bool(bool),
    Int(String),   // decimal integer text
    Float(u64),    // bits
    Str(String),
    Arr(Vec<J>),
    Obj(Vec<(String, J)>),
}

pub fn parse(text: &str) -> Result<J, String> {
    let mut p = Parser { s: text.as_bytes(), i: 0 };
    let j = p.value()?;
    p.ws();
    if p.i != p.s.len() {
        return Err(format!("trailing input at {}", p.i));
    }
    Ok(j)
}

struct Parser<'a> {
    s: &'a [u8],
    i: usize,
}

impl Parser<'_> {
    fn ws(&mut self) {
        while self.i < self.s.len() && matches!(self.s[self.i], b' ' | b'\n' | b'\t' | b'\r') {
            self.i += 1;
        }
    }
    fn eat(&mut self, c: u8) -> Result<(), String> {
        self.ws();
        if self.s.get(self.i) == Some(&c) {
            self.i += 1;
            Ok(())
        } else {
            Err(format!("expected {:?} at {}", c as char, self.i))
        }
    }
    fn value(&mut self) -> Result<J, String> {
        self.ws();
        match self.s.get(self.i).copied() {
            Some(b'n') => self.lit("null", J::Null),
            Some(b't') => self.lit("true", J::Bool(true)),
            Some(b'f') => self.lit("false", J::Bool(false)),
            Some(b'"') => Ok(J::Str(self.string()?)),
            Some(b'[') => {
                self.i += 1;
                let mut xs = vec![];
                self.ws();
                if self.s.get(self.i) == Some(&b']') {
                    self.i += 1;
                    return Ok(J::Arr(xs));
                }
                loop {
                    xs.push(self.value()?);
                    self.ws();
                    match self.s.get(self.i) {
                        Some(b',') => self.i += 1,
                        Some(b']') => {
                            self.i += 1;
                            return Ok(J::Arr(xs));
                        }
                        _ => return Err(format!("bad array at {}", self.i)),
                    }
                }
            }
            Some(b'{') => {
                self.i += 1;
                let mut kvs = vec![];
                self.ws();
                if self.s.get(self.i) == Some(&b'}') {
                    self.i += 1;
                    return Ok(J::Obj(kvs));
                }
                loop {
                    self.ws();
                    let k = self.string()?;
                    self.eat(b':')?;
                    let v = self.value()?;
                    kvs.push((k, v));
                    self.ws();
                    match self.s.get(self.i) {
                        Some(b',') => self.i += 1,
                        Some(b'}') => {
                            self.i += 1;
                            return Ok(J::Obj(kvs));
                        }
                        _ => return Err(format!("bad object at {}", self.i)),
                    }
                }
            }
            Some(c) if c == b'-' || c.is_ascii_digit() => {
                let start = self.i;
                let mut is_float = false;
                while self.i < self.s.len() {
                    match self.s[self.i] {
                        b'0'..=b'9' | b'-' | b'+' => {}
                        b'.' | b'e' | b'E' => is_float = true,
                        _ => break,
                    }
                    self.i += 1;
                }
                let t = std::str::from_utf8(&self.s[start..self.i]).unwrap();
                if is_float {
                    let f: f64 = t.parse().map_err(|e| format!("bad float {t}: {e}"))?;
                    Ok(J::Float(f.to_bits()))
                } else {
                    Ok(J::Int(t.to_owned()))
                }
            }
            _ => Err(format!("unexpected input at {}", self.i)),
        }
    }
    fn lit(&mut self, word: &str, j: J) -> Result<J, String> {
        if self.s[self.i..].starts_with(word.as_bytes()) {
            self.i += word.len();
            Ok(j)
        } else {
            Err(format!("bad literal at {}", self.i))
        }
    }
    fn hex4(&mut self) -> Result<u32, String> {
        let t = std::str::from_utf8(self.s.get(self.i..self.i + 4).ok_or("short \\u")?).map_err(|e| e.to_string())?;
        self.i += 4;
        u32::from_str_radix(t, 16).map_err(|e| e.to_string())
    }
    fn string(&mut self) -> Result<String, String> {
        self.ws();
        if self.s.get(self.i) != Some(&b'"') {
            return Err(format!("expected string at {}", self.i));
        }
        self.i += 1;
        let mut out: Vec<u8> = vec![];
        loop {
            let c = *self.s.get(self.i).ok_or("unterminated string")?;
            self.i += 1;
            match c {
                b'"' => return String::from_utf8(out).map_err(|e| e.to_string()),
                b'\\' => {
                    let e = *self.s.get(self.i).ok_or("bad escape")?;
                    self.i += 1;
                    let ch = match e {
                        b'"' => '"',
                        b'\\' => '\\',
                        b'/' => '/',
                        b'b' => '\u{8}',
                        b'f' => '\u{c}',
                        b'n' => '\n',
                        b'r' => '\r',
                        b't' => '\t',
                        b'u' => {
                            let mut cp = self.hex4()?;
                            if (0xD800..0xDC00).contains(&cp) {
                                if self.s.get(self.i..self.i + 2) != Some(b"\\u") {
                                    return Err("lone surrogate".into());
                                }
                                self.i += 2;
                                let lo = self.hex4()?;
                                cp = 0x10000 + ((cp - 0xD800) << 10) + (lo - 0xDC00);
                            }
                            char::from_u32(cp).ok_or("bad code point")?
                        }
                        _ => return Err("bad escape".into()),
                    };
                    let mut buf = [0u8; 4];
                    out.extend_from_slice(ch.encode_utf8(&mut buf).as_bytes());
                }
                c => out.push(c),
            }
        }
    }
}

/// Canonical tree text shared with the driver. `numeric_keys` sorts the top-level object by the
/// numeric value of its keys (hash-map order is not significant).
pub fn canon(j: &J, out: &mut String) {
    match j {
        J::Null => out.push('N'),
        J::Bool(b) => out.push(if *b { 'T' } else { 'F' }),
        J::Int(t) => {
            out.push('#');
            out.push_str(t.strip_prefix('+').unwrap_or(t));
        }
        J::Float(b) => write!(out, "~{b:016x}").unwrap(),
        J::Str(s) => write!(out, "\"{}", hex(s.as_bytes())).unwrap(),
        J::Arr(xs) => {
            out.push('[');
            for x in xs {
                out.push(' ');
                canon(x, out);
            }
            out.push_str(" ]");
        }
        J::Obj(kvs) => {
            out.push('{');
            for (k, v) in kvs {
                write!(out, " \"{} ", hex(k.as_bytes())).unwrap();
                canon(v, out);
            }
            out.push_str(" }");
        }
    }
}

pub fn canon_string(j: &J) -> String {
    let mut s = String::new();
    canon(j, &mut s);
    s
}

pub fn sort_numeric_keys(j: &mut J) {
    if let J::Obj(kvs) = j {
        kvs.sort_by_key(|(k, _)| k.parse::<u128>().unwrap_or(u128::MAX));
    }
}

/// Parses the canonical tree text back (used for replay of `w dec` lines).
pub fn parse_canon(toks: &[&str]) -> Option<(J, usize)> {
    let t = *toks.first()?;
    Some(match t {
        "N" => (J::Null, 1),
        "T" => (J::Bool(true), 1),
        "F" => (J::Bool(false), 1),
        "[" => {
            let mut i = 1;
            let mut xs = vec![];
            while *toks.get(i)? != "]" {
                let (x, n) = parse_canon(&toks[i..])?;
                xs.push(x);
                i += n;
            }
            (J::Arr(xs), i + 1)
        }
        "{" => {
            let mut i = 1;
            let mut kvs = vec![];
            while *toks.get(i)? != "}" {
                let k = String::from_utf8(crate::proto::unhex(toks[i].strip_prefix('"')?)?).ok()?;
                let (x, n) = parse_canon(&toks[i + 1..])?;
                kvs.push((k, x));
                i += 1 + n;
            }
            (J::Obj(kvs), i + 1)
        }
        _ if t.starts_with('#') => (J::Int(t[1..].to_owned()), 1),
        _ if t.starts_with('~') => (J::Float(u64::from_str_radix(&t[1..], 16).ok()?), 1),
        _ if t.starts_with('"') => (J::Str(String::from_utf8(crate::proto::unhex(&t[1..])?).ok()?), 1),
        _ => return None,
    })
}

pub fn write_str(s: &str, out: &mut String) {
    out.push('"');
    for c in s.chars() {
        match c {
            '"' => out.push_str("\\\""),
            '\\' => out.push_str("\\\\"),
            '\n' => out.push_str("\\n"),
            '\r' => out.push_str("\\r"),
            '\t' => out.push_str("\\t"),
            c if (c as u32) < 0x20 => write!(out, "\\u{:04x}", c as u32).unwrap(),
            c => out.push(c),
        }
    }
    out.push('"');
}

/// JSON text of a tree (the harness's own writer; floats via Rust's shortest round-trip form).
pub fn write(j: &J, out: &mut String) {
    match j {
        J::Null => out.push_str("null"),
        J::Bool(b) => out.push_str(if *b { "true" } else { "false" }),
        J::Int(t) => out.push_str(t),
        J::Float(b) => {
            let f = f64::from_bits(*b);
            assert!(f.is_finite());
            let t = format!("{f:?}");
            out.push_str(&t);
        }
        J::Str(s) => write_str(s, out),
        J::Arr(xs) => {
            out.push('[');
            for (i, x) in xs.iter().enumerate() {
                if i > 0 {
                    out.push(',');
                }
                write(x, out);
            }
            out.push(']');
        }
        J::Obj(kvs) => {
            out.push('{');
            for (i, (k, v)) in kvs.iter().enumerate() {
                if i > 0 {
                    out.push(',');
                }
                write_str(k, out);
                out.push(':');
                write(v, out);
            }
            out.push('}');
        }
    }
}

pub fn to_text(j: &J) -> String {
    let mut s = String::new();
    write(j, &mut s);
    s
}

/// Tree of a mirror value in the wire shape (harness-side reference, used only to *build*
/// documents for the decoding direction).
pub fn val_tree(v: &Val) -> J {
    fn err(chain: &[String]) -> J {
        J::Obj(vec![
            ("message".into(), J::Str(chain[0].clone())),
            ("source".into(), if chain.len() > 1 { err(&chain[1..]) } else { J::Null }),
        ])
    }
    let (k, j) = match v {
        Val::Bool(b) => ("bool", J::Bool(*b)),
        Val::Int(i) => ("int", J::Int(i.to_string())),
        Val::UInt(u) => ("u_int", J::Int(u.to_string())),
        Val::Float(b) => ("float", J::Float(*b)),
        Val::Str(s) => ("string", J::Str(s.clone())),
        Val::Obj(s) => ("object", J::Str(s.clone())),
        Val::Err(chain) => ("error", err(chain)),
    };
    J::Obj(vec![(k.into(), j)])
}

pub fn entries_tree(es: &[(String, Val)]) -> J {
    J::Obj(es.iter().map(|(k, v)| (k.clone(), val_tree(v))).collect())
}
