//! Line protocol shared with the Lean driver: mirror types, printing and parsing.

use std::fmt::Write as _;

use tracing_tunnel::{CallSiteData, CallSiteKind, TracedValue, TracedValues, TracingEvent, TracingLevel};

pub fn hex(bytes: &[u8]) -> String {
    let mut s = String::with_capacity(bytes.len() * 2);
    for b in bytes {
        write!(s, "{b:02x}").unwrap();
    }
    s
}

pub fn unhex(s: &str) -> Option<Vec<u8>> {
    if s.len() % 2 != 0 {
        return None;
    }
    (0..s.len() / 2)
        .map(|i| u8::from_str_radix(s.get(2 * i..2 * i + 2)?, 16).ok())
        .collect()
}

pub fn xs(s: &str) -> String {
    format!("x{}", hex(s.as_bytes()))
}

pub fn unxs(t: &str) -> Option<String> {
    String::from_utf8(unhex(t.strip_prefix('x')?)?).ok()
}

pub fn opt_xs(s: Option<&str>) -> String {
    s.map_or_else(|| "-".to_owned(), xs)
}

pub fn opt_num<T: std::fmt::Display>(n: Option<T>) -> String {
    n.map_or_else(|| "-".to_owned(), |n| n.to_string())
}

/// Mirror of `TracedValue`.
#[derive(Debug, Clone, PartialEq)]
pub enum Val {
    Bool(bool),
    Int(i128),
    UInt(u128),
    Float(u64), // bits
    Str(String),
    Obj(String),
    Err(Vec<String>), // message, then sources
}

impl Val {
    pub fn tok(&self) -> String {
        match self {
            Val::Bool(b) => format!("b{}", u8::from(*b)),
            Val::Int(i) => format!("i{i}"),
            Val::UInt(u) => format!("u{u}"),
            Val::Float(b) => format!("f{b:016x}"),
            Val::Str(s) => format!("s{}", hex(s.as_bytes())),
            Val::Obj(s) => format!("o{}", hex(s.as_bytes())),
            Val::Err(chain) => format!(
                "e{}",
                chain.iter().map(|m| hex(m.as_bytes())).collect::<Vec<_>>().join(",")
            ),
        }
    }

    pub fn parse(t: &str) -> Option<Self> {
        let (k, body) = t.split_at(1);
        Some(match k {
            "b" => Val::Bool(match body {
                "1" => true,
                "0" => false,
                _ => return None,
            }),
            "i" => Val::Int(body.parse().ok()?),
            "u" => Val::UInt(body.parse().ok()?),
            "f" => Val::Float(u64::from_str_radix(body, 16).ok()?),
            "s" => Val::Str(String::from_utf8(unhex(body)?).ok()?),
            "o" => Val::Obj(String::from_utf8(unhex(body)?).ok()?),
            "e" => Val::Err(
                body.split(',')
                    .map(|h| String::from_utf8(unhex(h)?).ok())
                    .collect::<Option<Vec<_>>>()?,
            ),
            _ => return None,
        })
    }

    pub fn from_real(v: &TracedValue) -> Self {
        match v {
            TracedValue::Bool(b) => Val::Bool(*b),
            TracedValue::Int(i) => Val::Int(*i),
            TracedValue::UInt(u) => Val::UInt(*u),
            TracedValue::Float(f) => Val::Float(f.to_bits()),
            TracedValue::String(s) => Val::Str(s.clone()),
            TracedValue::Object(o) => Val::Obj(o.as_ref().to_owned()),
            TracedValue::Error(e) => {
                let mut chain = vec![e.message.clone()];
                let mut cur = e.source.as_deref();
                while let Some(src) = cur {
                    chain.push(src.message.clone());
                    cur = src.source.as_deref();
                }
                Val::Err(chain)
            }
            _ => Val::Obj("<unknown TracedValue variant>".to_owned()),
        }
    }

    /// Builds the real value through public constructors only (errors go through the value
    /// visitor since `TracedError` cannot be constructed from outside the crate).
    pub fn to_real(&self) -> TracedValue {
        match self {
            Val::Bool(b) => TracedValue::from(*b),
            Val::Int(i) => TracedValue::from(*i),
            Val::UInt(u) => TracedValue::from(*u),
            Val::Float(b) => TracedValue::from(f64::from_bits(*b)),
            Val::Str(s) => TracedValue::from(s.as_str()),
            Val::Obj(s) => TracedValue::debug(&RawDebug(s.clone())),
            Val::Err(chain) => crate::dynsite::error_value(chain),
        }
    }
}

/// `Debug`/`Display` print the string verbatim.
pub struct RawDebug(pub String);

impl std::fmt::Debug for RawDebug {
    fn fmt(&self, f: &mut std::fmt::Formatter<'_>) -> std::fmt::Result {
        f.write_str(&self.0)
    }
}
impl std::fmt::Display for RawDebug {
    fn fmt(&self, f: &mut std::fmt::Formatter<'_>) -> std::fmt::Result {
        f.write_str(&self.0)
    }
}

/// Error with an explicit source chain.
#[derive(Debug)]
pub struct ChainErr {
    pub msg: String,
    pub source: Option<Box<ChainErr>>,
}

impl ChainErr {
    pub fn new(chain: &[String]) -> Self {
        Self {
            msg: chain[0].clone(),
            source: if chain.len() > 1 {
                Some(Box::new(Self::new(&chain[1..])))
            } else {
                None
            },
        }
    }
}

impl std::fmt::Display for ChainErr {
    fn fmt(&self, f: &mut std::fmt::Formatter<'_>) -> std::fmt::Result {
        f.write_str(&self.msg)
    }
}

impl std::error::Error for ChainErr {
    fn source(&self) -> Option<&(dyn std::error::Error + 'static)> {
        self.source.as_deref().map(|e| e as &(dyn std::error::Error + 'static))
    }
}

/// Errors that keep their source *inline* as their first field (`struct Outer { source: Inner, .. }`),
/// so that an error and its source live at the same address — unlike the boxed `ChainErr`.
#[derive(Debug)]
#[repr(C)]
pub struct InlineErr<E> {
    pub inner: E,
    pub msg: String,
}

impl<E> std::fmt::Display for InlineErr<E> {
    fn fmt(&self, f: &mut std::fmt::Formatter<'_>) -> std::fmt::Result {
        f.write_str(&self.msg)
    }
}

impl<E: std::error::Error + 'static> std::error::Error for InlineErr<E> {
    fn source(&self) -> Option<&(dyn std::error::Error + 'static)> {
        Some(&self.inner)
    }
}

#[derive(Debug)]
pub struct LeafErr(pub String);

impl std::fmt::Display for LeafErr {
    fn fmt(&self, f: &mut std::fmt::Formatter<'_>) -> std::fmt::Result {
        f.write_str(&self.0)
    }
}

impl std::error::Error for LeafErr {}

/// An error whose sources are stored inline (chains of 1..=4 messages; longer ones are boxed at the tail).
pub fn inline_err(chain: &[String]) -> Box<dyn std::error::Error + 'static> {
    fn wrap<E>(m: &str, inner: E) -> InlineErr<E> {
        InlineErr { inner, msg: m.to_owned() }
    }
    let leaf = |m: &String| LeafErr(m.clone());
    match chain {
        [] => Box::new(LeafErr(String::new())),
        [a] => Box::new(leaf(a)),
        [a, b] => Box::new(wrap(a, leaf(b))),
        [a, b, c] => Box::new(wrap(a, wrap(b, leaf(c)))),
        [a, b, c, d] => Box::new(wrap(a, wrap(b, wrap(c, leaf(d))))),
        [a, b, c, rest @ ..] => Box::new(wrap(a, wrap(b, wrap(c, ChainErr::new(rest))))),
    }
}

pub type Entries = Vec<(String, Val)>;

pub fn entries_tok(es: &[(String, Val)]) -> String {
    let mut s = es.len().to_string();
    for (k, v) in es {
        write!(s, " {} {}", xs(k), v.tok()).unwrap();
    }
    s
}

pub fn entries_from_real<S: AsRef<str>>(vs: &TracedValues<S>) -> Entries {
    vs.iter().map(|(k, v)| (k.to_owned(), Val::from_real(v))).collect()
}

/// Builds real values by inserting one by one.
pub fn entries_to_real(es: &[(String, Val)]) -> TracedValues<String> {
    let mut vs = TracedValues::new();
    for (k, v) in es {
        vs.insert(k.clone(), v.to_real());
    }
    vs
}

pub struct Toks<'a> {
    it: std::vec::IntoIter<&'a str>,
}

impl<'a> Toks<'a> {
    pub fn new(line: &'a str) -> Self {
        Self {
            it: line.split_ascii_whitespace().collect::<Vec<_>>().into_iter(),
        }
    }
    pub fn next(&mut self) -> Option<&'a str> {
        self.it.next()
    }
    pub fn rest(&mut self) -> Vec<&'a str> {
        self.it.by_ref().collect()
    }
    pub fn num<T: std::str::FromStr>(&mut self) -> Option<T> {
        self.next()?.parse().ok()
    }
    pub fn opt_num<T: std::str::FromStr>(&mut self) -> Option<Option<T>> {
        let t = self.next()?;
        if t == "-" {
            Some(None)
        } else {
            t.parse().ok().map(Some)
        }
    }
    pub fn xs(&mut self) -> Option<String> {
        unxs(self.next()?)
    }
    pub fn opt_xs(&mut self) -> Option<Option<String>> {
        let t = self.next()?;
        if t == "-" {
            Some(None)
        } else {
            unxs(t).map(Some)
        }
    }
    pub fn entries(&mut self) -> Option<Entries> {
        let n: usize = self.num()?;
        (0..n).map(|_| Some((self.xs()?, Val::parse(self.next()?)?))).collect()
    }
    pub fn is_empty(&mut self) -> bool {
        self.it.len() == 0
    }
}

#[derive(Debug, Clone, PartialEq, Eq, Hash)]
pub struct Site {
    pub is_span: bool,
    pub level: u8, // 0 error .. 4 trace
    pub name: String,
    pub target: String,
    pub module_path: Option<String>,
    pub file: Option<String>,
    pub line: Option<u32>,
    pub fields: Vec<String>,
}

pub const LEVELS: [&str; 5] = ["error", "warn", "info", "debug", "trace"];

impl Site {
    pub fn tok(&self) -> String {
        let mut s = format!(
            "{} {} {} {} {} {} {} {}",
            if self.is_span { "span" } else { "event" },
            LEVELS[self.level as usize],
            xs(&self.name),
            xs(&self.target),
            opt_xs(self.module_path.as_deref()),
            opt_xs(self.file.as_deref()),
            opt_num(self.line),
            self.fields.len()
        );
        for f in &self.fields {
            write!(s, " {}", xs(f)).unwrap();
        }
        s
    }

    pub fn parse(t: &mut Toks<'_>) -> Option<Self> {
        let is_span = match t.next()? {
            "span" => true,
            "event" => false,
            _ => return None,
        };
        let level_tok = t.next()?;
        let level = LEVELS.iter().position(|l| *l == level_tok)? as u8;
        let name = t.xs()?;
        let target = t.xs()?;
        let module_path = t.opt_xs()?;
        let file = t.opt_xs()?;
        let line = t.opt_num()?;
        let n: usize = t.num()?;
        let fields = (0..n).map(|_| t.xs()).collect::<Option<Vec<_>>>()?;
        Some(Self { is_span, level, name, target, module_path, file, line, fields })
    }

    /// Alternates between descriptions made of owned strings (what a deserializer produces) and of
    /// borrowed `&'static str`s (what an in-process sender produces): equal content either way.
    pub fn to_real(&self) -> CallSiteData {
        static TOGGLE: std::sync::atomic::AtomicUsize = std::sync::atomic::AtomicUsize::new(0);
        if TOGGLE.fetch_add(1, std::sync::atomic::Ordering::Relaxed) % 2 == 1 {
            self.to_real_borrowed()
        } else {
            self.to_real_owned()
        }
    }

    pub fn to_real_borrowed(&self) -> CallSiteData {
        // each string is leaked once per content (not per call)
        static LEAKED: std::sync::Mutex<Option<std::collections::HashMap<String, &'static str>>> = std::sync::Mutex::new(None);
        let leak = |s: &str| -> std::borrow::Cow<'static, str> {
            let mut guard = LEAKED.lock().unwrap();
            let map = guard.get_or_insert_with(Default::default);
            let r: &'static str = match map.get(s) {
                Some(r) => r,
                None => {
                    let r: &'static str = Box::leak(s.to_owned().into_boxed_str());
                    map.insert(s.to_owned(), r);
                    r
                }
            };
            std::borrow::Cow::Borrowed(r)
        };
        let mut d = self.to_real_owned();
        d.name = leak(&self.name);
        d.target = leak(&self.target);
        d.module_path = self.module_path.as_deref().map(leak);
        d.file = self.file.as_deref().map(leak);
        d.fields = self.fields.iter().map(|f| leak(f)).collect();
        d
    }

    pub fn to_real_owned(&self) -> CallSiteData {
        CallSiteData {
            kind: if self.is_span { CallSiteKind::Span } else { CallSiteKind::Event },
            name: self.name.clone().into(),
            target: self.target.clone().into(),
            level: match self.level {
                0 => TracingLevel::Error,
                1 => TracingLevel::Warn,
                2 => TracingLevel::Info,
                3 => TracingLevel::Debug,
                _ => TracingLevel::Trace,
            },
            module_path: self.module_path.clone().map(Into::into),
            file: self.file.clone().map(Into::into),
            line: self.line,
            fields: self.fields.iter().map(|f| f.clone().into()).collect(),
        }
    }

    pub fn from_real(d: &CallSiteData) -> Self {
        Self {
            is_span: matches!(d.kind, CallSiteKind::Span),
            level: match d.level {
                TracingLevel::Error => 0,
                TracingLevel::Warn => 1,
                TracingLevel::Info => 2,
                TracingLevel::Debug => 3,
                TracingLevel::Trace => 4,
            },
            name: d.name.to_string(),
            target: d.target.to_string(),
            module_path: d.module_path.as_ref().map(|s| s.to_string()),
            file: d.file.as_ref().map(|s| s.to_string()),
            line: d.line,
            fields: d.fields.iter().map(|s| s.to_string()).collect(),
        }
    }

    pub fn from_metadata(m: &tracing_core::Metadata<'_>) -> Self {
        Self {
            is_span: m.is_span(),
            level: match *m.level() {
                tracing_core::Level::ERROR => 0,
                tracing_core::Level::WARN => 1,
                tracing_core::Level::INFO => 2,
                tracing_core::Level::DEBUG => 3,
                tracing_core::Level::TRACE => 4,
            },
            name: m.name().to_owned(),
            target: m.target().to_owned(),
            module_path: m.module_path().map(str::to_owned),
            file: m.file().map(str::to_owned),
            line: m.line(),
            fields: m.fields().iter().map(|f| f.name().to_owned()).collect(),
        }
    }
}

/// Mirror of `TracingEvent`.
#[derive(Debug, Clone, PartialEq)]
pub enum Ev {
    NewCallSite { id: u64, site: Site },
    NewSpan { id: u64, parent: Option<u64>, mt: u64, values: Entries },
    FollowsFrom { id: u64, follows: u64 },
    Entered(u64),
    Exited(u64),
    Cloned(u64),
    Dropped(u64),
    Recorded { id: u64, values: Entries },
    NewEvent { mt: u64, parent: Option<u64>, values: Entries },
}

impl Ev {
    pub fn tok(&self) -> String {
        match self {
            Ev::NewCallSite { id, site } => format!("ncs {id} {}", site.tok()),
            Ev::NewSpan { id, parent, mt, values } => {
                format!("nsp {id} {} {mt} {}", opt_num(*parent), entries_tok(values))
            }
            Ev::FollowsFrom { id, follows } => format!("ff {id} {follows}"),
            Ev::Entered(id) => format!("ent {id}"),
            Ev::Exited(id) => format!("ext {id}"),
            Ev::Cloned(id) => format!("cln {id}"),
            Ev::Dropped(id) => format!("drp {id}"),
            Ev::Recorded { id, values } => format!("rec {id} {}", entries_tok(values)),
            Ev::NewEvent { mt, parent, values } => {
                format!("nev {mt} {} {}", opt_num(*parent), entries_tok(values))
            }
        }
    }

    pub fn parse(t: &mut Toks<'_>) -> Option<Self> {
        Some(match t.next()? {
            "ncs" => Ev::NewCallSite { id: t.num()?, site: Site::parse(t)? },
            "nsp" => Ev::NewSpan { id: t.num()?, parent: t.opt_num()?, mt: t.num()?, values: t.entries()? },
            "ff" => Ev::FollowsFrom { id: t.num()?, follows: t.num()? },
            "ent" => Ev::Entered(t.num()?),
            "ext" => Ev::Exited(t.num()?),
            "cln" => Ev::Cloned(t.num()?),
            "drp" => Ev::Dropped(t.num()?),
            "rec" => Ev::Recorded { id: t.num()?, values: t.entries()? },
            "nev" => Ev::NewEvent { mt: t.num()?, parent: t.opt_num()?, values: t.entries()? },
            _ => return None,
        })
    }

    pub fn to_real(&self) -> TracingEvent {
        match self {
            Ev::NewCallSite { id, site } => TracingEvent::NewCallSite { id: *id, data: site.to_real() },
            Ev::NewSpan { id, parent, mt, values } => TracingEvent::NewSpan {
                id: *id,
                parent_id: *parent,
                metadata_id: *mt,
                values: entries_to_real(values),
            },
            Ev::FollowsFrom { id, follows } => TracingEvent::FollowsFrom { id: *id, follows_from: *follows },
            Ev::Entered(id) => TracingEvent::SpanEntered { id: *id },
            Ev::Exited(id) => TracingEvent::SpanExited { id: *id },
            Ev::Cloned(id) => TracingEvent::SpanCloned { id: *id },
            Ev::Dropped(id) => TracingEvent::SpanDropped { id: *id },
            Ev::Recorded { id, values } => {
                TracingEvent::ValuesRecorded { id: *id, values: entries_to_real(values) }
            }
            Ev::NewEvent { mt, parent, values } => TracingEvent::NewEvent {
                metadata_id: *mt,
                parent: *parent,
                values: entries_to_real(values),
            },
        }
    }

    pub fn from_real(e: &TracingEvent) -> Self {
        match e {
            TracingEvent::NewCallSite { id, data } => Ev::NewCallSite { id: *id, site: Site::from_real(data) },
            TracingEvent::NewSpan { id, parent_id, metadata_id, values } => Ev::NewSpan {
                id: *id,
                parent: *parent_id,
                mt: *metadata_id,
                values: entries_from_real(values),
            },
            TracingEvent::FollowsFrom { id, follows_from } => Ev::FollowsFrom { id: *id, follows: *follows_from },
            TracingEvent::SpanEntered { id } => Ev::Entered(*id),
            TracingEvent::SpanExited { id } => Ev::Exited(*id),
            TracingEvent::SpanCloned { id } => Ev::Cloned(*id),
            TracingEvent::SpanDropped { id } => Ev::Dropped(*id),
            TracingEvent::ValuesRecorded { id, values } => {
                Ev::Recorded { id: *id, values: entries_from_real(values) }
            }
            TracingEvent::NewEvent { metadata_id, parent, values } => Ev::NewEvent {
                mt: *metadata_id,
                parent: *parent,
                values: entries_from_real(values),
            },
            _ => panic!("unknown TracingEvent variant"),
        }
    }
}
