//! A counting global allocator: live heap bytes allocated by the current thread. Used by the
//! memory-bound probes (C09: what a process retains for call sites does not grow with the number
//! of executions).

use std::{
    alloc::{GlobalAlloc, Layout, System},
    cell::Cell,
};

thread_local! {
    static LIVE: Cell<isize> = const { Cell::new(0) };
}

pub struct Counting;

fn add(delta: isize) {
    let _ = LIVE.try_with(|c| c.set(c.get() + delta));
}

unsafe impl GlobalAlloc for Counting {
    unsafe fn alloc(&self, layout: Layout) -> *mut u8 {
        let p = System.alloc(layout);
        if !p.is_null() {
            add(layout.size() as isize);
        }
        p
    }
    unsafe fn dealloc(&self, ptr: *mut u8, layout: Layout) {
        add(-(layout.size() as isize));
        System.dealloc(ptr, layout);
    }
    unsafe fn alloc_zeroed(&self, layout: Layout) -> *mut u8 {
        let p = System.alloc_zeroed(layout);
        if !p.is_null() {
            add(layout.size() as isize);
        }
        p
    }
    unsafe fn realloc(&self, ptr: *mut u8, layout: Layout, new_size: usize) -> *mut u8 {
        let p = System.realloc(ptr, layout, new_size);
        if !p.is_null() {
            add(new_size as isize - layout.size() as isize);
        }
        p
    }
}

/// Bytes allocated and not yet freed by this thread (frees of other threads' memory count too).
pub fn live() -> isize {
    LIVE.with(Cell::get)
}
