//! Dynamic call sites: `&'static Metadata` built at run time from a `Site` description, plus
//! helpers to build real `ValueSet`s of any arity 0..=32 over them.

use std::{
    collections::HashMap,
    sync::{Mutex, OnceLock},
};

use tracing_core::{
    field::{Field, FieldSet, Value, ValueSet},
    Callsite, Interest, Kind, Level, Metadata,
};
use tracing_tunnel::{TracedValue, TracedValues};

use crate::proto::{ChainErr, Site};

#[derive(Default)]
struct DynCallsite {
    metadata: OnceLock<&'static Metadata<'static>>,
}

impl Callsite for DynCallsite {
    fn set_interest(&self, _interest: Interest) {}
    fn metadata(&self) -> &Metadata<'_> {
        self.metadata.get().copied().expect("metadata not set")
    }
}

fn leak_str(s: &str) -> &'static str {
    Box::leak(s.to_owned().into_boxed_str())
}

pub fn level_of(l: u8) -> Level {
    match l {
        0 => Level::ERROR,
        1 => Level::WARN,
        2 => Level::INFO,
        3 => Level::DEBUG,
        _ => Level::TRACE,
    }
}

/// Guest-side metadata for a site description (one object per distinct description, like a
/// macro call site).
pub fn metadata_for(site: &Site) -> &'static Metadata<'static> {
    static CACHE: OnceLock<Mutex<HashMap<Site, &'static Metadata<'static>>>> = OnceLock::new();
    let mut cache = CACHE.get_or_init(Default::default).lock().unwrap();
    if let Some(m) = cache.get(site) {
        return m;
    }
    let callsite: &'static DynCallsite = Box::leak(Box::default());
    let names: Vec<&'static str> = site.fields.iter().map(|f| leak_str(f)).collect();
    let names: &'static [&'static str] = Box::leak(names.into_boxed_slice());
    let fields = FieldSet::new(names, tracing_core::identify_callsite!(callsite));
    let metadata = Metadata::new(
        leak_str(&site.name),
        leak_str(&site.target),
        level_of(site.level),
        site.file.as_deref().map(leak_str),
        site.line,
        site.module_path.as_deref().map(leak_str),
        fields,
        if site.is_span { Kind::SPAN } else { Kind::EVENT },
    );
    let metadata: &'static Metadata<'static> = Box::leak(Box::new(metadata));
    callsite.metadata.set(metadata).ok().unwrap();
    cache.insert(site.clone(), metadata);
    metadata
}

macro_rules! value_set_match {
    ($fields:expr, $values:expr, $f:expr, [$($i:literal,)+]) => {
        match $values.len() {
            0 => { let vs = $fields.value_set(&[]); $f(&vs) }
            $(
            $i => {
                let arr = <&[(&Field, Option<&dyn Value>); $i]>::try_from($values).unwrap();
                let vs = $fields.value_set(arr);
                $f(&vs)
            }
            )+
            n => panic!("harness: value set of {n} entries is not constructible"),
        }
    };
}

/// Calls `f` with a real `ValueSet` over `fields` holding `values` (at most 32 entries).
pub fn with_value_set<R>(
    fields: &FieldSet,
    values: &[(&Field, Option<&dyn Value>)],
    f: impl FnOnce(&ValueSet<'_>) -> R,
) -> R {
    value_set_match!(
        fields,
        values,
        f,
        [
            1, 2, 3, 4, 5, 6, 7, 8, 9, 10, 11, 12, 13, 14, 15, 16, 17, 18, 19, 20, 21, 22, 23, 24, 25, 26, 27,
            28, 29, 30, 31, 32,
        ]
    )
}

/// The `idx`-th field of the metadata (by position, so duplicate names are distinguishable).
pub fn nth_field(meta: &'static Metadata<'static>, idx: usize) -> Field {
    meta.fields().iter().nth(idx).expect("field index in range")
}

/// A real `TracedValue::Error` built through the value visitor.
pub fn error_value(chain: &[String]) -> TracedValue {
    let site = Site {
        is_span: false,
        level: 2,
        name: "harness-error-carrier".into(),
        target: "harness".into(),
        module_path: None,
        file: None,
        line: None,
        fields: vec!["v".into()],
    };
    let meta = metadata_for(&site);
    let field = nth_field(meta, 0);
    let err = ChainErr::new(chain);
    let dyn_err: &(dyn std::error::Error + 'static) = &err;
    let values = [(&field, Some(&dyn_err as &dyn Value))];
    let vs = meta.fields().value_set(&values);
    let captured: TracedValues<String> = TracedValues::from_values(&vs);
    captured.into_iter().next().expect("error value captured").1
}
