//! Reference bookkeeping of a guest's event history, written from the property statements
//! (C02, C03, C06): known call sites and alive spans. Mentions neither hosts nor cuts.

use std::collections::BTreeMap;

use crate::proto::{Entries, Ev, Site, Val};

pub const MAX_VALUES: usize = 32;

#[derive(Debug, Clone, PartialEq)]
pub struct SpanRow {
    pub mt: u64,
    pub parent: Option<u64>,
    pub rc: u64,
    pub values: Entries,
}

#[derive(Debug, Clone, Default, PartialEq)]
pub struct Spec {
    pub known: BTreeMap<u64, Site>,
    pub alive: BTreeMap<u64, SpanRow>,
    /// How many times each alive span is currently entered by the guest (not persisted).
    pub entered: BTreeMap<u64, usize>,
}

#[derive(Debug, Clone, PartialEq, Eq)]
pub enum Reason {
    UnknownMeta(u64),
    UnknownSpan(u64),
    TooMany(usize),
}

impl Reason {
    pub fn tok(&self) -> String {
        match self {
            Reason::UnknownMeta(id) => format!("um {id}"),
            Reason::UnknownSpan(id) => format!("us {id}"),
            Reason::TooMany(n) => format!("tm {n}"),
        }
    }
}

pub fn ordered_insert(es: &mut Entries, k: &str, v: Val) {
    if let Some(e) = es.iter_mut().find(|e| e.0 == k) {
        e.1 = v;
    } else {
        es.push((k.to_owned(), v));
    }
}

impl Spec {
    /// All reasons for which the property allows (and requires) the event to be rejected.
    pub fn invalid(&self, e: &Ev) -> Vec<Reason> {
        let mut r = vec![];
        let span = |r: &mut Vec<Reason>, id: u64| {
            if !self.alive.contains_key(&id) {
                r.push(Reason::UnknownSpan(id));
            }
        };
        let meta = |r: &mut Vec<Reason>, id: u64| {
            if !self.known.contains_key(&id) {
                r.push(Reason::UnknownMeta(id));
            }
        };
        let many = |r: &mut Vec<Reason>, n: usize| {
            if n > MAX_VALUES {
                r.push(Reason::TooMany(n));
            }
        };
        match e {
            Ev::NewCallSite { .. } => {}
            Ev::NewSpan { parent, mt, values, .. } => {
                many(&mut r, values.len());
                meta(&mut r, *mt);
                if let Some(p) = parent {
                    span(&mut r, *p);
                }
            }
            Ev::FollowsFrom { id, follows } => {
                span(&mut r, *id);
                span(&mut r, *follows);
            }
            Ev::Entered(id) | Ev::Exited(id) | Ev::Cloned(id) | Ev::Dropped(id) => span(&mut r, *id),
            Ev::Recorded { id, values } => {
                many(&mut r, values.len());
                span(&mut r, *id);
            }
            Ev::NewEvent { mt, parent, values } => {
                many(&mut r, values.len());
                meta(&mut r, *mt);
                if let Some(p) = parent {
                    span(&mut r, *p);
                }
            }
        }
        r
    }

    /// Effect of an accepted event.
    pub fn step(&mut self, e: &Ev) {
        match e {
            Ev::NewCallSite { id, site } => {
                self.known.insert(*id, site.clone());
            }
            Ev::NewSpan { id, parent, mt, values } => {
                self.alive.insert(*id, SpanRow { mt: *mt, parent: *parent, rc: 1, values: values.clone() });
                self.entered.remove(id);
            }
            Ev::Cloned(id) => self.alive.get_mut(id).unwrap().rc += 1,
            Ev::Dropped(id) => {
                let row = self.alive.get_mut(id).unwrap();
                row.rc -= 1;
                if row.rc == 0 {
                    self.alive.remove(id);
                    self.entered.remove(id);
                }
            }
            Ev::Recorded { id, values } => {
                let row = self.alive.get_mut(id).unwrap();
                for (k, v) in values {
                    ordered_insert(&mut row.values, k, v.clone());
                }
            }
            Ev::Entered(id) => *self.entered.entry(*id).or_default() += 1,
            Ev::Exited(id) => {
                if let Some(c) = self.entered.get_mut(id) {
                    *c -= 1;
                    if *c == 0 {
                        self.entered.remove(id);
                    }
                }
            }
            Ev::FollowsFrom { .. } | Ev::NewEvent { .. } => {}
        }
    }

    pub fn quiescent(&self) -> bool {
        self.entered.is_empty()
    }
}

/// The callback a host visitor must see for a stored value (documented value model).
pub fn raw_tok(v: &Val) -> String {
    use crate::proto::hex;
    match v {
        Val::Bool(b) => format!("bool:{}", u8::from(*b)),
        Val::Int(i) => format!("i128:{i}"),
        Val::UInt(u) => format!("u128:{u}"),
        Val::Float(b) => format!("f64:{b:016x}"),
        Val::Str(s) => format!("str:{}", hex(s.as_bytes())),
        Val::Obj(s) => format!("dbg:{}", hex(s.as_bytes())),
        Val::Err(chain) => format!("err:{}", chain.iter().map(|m| hex(m.as_bytes())).collect::<Vec<_>>().join(",")),
    }
}

/// Values of `values` whose name is a field of `site`, as `name raw` tokens (without count).
pub fn applicable(site: &Site, values: &[(String, Val)]) -> Vec<String> {
    values
        .iter()
        .filter(|(k, _)| site.fields.iter().any(|f| f == k))
        .map(|(k, v)| format!("{} {}", crate::proto::xs(k), raw_tok(v)))
        .collect()
}
