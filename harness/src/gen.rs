//! Generators shared by the suites.

use crate::{
    proto::{Entries, Site, Val},
    rng::Rng,
};

pub const NAMES: [&str; 12] = ["a", "b", "c", "message", "", "é", "名前", "a b", "x::y", "a\"\\\n", "field_with_long_name_0123456789", "🦀"];

pub fn name(rng: &mut Rng, small: bool) -> String {
    if small || rng.chance(3, 4) {
        NAMES[rng.below(4)].to_owned()
    } else {
        NAMES[rng.below(NAMES.len())].to_owned()
    }
}

pub fn string(rng: &mut Rng) -> String {
    match rng.below(10) {
        // text that ends in line breaks (`info!("done\n")`, a `Display` that uses `writeln!`)
        8 => (*rng.pick(&["done\n", "a\nb\r\n", "\n", "\r", "x\n\n", " \t"])).to_owned(),
        9 => format!("s{}\n", rng.below(3)),
        0 => String::new(),
        1 => "hello".into(),
        2 => "héllo wörld ✓".into(),
        3 => "quote\" backslash\\ newline\n tab\t nul\u{0} del\u{7f}".into(),
        4 => "\u{10ffff}\u{1F980}".into(),
        5 => (0..rng.range(1, 40)).map(|_| (b'a' + rng.below(26) as u8) as char).collect(),
        6 => "event".into(),
        _ => format!("s{}", rng.below(5)),
    }
}

pub const I64_EDGES: [i128; 10] = [
    0, -1, 1, i64::MIN as i128, i64::MAX as i128, i64::MIN as i128 - 1, i64::MAX as i128 + 1,
    i128::MIN, i128::MAX, 42,
];
pub const U64_EDGES: [u128; 7] = [0, 1, u64::MAX as u128, u64::MAX as u128 + 1, u128::MAX, i64::MAX as u128, 42];
pub const F64_EDGES: [u64; 17] = [
    0x0000_0000_0000_0000, 0x8000_0000_0000_0000, 0x3ff0_0000_0000_0000, 0xbff0_0000_0000_0000,
    0x0000_0000_0000_0001, 0x000f_ffff_ffff_ffff, 0x0010_0000_0000_0000, 0x7fef_ffff_ffff_ffff,
    0xffef_ffff_ffff_ffff, 0x3fb9_9999_9999_999a, 0x4340_0000_0000_0000, 0x7ff0_0000_0000_0000,
    0xfff0_0000_0000_0000, 0x7ff8_0000_0000_0000,
    // NaNs other than the canonical one: negative, with a payload, signalling
    0xfff8_0000_0000_0000, 0x7ff8_0000_0000_beef, 0x7ff0_0000_0000_0001,
];

pub fn finite_f64_bits(rng: &mut Rng) -> u64 {
    loop {
        let b = if rng.chance(1, 2) { F64_EDGES[rng.below(11)] } else { rng.next() };
        if f64::from_bits(b).is_finite() {
            return b;
        }
    }
}

pub fn any_f64_bits(rng: &mut Rng) -> u64 {
    if rng.chance(1, 2) { *rng.pick(&F64_EDGES) } else { rng.next() }
}

pub fn int128(rng: &mut Rng) -> i128 {
    if rng.chance(1, 2) {
        *rng.pick(&I64_EDGES)
    } else {
        let raw = ((rng.next() as u128) << 64 | rng.next() as u128) as i128;
        raw >> rng.below(127)
    }
}

pub fn uint128(rng: &mut Rng) -> u128 {
    if rng.chance(1, 2) {
        *rng.pick(&U64_EDGES)
    } else {
        ((rng.next() as u128) << 64 | rng.next() as u128) >> rng.below(127)
    }
}

pub fn chain(rng: &mut Rng) -> Vec<String> {
    // now and then a long chain (an error that bubbled up through many layers)
    let n = if rng.chance(1, 10) { rng.range(9, 40) } else { rng.range(1, 5) };
    (0..n).map(|_| string(rng)).collect()
}

/// A `TracedValue` mirror; `finite` restricts floats to finite ones (JSON-representable).
pub fn val(rng: &mut Rng, finite: bool) -> Val {
    match rng.below(7) {
        0 => Val::Bool(rng.chance(1, 2)),
        1 => Val::Int(int128(rng)),
        2 => Val::UInt(uint128(rng)),
        3 => Val::Float(if finite { finite_f64_bits(rng) } else { any_f64_bits(rng) }),
        4 => Val::Str(string(rng)),
        5 => Val::Obj(string(rng)),
        _ => Val::Err(chain(rng)),
    }
}

/// Small value (for receiver / capture streams where content matters little).
pub fn small_val(rng: &mut Rng) -> Val {
    match rng.below(6) {
        0 => Val::Bool(rng.chance(1, 2)),
        1 => Val::Int(rng.below(7) as i128 - 3),
        2 => Val::UInt(rng.below(5) as u128),
        3 => Val::Str(format!("s{}", rng.below(3))),
        4 => Val::Obj(format!("Obj({})", rng.below(3))),
        _ => Val::Float(F64_EDGES[rng.below(4)]),
    }
}

pub fn entries(rng: &mut Rng, max: usize, small_names: bool, finite: bool) -> Entries {
    (0..rng.range(0, max)).map(|_| (name(rng, small_names), val(rng, finite))).collect()
}

/// Entries with pairwise distinct names (what a `TracedValues` can hold).
pub fn entries_nodup(rng: &mut Rng, max: usize, small_names: bool, finite: bool) -> Entries {
    let mut out: Entries = vec![];
    for (k, v) in entries(rng, max, small_names, finite) {
        if !out.iter().any(|e| e.0 == k) {
            out.push((k, v));
        }
    }
    out
}

pub fn field_names(rng: &mut Rng, n: usize) -> Vec<String> {
    (0..n).map(|i| format!("f{i}")).map(|s| if rng.chance(1, 16) { "message".to_owned() } else { s }).collect()
}

pub fn site(rng: &mut Rng, is_span: Option<bool>, max_fields: usize) -> Site {
    let n = match rng.below(6) {
        0 => 0,
        1 => max_fields,
        2 => rng.range(0, max_fields),
        _ => rng.range(0, max_fields.min(4)),
    };
    // incl. near misses of the `::` boundary rule (single colon, trailing separators)
    let targets = ["app", "app::db", "app::dbx", "other", "", "app::db::pool", "app:db", "app:", "app::", "apps", "my-app", "my_app", "my_app::db", "app::größe::io", "app::größe"];
    Site {
        is_span: is_span.unwrap_or_else(|| rng.chance(1, 2)),
        level: rng.below(5) as u8,
        name: if rng.chance(1, 8) { string(rng) } else { format!("n{}", rng.below(4)) },
        target: (*rng.pick(&targets)).to_owned(),
        module_path: if rng.chance(1, 2) { Some(format!("m{}", rng.below(2))) } else { None },
        file: if rng.chance(1, 2) {
            // sometimes with the other path separator (a guest built on Windows)
            let sep = if rng.chance(1, 6) { '\\' } else { '/' };
            Some(format!("src{sep}f{}.rs", rng.below(2)))
        } else {
            None
        },
        line: if rng.chance(1, 2) { Some(rng.below(3) as u32 * 100 + 1) } else { None },
        fields: {
            let mut f: Vec<String> = (0..n).map(|i| format!("f{i}")).collect();
            if n > 0 && rng.chance(1, 8) {
                f[0] = "message".into();
            }
            // field lists that coincide once joined by a separator, empty names
            if rng.chance(1, 12) {
                f = match rng.below(9) {
                    8 => vec!["log.target".into(), "f1".into()],
                    6 => vec!["r#type".into(), "len".into(), "r#ref".into()],
                    7 => vec!["type".into(), "len".into(), "ref".into()],
                    0 => vec!["a".into(), "b".into()],
                    1 => vec!["a,b".into()],
                    2 => vec!["a".into(), "b,".into()],
                    3 => vec![String::new()],
                    4 => vec!["a b".into(), "a".into(), "b".into()],
                    _ => vec!["a, b".into()],
                };
            }
            let n = f.len();
            // `span!("s", a = 1, b = 2, a = 3)` declares a name twice
            if n > 1 && rng.chance(1, 8) {
                let (i, j) = (rng.below(n), rng.below(n));
                if i != j {
                    f[j] = f[i].clone();
                }
            }
            f
        },
    }
}
