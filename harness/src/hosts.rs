//! StrictHost: a recording `Subscriber` that issues fresh span ids, keeps a Registry-style span
//! stack and flags (without panicking) any use of an id it did not issue or that was closed.

use std::{
    collections::{HashMap, HashSet},
    fmt,
    sync::{Arc, Mutex, OnceLock},
};

use tracing_core::{
    field::{Field, Visit},
    span::{Attributes, Id, Record},
    Event, Interest, Metadata, Subscriber,
};

use crate::proto::{hex, Site};

/// Process-wide interning index of `&'static Metadata` by pointer, in order of first sight.
pub fn meta_index(meta: &'static Metadata<'static>) -> (usize, bool) {
    static TABLE: OnceLock<Mutex<HashMap<usize, usize>>> = OnceLock::new();
    let mut t = TABLE.get_or_init(Default::default).lock().unwrap();
    let n = t.len();
    let key = meta as *const _ as usize;
    match t.get(&key) {
        Some(i) => (*i, false),
        None => {
            t.insert(key, n);
            SITES.get_or_init(Default::default).lock().unwrap().push(Site::from_metadata(meta));
            // a call site and its metadata belong together: subscribers key caches on
            // `metadata.callsite()` (tracing-core compares `Metadata` by it), so the identifier of a
            // metadata object must lead back to that very object, and so must its field set
            let back = meta.callsite().0.metadata() as *const Metadata<'_> as usize;
            if back != key || meta.fields().iter().any(|f| f.callsite() != meta.callsite()) {
                CALLSITE_FLAWS.get_or_init(Default::default).lock().unwrap().push(format!(
                    "metadata object #{n} ({}) has a call-site identifier that belongs to another metadata object ({})",
                    Site::from_metadata(meta).tok(),
                    Site::from_metadata(meta.callsite().0.metadata()).tok()
                ));
            }
            (n, true)
        }
    }
}

static SITES: OnceLock<Mutex<Vec<Site>>> = OnceLock::new();
static CALLSITE_FLAWS: OnceLock<Mutex<Vec<String>>> = OnceLock::new();

/// Inconsistencies between metadata objects and their call-site identifiers seen since the last call.
pub fn take_callsite_flaws() -> Vec<String> {
    std::mem::take(&mut *CALLSITE_FLAWS.get_or_init(Default::default).lock().unwrap())
}

/// Content of the metadata object with interning index `idx`.
pub fn meta_site(idx: usize) -> Option<Site> {
    SITES.get_or_init(Default::default).lock().unwrap().get(idx).cloned()
}

/// One visitor callback, printed as `name kind:payload`.
#[derive(Default)]
pub struct RawVisitor {
    pub out: Vec<String>,
}

impl RawVisitor {
    fn push(&mut self, field: &Field, tok: String) {
        self.out.push(format!("x{} {tok}", hex(field.name().as_bytes())));
    }
    pub fn finish(self) -> String {
        let mut s = self.out.len().to_string();
        for e in self.out {
            s.push(' ');
            s.push_str(&e);
        }
        s
    }
}

impl Visit for RawVisitor {
    fn record_f64(&mut self, field: &Field, value: f64) {
        self.push(field, format!("f64:{:016x}", value.to_bits()));
    }
    fn record_i64(&mut self, field: &Field, value: i64) {
        self.push(field, format!("i64:{value}"));
    }
    fn record_u64(&mut self, field: &Field, value: u64) {
        self.push(field, format!("u64:{value}"));
    }
    fn record_i128(&mut self, field: &Field, value: i128) {
        self.push(field, format!("i128:{value}"));
    }
    fn record_u128(&mut self, field: &Field, value: u128) {
        self.push(field, format!("u128:{value}"));
    }
    fn record_bool(&mut self, field: &Field, value: bool) {
        self.push(field, format!("bool:{}", u8::from(value)));
    }
    fn record_str(&mut self, field: &Field, value: &str) {
        self.push(field, format!("str:{}", hex(value.as_bytes())));
    }
    fn record_error(&mut self, field: &Field, value: &(dyn std::error::Error + 'static)) {
        let mut chain = vec![hex(value.to_string().as_bytes())];
        let mut cur = value.source();
        while let Some(e) = cur {
            chain.push(hex(e.to_string().as_bytes()));
            cur = e.source();
        }
        self.push(field, format!("err:{}", chain.join(",")));
    }
    fn record_debug(&mut self, field: &Field, value: &dyn fmt::Debug) {
        self.push(field, format!("dbg:{}", hex(format!("{value:?}").as_bytes())));
    }
}

#[derive(Default)]
pub struct HostState {
    pub next: u64,
    pub log: Vec<String>,
    pub issued: HashSet<u64>,
    pub closed: HashSet<u64>,
    /// Registry-style stack: (id, duplicate)
    pub stack: Vec<(u64, bool)>,
    pub misuse: Vec<String>,
    /// Guest id tag set by the suite around each event (for attributing `new` calls).
    pub tag: Option<u64>,
    /// `new` calls as (host id, guest tag, metadata index, values line)
    pub news: Vec<(u64, Option<u64>, usize, String)>,
    pub closes: Vec<u64>,
    pub enabled_queries: usize,
}

impl HostState {
    fn check(&mut self, what: &str, id: u64) {
        if !self.issued.contains(&id) {
            self.misuse.push(format!("{what} on span id {id} that this subscriber never issued"));
        } else if self.closed.contains(&id) {
            self.misuse.push(format!("{what} on span id {id} that was already closed"));
        }
    }
    pub fn current(&self) -> Option<u64> {
        self.stack.iter().rev().find(|e| !e.1).map(|e| e.0)
    }
    pub fn stack_line(&self) -> String {
        let mut s = "sk".to_owned();
        for (id, dup) in &self.stack {
            s.push_str(&format!(" h{id}{}", if *dup { "d" } else { "" }));
        }
        s
    }
    pub fn open_spans(&self) -> Vec<u64> {
        let mut v: Vec<u64> = self.issued.difference(&self.closed).copied().collect();
        v.sort_unstable();
        v
    }
}

#[derive(Clone)]
pub struct StrictHost {
    pub state: Arc<Mutex<HostState>>,
    /// Maximum enabled level (0 error .. 4 trace); `None` = everything enabled.
    pub max_level: Option<u8>,
}

impl StrictHost {
    pub fn new(max_level: Option<u8>) -> Self {
        Self { state: Arc::new(Mutex::new(HostState { next: 1, ..HostState::default() })), max_level }
    }
    pub fn take_log(&self) -> Vec<String> {
        std::mem::take(&mut self.state.lock().unwrap().log)
    }
    pub fn level_enabled(&self, meta: &Metadata<'_>) -> bool {
        let l = Site::from_metadata(meta).level;
        self.max_level.map_or(true, |m| l <= m)
    }
}

fn parent_tok(is_root: bool, is_contextual: bool, parent: Option<&Id>) -> String {
    if let Some(p) = parent {
        format!("p:h{}", p.into_u64())
    } else if is_root {
        "root".into()
    } else {
        debug_assert!(is_contextual);
        "ctx".into()
    }
}

impl Subscriber for StrictHost {
    fn register_callsite(&self, metadata: &'static Metadata<'static>) -> Interest {
        let (idx, _) = meta_index(metadata);
        let mut st = self.state.lock().unwrap();
        st.log.push(format!("c reg m{idx} {}", Site::from_metadata(metadata).tok()));
        drop(st);
        // like tracing-subscriber's level filters: a call site the host disables gets `never`
        if self.level_enabled(metadata) {
            Interest::sometimes()
        } else {
            Interest::never()
        }
    }

    fn enabled(&self, metadata: &Metadata<'_>) -> bool {
        self.state.lock().unwrap().enabled_queries += 1;
        self.level_enabled(metadata)
    }

    fn new_span(&self, span: &Attributes<'_>) -> Id {
        let (idx, _) = meta_index(span.metadata());
        let mut v = RawVisitor::default();
        span.values().record(&mut v);
        let vals = v.finish();
        let mut st = self.state.lock().unwrap();
        if let Some(p) = span.parent() {
            st.check("new_span with explicit parent", p.into_u64());
        }
        let id = st.next;
        st.next += 1;
        st.issued.insert(id);
        let ptok = parent_tok(span.is_root(), span.is_contextual(), span.parent());
        st.log.push(format!("c new h{id} m{idx} {ptok} {vals}"));
        let tag = st.tag;
        st.news.push((id, tag, idx, vals));
        Id::from_u64(id)
    }

    fn record(&self, span: &Id, values: &Record<'_>) {
        let mut v = RawVisitor::default();
        values.record(&mut v);
        let mut st = self.state.lock().unwrap();
        st.check("record", span.into_u64());
        st.log.push(format!("c rec h{} {}", span.into_u64(), v.finish()));
    }

    fn record_follows_from(&self, span: &Id, follows: &Id) {
        let mut st = self.state.lock().unwrap();
        st.check("follows_from (follower)", span.into_u64());
        st.check("follows_from (target)", follows.into_u64());
        st.log.push(format!("c fol h{} h{}", span.into_u64(), follows.into_u64()));
    }

    fn event(&self, event: &Event<'_>) {
        let (idx, _) = meta_index(event.metadata());
        let mut v = RawVisitor::default();
        event.record(&mut v);
        let mut st = self.state.lock().unwrap();
        if let Some(p) = event.parent() {
            st.check("event with explicit parent", p.into_u64());
        }
        let ptok = parent_tok(event.is_root(), event.is_contextual(), event.parent());
        let cur = st.current().map_or("-".to_owned(), |c| format!("h{c}"));
        st.log.push(format!("c evt m{idx} {ptok} {} cur={cur}", v.finish()));
    }

    fn enter(&self, span: &Id) {
        let id = span.into_u64();
        let mut st = self.state.lock().unwrap();
        st.check("enter", id);
        let dup = st.stack.iter().any(|e| e.0 == id);
        st.stack.push((id, dup));
        st.log.push(format!("c ent h{id}"));
    }

    fn exit(&self, span: &Id) {
        let id = span.into_u64();
        let mut st = self.state.lock().unwrap();
        st.check("exit", id);
        if let Some(pos) = st.stack.iter().rposition(|e| e.0 == id) {
            st.stack.remove(pos);
        }
        st.log.push(format!("c ext h{id}"));
    }

    fn clone_span(&self, span: &Id) -> Id {
        let mut st = self.state.lock().unwrap();
        st.check("clone_span", span.into_u64());
        st.log.push(format!("c cln h{}", span.into_u64()));
        span.clone()
    }

    fn try_close(&self, span: Id) -> bool {
        let id = span.into_u64();
        let mut st = self.state.lock().unwrap();
        st.check("try_close", id);
        st.closed.insert(id);
        st.closes.push(id);
        st.log.push(format!("c cls h{id}"));
        true
    }

}


/// Stands in for "no subscriber installed yet": answers like `NoSubscriber` (never interested,
/// nothing enabled, placeholder ids) but remembers the metadata objects it is asked to register, so
/// that the harness can number them in a run-independent order afterwards.
#[derive(Default, Clone)]
pub struct NoHostYet {
    /// metadata objects it was asked to register, in the order of the calls
    pub seen: std::sync::Arc<Mutex<Vec<&'static Metadata<'static>>>>,
}

impl tracing_core::Subscriber for NoHostYet {
    fn register_callsite(&self, metadata: &'static Metadata<'static>) -> Interest {
        self.seen.lock().unwrap().push(metadata);
        Interest::never()
    }
    fn enabled(&self, _metadata: &Metadata<'_>) -> bool {
        false
    }
    fn new_span(&self, _span: &tracing_core::span::Attributes<'_>) -> tracing_core::span::Id {
        tracing_core::span::Id::from_u64(0xDEAD)
    }
    fn record(&self, _span: &tracing_core::span::Id, _values: &tracing_core::span::Record<'_>) {}
    fn record_follows_from(&self, _span: &tracing_core::span::Id, _follows: &tracing_core::span::Id) {}
    fn event(&self, _event: &tracing_core::Event<'_>) {}
    fn enter(&self, _span: &tracing_core::span::Id) {}
    fn exit(&self, _span: &tracing_core::span::Id) {}
}
