//! Correspondence harness: runs the real tracing-tunnel / tracing-capture code on generated,
//! enumerated and corpus cases and prints observations in the line protocol of the Lean driver.

#![allow(dead_code)]
mod dynsite;
mod gen;
mod heap;
mod hosts;
mod program;
mod spec;
mod json;
mod proto;
mod rng;
mod suites;

use std::{
    collections::{BTreeMap, HashSet},
    fs,
    io::Write,
    panic::{catch_unwind, AssertUnwindSafe},
    path::PathBuf,
};

use suites::{Outcome, Tier};

fn arg<'a>(args: &'a [String], key: &str) -> Option<&'a str> {
    args.iter().position(|a| a == key).and_then(|i| args.get(i + 1)).map(String::as_str)
}

fn read_case_file(path: &std::path::Path) -> Vec<String> {
    fs::read_to_string(path)
        .unwrap_or_else(|e| panic!("cannot read {}: {e}", path.display()))
        .lines()
        .map(str::trim_end)
        .filter(|l| !l.is_empty() && !l.starts_with('#') && !l.starts_with("case "))
        .map(str::to_owned)
        .collect()
}

fn run_guarded(suite: &dyn suites::Suite, lines: &[String]) -> Outcome {
    match catch_unwind(AssertUnwindSafe(|| suite.run(lines))) {
        Ok(o) => o,
        Err(p) => {
            let msg = p
                .downcast_ref::<String>()
                .cloned()
                .or_else(|| p.downcast_ref::<&str>().map(|s| (*s).to_owned()))
                .unwrap_or_else(|| "<non-string panic>".into());
            Outcome {
                obs: vec!["harness-panic".into()],
                fails: vec![format!("PANIC escaped the case runner: {msg}")],
                tags: vec!["panic".into()],
                docs: vec![],
            }
        }
    }
}

#[global_allocator]
static ALLOC: heap::Counting = heap::Counting;

fn main() {
    let args: Vec<String> = std::env::args().collect();
    if args.len() < 3 {
        eprintln!("usage: tt-harness run <suite> --seed S --n N --tier quick|thorough --out DIR [--corpus DIR]\n       tt-harness replay <suite> FILE");
        std::process::exit(2);
    }
    std::panic::set_hook(Box::new(|_| {})); // panics are reported through observations
    let suite_name = args[2].clone();
    let suite = suites::by_name(&suite_name).unwrap_or_else(|| {
        eprintln!("unknown suite {suite_name}");
        std::process::exit(2)
    });
    match args[1].as_str() {
        "replay" => {
            let lines = read_case_file(std::path::Path::new(&args[3]));
            let o = run_guarded(suite.as_ref(), &lines);
            println!("case 0 replay");
            for l in &o.obs {
                println!("{l}");
            }
            for f in &o.fails {
                println!("FAIL {f}");
            }
        }
        "run" => {
            let seed: u64 = arg(&args, "--seed").and_then(|s| s.parse().ok()).unwrap_or(0);
            let n: usize = arg(&args, "--n").and_then(|s| s.parse().ok()).unwrap_or(100);
            let tier = if arg(&args, "--tier") == Some("thorough") { Tier::Thorough } else { Tier::Quick };
            let focus = arg(&args, "--focus").unwrap_or("").to_owned();
            let out_dir = PathBuf::from(arg(&args, "--out").unwrap_or("."));
            fs::create_dir_all(&out_dir).unwrap();
            let mut cases: Vec<(String, Vec<String>)> = vec![];
            if let Some(dir) = arg(&args, "--corpus") {
                let mut files: Vec<_> = fs::read_dir(dir).map(|d| d.filter_map(Result::ok).map(|e| e.path()).collect()).unwrap_or_default();
                files.sort();
                for f in files {
                    if f.extension().is_some_and(|e| e == "case") {
                        cases.push((format!("corpus:{}", f.file_name().unwrap().to_string_lossy()), read_case_file(&f)));
                    }
                }
            }
            if arg(&args, "--no-enum").is_none() {
                for (i, c) in suite.enumerate(tier, &focus).into_iter().enumerate() {
                    cases.push((format!("enum:{i}"), c));
                }
            }
            let n_fixed = cases.len();
            let mut rng = rng::Rng::new(seed);
            for i in 0..n {
                let mut r = rng.fork(i as u64);
                cases.push((format!("rand:{seed}:{i}"), suite.gen(&mut r, tier, i, &focus)));
            }

            if arg(&args, "--gen-only").is_some() {
                // write the inputs only (used when a case aborts the process: each case is then
                // replayed in its own process)
                let mut f_in = std::io::BufWriter::new(fs::File::create(out_dir.join(format!("{suite_name}.in"))).unwrap());
                for (k, (origin, lines)) in cases.iter().enumerate() {
                    writeln!(f_in, "case {k} {origin}").unwrap();
                    for l in lines {
                        writeln!(f_in, "{l}").unwrap();
                    }
                }
                return;
            }
            let mut f_in = std::io::BufWriter::new(fs::File::create(out_dir.join(format!("{suite_name}.in"))).unwrap());
            let mut f_impl = std::io::BufWriter::new(fs::File::create(out_dir.join(format!("{suite_name}.impl"))).unwrap());
            let mut f_or = std::io::BufWriter::new(fs::File::create(out_dir.join(format!("{suite_name}.oracle"))).unwrap());
            let mut f_docs = std::io::BufWriter::new(fs::File::create(out_dir.join(format!("{suite_name}.docs"))).unwrap());
            let mut tags: BTreeMap<String, usize> = BTreeMap::new();
            let mut distinct: HashSet<String> = HashSet::new();
            let mut distinct_nontrivial = 0usize;
            let mut n_fail = 0usize;
            let mut lens: BTreeMap<usize, usize> = BTreeMap::new();
            for (k, (origin, lines)) in cases.iter().enumerate() {
                writeln!(f_in, "case {k} {origin}").unwrap();
                for l in lines {
                    writeln!(f_in, "{l}").unwrap();
                }
                let o = run_guarded(suite.as_ref(), lines);
                writeln!(f_impl, "case {k} {origin}").unwrap();
                for l in &o.obs {
                    writeln!(f_impl, "{l}").unwrap();
                }
                for d in &o.docs {
                    writeln!(f_docs, "{d}").unwrap();
                }
                writeln!(f_or, "case {k} {origin}").unwrap();
                for l in &o.fails {
                    writeln!(f_or, "FAIL {l}").unwrap();
                    n_fail += 1;
                }
                let is_new = distinct.insert(lines.join("\n"));
                let nontrivial = o.tags.iter().any(|t| t == "nontrivial");
                if is_new && nontrivial {
                    distinct_nontrivial += 1;
                }
                for t in o.tags {
                    *tags.entry(t).or_default() += 1;
                }
                let bucket = match lines.len() { 0..=4 => 4, 5..=16 => 16, 17..=64 => 64, _ => 1000 };
                *lens.entry(bucket).or_default() += 1;
            }
            let stats = serde_json::json!({
                "suite": suite_name, "seed": seed, "cases": cases.len(), "fixed_cases": n_fixed,
                "random_cases": n, "distinct": distinct.len(), "distinct_nontrivial": distinct_nontrivial,
                "oracle_failures": n_fail, "tags": tags,
                "case_length_buckets_le": lens,
            });
            fs::write(out_dir.join(format!("{suite_name}.stats.json")), serde_json::to_string_pretty(&stats).unwrap()).unwrap();
        }
        other => {
            eprintln!("unknown command {other}");
            std::process::exit(2);
        }
    }
}
