fn main(){}
