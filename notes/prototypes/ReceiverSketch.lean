/-! Scratch prototype of the receiver model (follows the unchanged code). Not part of the machinery. -/

abbrev Str := List Char

inductive TVal | int (i : Int) | str (s : Str)
deriving Repr, DecidableEq

abbrev TVals := List (Str × TVal)

def TVals.insert (vs : TVals) (k : Str) (v : TVal) : TVals :=
  if vs.any (·.1 == k) then vs.map (fun kv => if kv.1 == k then (k, v) else kv) else vs ++ [(k, v)]
def TVals.extend (vs : TVals) (kvs : TVals) : TVals := kvs.foldl (fun acc kv => acc.insert kv.1 kv.2) vs

structure CallSite where
  name : Str
  fields : List Str
deriving Repr, DecidableEq

structure SpanData where
  mt : Nat
  parent : Option Nat
  refCount : Nat
  values : TVals
deriving Repr, DecidableEq

inductive Event
 | newCallSite (id : Nat) (data : CallSite)
 | newSpan (id : Nat) (parent : Option Nat) (mt : Nat) (values : TVals)
 | followsFrom (id follows : Nat)
 | entered (id : Nat) | exited (id : Nat) | cloned (id : Nat) | dropped (id : Nat)
 | valuesRecorded (id : Nat) (values : TVals)
 | newEvent (mt : Nat) (parent : Option Nat) (values : TVals)
deriving Repr

inductive HParent | contextual | explicit (h : Nat)
deriving Repr, DecidableEq

inductive HostCall
 | register (m : Nat)
 | newSpan (h m : Nat) (p : HParent) (vals : TVals)
 | record (h : Nat) (vals : TVals)
 | follows (h h' : Nat) | enter (h : Nat) | exit (h : Nat) | tryClose (h : Nat)
 | event (m : Nat) (p : HParent) (vals : TVals)
deriving Repr, DecidableEq

/-- association map -/
abbrev AMap (α : Type) := List (Nat × α)
def AMap.get (m : AMap α) (k : Nat) : Option α := List.lookup k m
def AMap.erase (m : AMap α) (k : Nat) : AMap α := m.filter (·.1 != k)
def AMap.insert (m : AMap α) (k : Nat) (v : α) : AMap α := (k, v) :: m.erase k
def AMap.contains (m : AMap α) (k : Nat) : Bool := (m.get k).isSome

structure St where
  arena : List CallSite := []          -- process-wide interning (sequential)
  mt : AMap Nat := []                -- metadata id ↦ arena index
  spans : AMap SpanData := []
  loc : AMap Nat := []
  uncommitted : List Nat := []
  entered : List Nat := []             -- a set in the unchanged code
  hostNext : Nat := 1
  log : List HostCall := []
deriving Repr

inductive RErr | unknownMeta (id : Nat) | unknownSpan (id : Nat) | tooMany (actual : Nat)
deriving Repr, DecidableEq

inductive Res (α : Type) | ok (a : α) (s : St) | err (e : RErr) (s : St) | panic (site : String) (s : St)
deriving Repr

def RM (α : Type) := St → Res α
@[inline] def RM.pure (a : α) : RM α := fun s => .ok a s
@[inline] def RM.bind (m : RM α) (f : α → RM β) : RM β := fun s =>
  match m s with
  | .ok a s' => f a s'
  | .err e s' => .err e s'
  | .panic p s' => .panic p s'
instance : Monad RM where pure := RM.pure; bind := RM.bind

def fail (e : RErr) : RM α := fun s => .err e s
def panicAt (site : String) : RM α := fun s => .panic site s
def getS : RM St := fun s => .ok s s
def modS (f : St → St) : RM Unit := fun s => .ok () (f s)
def call (c : HostCall) : RM Unit := modS fun s => { s with log := s.log ++ [c] }

def MAX : Nat := 32

def ensureLen (vs : TVals) : RM Unit := if vs.length > MAX then fail (.tooMany vs.length) else pure ()
def metadata (id : Nat) : RM Nat := do
  match (← getS).mt.get id with | some m => pure m | none => fail (.unknownMeta id)
def span (id : Nat) : RM SpanData := do
  match (← getS).spans.get id with | some d => pure d | none => fail (.unknownSpan id)
def mapSpanId (id : Nat) : RM (Option Nat) := do
  let s ← getS
  match s.loc.get id with
  | some h => pure (some h)
  | none => if s.spans.contains id then pure none else fail (.unknownSpan id)

def generateFields (cs : CallSite) (vs : TVals) : TVals := vs.filter (fun kv => cs.fields.contains kv.1)
def createValues (vs : TVals) : RM TVals := if vs.length > MAX then panicAt "create_values: unreachable" else pure vs

def allocMetadata (d : CallSite) : RM (Nat × Bool) := fun s =>
  match s.arena.idxOf? d with
  | some i => .ok (i, false) s
  | none => .ok (s.arena.length, true) { s with arena := s.arena ++ [d] }

def onNewCallSite (id : Nat) (d : CallSite) : RM Unit := do
  let (m, isNew) ← allocMetadata d
  modS fun s => { s with mt := s.mt.insert id m }
  if isNew then call (.register m)

def createLocalSpan (d : SpanData) : RM Nat := do
  let m ← metadata d.mt
  let p ← match d.parent with
    | some pid => mapSpanId pid
    | none => pure none
  let cs := ((← getS).arena[m]?).getD ⟨[], []⟩
  let vals ← createValues (generateFields cs d.values)
  let h := (← getS).hostNext
  modS fun s => { s with hostNext := s.hostNext + 1 }
  call (.newSpan h m (match p with | some ph => .explicit ph | none => .contextual) vals)
  pure h

def tryReceive : Event → RM Unit
  | .newCallSite id d => onNewCallSite id d
  | .newSpan id parent mt values => do
      ensureLen values
      let data : SpanData := ⟨mt, parent, 1, values⟩
      if !(← getS).loc.contains id then
        let h ← createLocalSpan data
        modS fun s => { s with loc := s.loc.insert id h }
      modS fun s => { s with spans := s.spans.insert id data, uncommitted := id :: s.uncommitted.filter (· != id) }
  | .followsFrom id f => do
      let a ← mapSpanId id
      let b ← mapSpanId f
      match a, b with
      | some a, some b => call (.follows a b)
      | _, _ => pure ()
  | .entered id => do
      let h ← match (← mapSpanId id) with
        | some h => pure h
        | none => do
            let d ← span id
            let h ← createLocalSpan d
            modS fun s => { s with loc := s.loc.insert id h }
            pure h
      modS fun s => { s with entered := id :: s.entered.filter (· != id) }
      call (.enter h)
  | .exited id => do
      match (← mapSpanId id) with
      | some h => call (.exit h)
      | none => pure ()
      modS fun s => { s with entered := s.entered.filter (· != id) }
  | .cloned id => do
      let d ← span id
      modS fun s => { s with spans := s.spans.insert id { d with refCount := d.refCount + 1 } }
  | .dropped id => do
      let d ← span id
      if d.refCount = 0 then panicAt "ref_count underflow"
      else if d.refCount - 1 = 0 then do
        let h := (← getS).loc.get id
        modS fun s => { s with spans := s.spans.erase id, entered := s.entered.filter (· != id),
                               uncommitted := s.uncommitted.filter (· != id), loc := s.loc.erase id }
        match h with
        | some h => call (.tryClose h)
        | none => pure ()
      else modS fun s => { s with spans := s.spans.insert id { d with refCount := d.refCount - 1 } }
  | .valuesRecorded id values => do
      ensureLen values
      match (← mapSpanId id) with
      | some h => do
          let d ← span id      -- `self.spans.inner[&id]`
          let m ← metadata d.mt
          let cs := ((← getS).arena[m]?).getD ⟨[], []⟩
          let vals ← createValues (generateFields cs values)
          call (.record h vals)
      | none => pure ()
      let d ← span id
      modS fun s => { s with spans := s.spans.insert id { d with values := d.values.extend values } }
  | .newEvent mt parent values => do
      ensureLen values
      let m ← metadata mt
      let cs := ((← getS).arena[m]?).getD ⟨[], []⟩
      let vals ← createValues (generateFields cs values)
      let p ← match parent with
        | some pid => mapSpanId pid
        | none => pure none
      call (.event m (match p with | some ph => .explicit ph | none => .contextual) vals)

def finalize (s : St) : St :=
  let exits := s.entered.filterMap (fun g => (s.loc.get g).map HostCall.exit)
  let closes := s.uncommitted.filterMap (fun g => (s.loc.get g).map HostCall.tryClose)
  { s with entered := [], uncommitted := [], log := s.log ++ exits ++ closes }

def dropR (s : St) : St := finalize s

def runAll (evs : List Event) (s : St) : St × List String :=
  evs.foldl (fun (acc : St × List String) e =>
    match tryReceive e acc.1 with
    | .ok _ s' => (s', acc.2 ++ ["ok"])
    | .err e s' => (s', acc.2 ++ [s!"err {repr e}"])
    | .panic p s' => (s', acc.2 ++ [s!"panic {p}"])) (s, [])

def hostStack (log : List HostCall) : List Nat :=
  log.foldl (fun st c => match c with
    | .enter h => st ++ [h]
    | .exit h => match st.reverse.idxOf? h with
        | some i => st.eraseIdx (st.length - 1 - i)
        | none => st
    | _ => st) []

def cs0 : CallSite := ⟨"s".toList, []⟩
-- D2 witness: re-entrant enter then drop leaves host span entered
#eval hostStack (dropR (runAll [.newCallSite 0 cs0, .newSpan 1 none 0 [], .entered 1, .entered 1] {}).1).log

-- "every fallible step precedes every effect"
def ErrPure (m : RM α) : Prop := ∀ s e s', m s = .err e s' → s' = s
def ReadOnly (m : RM α) : Prop := ∀ s, (∃ a, m s = .ok a s) ∨ (∃ e, m s = .err e s) ∨ (∃ p, m s = .panic p s)
def NoErr (m : RM α) : Prop := ∀ s e s', m s ≠ .err e s'

theorem ErrPure.bind_ro {m : RM α} {f : α → RM β} (hm : ReadOnly m) (hf : ∀ a, ErrPure (f a)) :
    ErrPure (m >>= f) := by
  intro s e s' h
  simp only [bind, RM.bind] at h
  rcases hm s with ⟨a, ha⟩ | ⟨e', he⟩ | ⟨p, hp⟩
  · rw [ha] at h; exact hf a s e s' h
  · rw [he] at h; simp at h; exact h.2.symm
  · rw [hp] at h; simp at h

theorem ErrPure.of_noErr {m : RM α} (h : NoErr m) : ErrPure m := fun s e s' he => absurd he (h s e s')

theorem ReadOnly.pure (a : α) : ReadOnly (pure a : RM α) := fun s => .inl ⟨a, rfl⟩
theorem ReadOnly.fail (e : RErr) : ReadOnly (fail e : RM α) := fun s => .inr (.inl ⟨e, rfl⟩)
theorem ReadOnly.panicAt (p : String) : ReadOnly (panicAt p : RM α) := fun s => .inr (.inr ⟨p, rfl⟩)
theorem ReadOnly.getS : ReadOnly getS := fun s => .inl ⟨s, rfl⟩
theorem ReadOnly.bind {m : RM α} {f : α → RM β} (hm : ReadOnly m) (hf : ∀ a, ReadOnly (f a)) :
    ReadOnly (m >>= f) := by
  intro s
  simp only [Bind.bind, RM.bind]
  rcases hm s with ⟨a, ha⟩ | ⟨e, he⟩ | ⟨p, hp⟩
  · rw [ha]; exact hf a s
  · rw [he]; exact .inr (.inl ⟨e, rfl⟩)
  · rw [hp]; exact .inr (.inr ⟨p, rfl⟩)

theorem ReadOnly.ensureLen (vs) : ReadOnly (ensureLen vs) := by
  unfold _root_.ensureLen; split
  · exact ReadOnly.fail _
  · exact ReadOnly.pure _
theorem ReadOnly.metadata (id) : ReadOnly (metadata id) := by
  unfold _root_.metadata
  refine ReadOnly.bind ReadOnly.getS fun s => ?_
  split
  · exact ReadOnly.pure _
  · exact ReadOnly.fail _
theorem ReadOnly.span (id) : ReadOnly (span id) := by
  unfold _root_.span
  refine ReadOnly.bind ReadOnly.getS fun s => ?_
  split
  · exact ReadOnly.pure _
  · exact ReadOnly.fail _
theorem ReadOnly.mapSpanId (id) : ReadOnly (mapSpanId id) := by
  unfold _root_.mapSpanId
  refine ReadOnly.bind ReadOnly.getS fun s => ?_
  split
  · exact ReadOnly.pure _
  · split
    · exact ReadOnly.pure _
    · exact ReadOnly.fail _
theorem ReadOnly.createValues (vs) : ReadOnly (createValues vs) := by
  unfold _root_.createValues; split
  · exact ReadOnly.panicAt _
  · exact ReadOnly.pure _

theorem NoErr.modS (f) : NoErr (modS f) := by intro s e s' h; simp [_root_.modS] at h
theorem NoErr.call (c) : NoErr (call c) := NoErr.modS _
theorem NoErr.pure (a : α) : NoErr (pure a : RM α) := by intro s e s' h; simp [Pure.pure, RM.pure] at h
theorem NoErr.panicAt (p : String) : NoErr (panicAt p : RM α) := by intro s e s' h; simp [_root_.panicAt] at h
theorem NoErr.bind {m : RM α} {f : α → RM β} (hm : NoErr m) (hf : ∀ a, NoErr (f a)) : NoErr (m >>= f) := by
  intro s e s' h
  simp only [Bind.bind, RM.bind] at h
  split at h
  · exact hf _ _ _ _ h
  · rename_i heq; exact hm _ _ _ heq
  · simp at h
theorem NoErr.getS : NoErr getS := by intro s e s' h; simp [_root_.getS] at h


set_option maxRecDepth 4000 in
theorem errPure_all (ev : Event) : ErrPure (tryReceive ev) := by
  intro s e s' h
  cases ev <;>
    simp only [tryReceive, onNewCallSite, allocMetadata, createLocalSpan, ensureLen, metadata, span, mapSpanId,
      createValues, call, modS, getS, fail, panicAt, bind, RM.bind, pure, RM.pure] at h <;>
    (repeat' split at h) <;> (try simp_all)
